"""Lead's tool: confirm an independently produced breaking change and run the checks against it.

  python harness/seedtest.py <PROP> <dir with patch.diff + demo.py [+ notes.md]> <seed-id> [--tests "<pytest paths>"] [--props "C04 C05"]

Steps (all in scratch copies, /repo and /verif untouched): worktree of /repo HEAD; demo.py must PASS; apply the patch;
demo.py must FAIL; optional pytest paths must pass with the patch; copy of /verif runs `./check <P>` with VERIF_REPO
pointing at the patched worktree for every property listed (default: the seeded one); results go to
/verif/seeded/<seed-id>/{patch.diff, demo.py, notes.md, meta.json}; scratch dirs are removed."""
from __future__ import annotations

import argparse
import json
import os
import shutil
import subprocess
import sys
import time
from pathlib import Path

ROOT = Path(__file__).resolve().parent.parent


def sh(cmd, cwd=None, env=None, timeout=3600):
    p = subprocess.run(cmd, shell=True, cwd=cwd, env=env, capture_output=True, text=True, timeout=timeout)
    return p.returncode, (p.stdout + p.stderr)


def main():
    ap = argparse.ArgumentParser()
    ap.add_argument('prop')
    ap.add_argument('src')
    ap.add_argument('seed_id')
    ap.add_argument('--tests', default='')
    ap.add_argument('--props', default='')
    ap.add_argument('--tier', default='quick')
    a = ap.parse_args()
    src = Path(a.src)
    wt = Path(f'/tmp/wt-seed-{a.seed_id}')
    vc = Path(f'/tmp/v-seed-{a.seed_id}')
    meta = dict(seed_id=a.seed_id, property=a.prop, repo_head=sh('git -C /repo rev-parse --short HEAD')[1].strip(), ran=[])
    env = dict(os.environ, PYTHONHASHSEED='0')
    try:
        sh(f'git -C /repo worktree remove --force {wt}')
        rc, out = sh(f'git -C /repo worktree add -q {wt} HEAD')
        assert rc == 0, out
        env['PYTHONPATH'] = str(wt)
        demo = src / 'demo.py'
        rc0, out0 = sh(f'/venv/bin/python {demo}', cwd=wt, env=env, timeout=600)
        meta['demo_without_patch'] = dict(rc=rc0, tail=out0[-300:])
        rc, out = sh(f'git apply {src / "patch.diff"}', cwd=wt)
        assert rc == 0, 'patch does not apply: ' + out
        rc1, out1 = sh(f'/venv/bin/python {demo}', cwd=wt, env=env, timeout=600)
        meta['demo_with_patch'] = dict(rc=rc1, tail=out1[-300:])
        meta['ran'].append(f'demo.py without patch rc={rc0}, with patch rc={rc1}')
        if a.tests:
            t0 = time.time()
            rc, out = sh(f"unshare -n sh -c 'ip link set lo up; exec /venv/bin/python -m pytest {a.tests} -q -p no:cacheprovider -x --timeout=900'", cwd=wt, env=env, timeout=7200)
            meta['tests_with_patch'] = dict(cmd=f'pytest {a.tests}', rc=rc, tail=out[-400:], wall=round(time.time() - t0))
            meta['ran'].append(f'pytest {a.tests} with patch: rc={rc}')
        # run the checks from a private copy of /verif against the patched tree
        sh(f'rm -rf {vc}; rsync -a --exclude .git --exclude replays {ROOT}/ {vc}/')
        results = {}
        for p in (a.props.split() or [a.prop]):
            t0 = time.time()
            e2 = dict(os.environ, VERIF_REPO=str(wt), VERIF_TIER=a.tier)
            rc, out = sh(f'./check {p} --tier {a.tier}', cwd=vc, env=e2, timeout=7200)
            lines = [l for l in out.splitlines() if l.startswith('VIOLATION') or l.startswith('KNOWN-FINDING')]
            vio = [l for l in lines if l.startswith('VIOLATION')]
            rep = None
            if vio:
                path = vio[0].split('replay=')[1].split()[0].replace('/verif/', str(vc) + '/')
                try:
                    d = json.loads(Path(path).read_text())
                    rep = dict(signature=d.get('signature'), what=d.get('what'), broken=[b['what'] for b in d.get('broken', [])][:3] if 'broken' in d else None)
                except Exception as e:
                    rep = dict(error=repr(e))
            results[p] = dict(rc=rc, caught=bool(vio), with_failing_input=bool(vio) and 'no-failing-input-found' not in vio[0],
                              violation_lines=[v[:200] for v in vio][:4], first_replay=rep, wall=round(time.time() - t0),
                              summary=out.strip().splitlines()[-1][:300] if out.strip() else '')
            meta['ran'].append(f'VERIF_REPO=<patched worktree> ./check {p} --tier {a.tier}: rc={rc}')
        meta['checks'] = results
        dst = ROOT / 'seeded' / a.seed_id
        dst.mkdir(parents=True, exist_ok=True)
        for f in ('patch.diff', 'demo.py', 'notes.md'):
            if (src / f).exists():
                shutil.copy(src / f, dst / f)
        notes = (src / 'notes.md').read_text() if (src / 'notes.md').exists() else ''
        meta['breaks'] = a.prop
        meta['needs_to_manifest'] = notes[:1500]
        (dst / 'meta.json').write_text(json.dumps(meta, indent=1))
        print(json.dumps(dict(seed=a.seed_id, demo=(rc0, rc1), tests=meta.get('tests_with_patch', {}).get('rc'),
                              checks={k: (v['caught'], v['with_failing_input'], v['wall']) for k, v in results.items()}), indent=1))
    finally:
        sh(f'git -C /repo worktree remove --force {wt}')
        sh(f'rm -rf {vc}')


if __name__ == '__main__':
    main()
