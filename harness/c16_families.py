"""C16 - gate-table injectivity: circuits holding several gates of one class and the same radixes that differ in exactly
one constructor argument.

Circuit.__reduce__ marshals every operation as an index into a table keyed by the gates' __hash__/__eq__
(coq/circuit/CPickleTbl.v).  The round trip is the identity only if "same hash and ==" implies "same gate"
(theorem C16_gate_table_roundtrip; C16_gate_table_needs_injective_eq_refuted shows the hypothesis is needed).  This module
  (1) evaluates that hypothesis on the real gate classes: inside every family, two members with different constructor
      state must not be `==` with equal hashes (and `==` members must have equal hashes);
  (2) evaluates the property itself on circuits / nested CircuitGates built from each family: pickle, dill, copy, become;
      compared per operation on gate identity (class + constructor state, NOT `==`), location, parameters, unitary, and on
      the whole circuit: unitary, ==, gate_set, hashes;
  (3) compares the gate table / marshalled indices of the real __reduce__ with the extracted Coq model `marshal`.
"""
from __future__ import annotations

import pickle
import random

import numpy as np

import vf

SKIP_ATTRS = {'_name', '__cache_key__'}   # derived text; the spelling of the constructor call (IdentityGate() / IdentityGate(1) / num_qudits=1 are one gate)


def describe(x, depth=0):
    """Identity of a gate by class and constructor state (recursively), independent of the classes' __eq__/__hash__."""
    from bqskit.ir.gate import Gate
    from bqskit.ir.circuit import Circuit
    from bqskit.ir.gates import CircuitGate
    from bqskit.ir.location import CircuitLocation
    if depth > 12:
        return '<deep>'
    if isinstance(x, CircuitGate):
        # the stored parameter values of the inner circuit are not part of the gate: every use overwrites them with the
        # operation's own parameters (get_unitary(params), unfold) -- structure only
        return ('CircuitGate', describe_circuit(x._circuit, depth + 1, with_params=False))
    if isinstance(x, Gate):
        d = dict(vars(x))
        return (type(x).__module__ + '.' + type(x).__qualname__,
                tuple(sorted((k, describe(v, depth + 1)) for k, v in d.items() if k not in SKIP_ATTRS)))
    if isinstance(x, Circuit):
        return describe_circuit(x, depth + 1)
    if isinstance(x, CircuitLocation):
        return ('loc',) + tuple(int(q) for q in x)
    if isinstance(x, type):
        return ('class', x.__module__ + '.' + x.__qualname__)
    if isinstance(x, (bool, int, str, type(None))):
        return (type(x).__name__, x)
    if isinstance(x, (float, np.floating)):
        return ('float', round(float(x), 10) + 0.0)
    if isinstance(x, (complex, np.complexfloating)):
        return ('complex', round(x.real, 10) + 0.0, round(x.imag, 10) + 0.0)
    if isinstance(x, np.integer):
        return ('int', int(x))
    if hasattr(x, 'numpy') and hasattr(x, 'radixes'):            # UnitaryMatrix & co
        return ('utry', tuple(x.radixes), describe(np.array(x.numpy), depth + 1))
    if isinstance(x, np.ndarray):
        return ('arr', x.shape, tuple(describe(v, depth + 1) for v in x.flatten().tolist()))
    if isinstance(x, dict):
        return ('dict', tuple(sorted(((describe(k, depth + 1), describe(v, depth + 1)) for k, v in x.items()), key=repr)))
    if isinstance(x, (set, frozenset)):
        return ('set', tuple(sorted((describe(v, depth + 1) for v in x), key=repr)))
    if isinstance(x, (list, tuple)):
        return (type(x).__name__,) + tuple(describe(v, depth + 1) for v in x)
    return ('repr', type(x).__name__, repr(x)[:200])


def describe_circuit(c, depth=0, with_params=True):
    return ('Circuit', c.num_qudits, tuple(c.radixes),
            tuple((cy, describe(op.gate, depth + 1), tuple(op.location), tuple(round(float(p), 10) for p in op.params) if with_params else len(op.params))
                  for cy, op in c.operations_with_cycles()))


# ------------------------------------------------------------------------------------------------------------------
# families: same class, same radixes, members differ in exactly one constructor argument
# ------------------------------------------------------------------------------------------------------------------
def families():
    import bqskit.ir.gates as G
    from bqskit.ir.circuit import Circuit
    CG, PW, FP, TG, EG, DG = G.ControlledGate, G.PowerGate, G.FrozenParameterGate, G.TaggedGate, G.EmbeddedGate, G.DaggerGate
    X, Y, Z, H, S, T = G.XGate(), G.YGate(), G.ZGate(), G.HGate(), G.SGate(), G.TGate()
    RZ, RX, U3, CX = G.RZGate(), G.RXGate(), G.U3Gate(), G.CXGate()
    fam = {}
    fam['ControlledGate.control_levels/qubit'] = lambda: [CG(X), CG(X, control_levels=0), CG(X, 1, 2, [[0, 1]])]
    fam['ControlledGate.control_levels/qutrit-ctrl'] = lambda: [CG(RZ, 1, 3, [[k]]) for k in (0, 1, 2)] + [CG(RZ, 1, 3, [[1, 2]]), CG(RZ, 1, 3, [[0, 2]])]
    fam['ControlledGate.control_levels/two-ctrl'] = lambda: [CG(X, 2, [2, 3], lv) for lv in ([[1], [2]], [[1], [1]], [[0], [2]], [[1], [0, 2]], [[0, 1], [2]])]
    fam['ControlledGate.control_levels/order'] = lambda: [CG(U3, 2, [3, 3], lv) for lv in ([[1], [2]], [[2], [1]], [[1, 2], [2]], [[2], [1, 2]])]
    fam['ControlledGate.gate'] = lambda: [CG(X), CG(Y), CG(Z), CG(H)]
    fam['ControlledGate.nesting'] = lambda: [CG(X, 2), CG(CG(X)), CG(CG(X, control_levels=0)), CG(CG(X), control_levels=0)]
    fam['PowerGate.power'] = lambda: [PW(RZ, k) for k in (-2, -1, 0, 1, 2, 3)]
    fam['PowerGate.power/const'] = lambda: [PW(T, k) for k in (-3, -1, 1, 2, 5)]
    fam['PowerGate.gate'] = lambda: [PW(S, 2), PW(T, 2), PW(X, 2)]
    fam['FrozenParameterGate.value'] = lambda: [FP(U3, {0: v}) for v in (1.0, 1.5, -1.0, 0.0)]
    fam['FrozenParameterGate.index'] = lambda: [FP(U3, {i: 1.0}) for i in (0, 1, 2)]
    fam['FrozenParameterGate.two'] = lambda: [FP(U3, {0: 1.0, 2: 0.5}), FP(U3, {0: 0.5, 2: 1.0}), FP(U3, {0: 1.0, 1: 0.5}), FP(U3, {1: 1.0, 2: 0.5})]
    fam['TaggedGate.tag'] = lambda: [TG(X, t) for t in ('a', 'b', 7, 8, ('a', 1), ('a', 2), None)]
    fam['TaggedGate.tag/dict'] = lambda: [TG(U3, {'k': 1}), TG(U3, {'k': 2}), TG(U3, {'j': 1}), TG(U3, {'k': 1, 'j': 1})]
    fam['TaggedGate.gate'] = lambda: [TG(X, 't'), TG(Y, 't'), TG(Z, 't')]
    fam['EmbeddedGate.level_maps'] = lambda: [EG(X, 3, lm) for lm in ([0, 1], [0, 2], [1, 2], [2, 0], [1, 0])]
    fam['EmbeddedGate.level_maps/two'] = lambda: [EG(CX, [3, 3], lm) for lm in ([[0, 1], [0, 1]], [[0, 1], [0, 2]], [[0, 2], [0, 1]], [[1, 2], [1, 2]])]
    fam['EmbeddedGate.level_maps/param'] = lambda: [EG(RZ, 4, lm) for lm in ([0, 1], [2, 3], [0, 3], [3, 0])]
    fam['DaggerGate.gate'] = lambda: [DG(S), DG(T), DG(G.SXGate()), DG(U3), DG(RZ), DG(RX)]
    fam['ConstantUnitaryGate.utry'] = lambda: [G.ConstantUnitaryGate(g.get_unitary()) for g in (H, X, T, S)]
    fam['VariableLocationGate.locations'] = lambda: [G.VariableLocationGate(CX, ls, [2, 2, 2]) for ls in
                                                     ([(0, 1), (1, 2)], [(0, 1), (0, 2)], [(1, 2), (0, 1)], [(0, 1)], [(1, 0), (1, 2)])]
    fam['PermutationGate.location'] = lambda: [G.PermutationGate(3, p) for p in ((1, 0, 2), (0, 2, 1), (2, 1, 0), (1, 2, 0), (2, 0, 1))]
    fam['MPRYGate.target'] = lambda: [G.MPRYGate(3, t) for t in (0, 1, 2)]
    fam['MPRZGate.target'] = lambda: [G.MPRZGate(3, t) for t in (0, 1, 2)]
    fam['SubSwapGate.levels'] = lambda: [G.SubSwapGate(3, s) for s in ('0,1;1,0', '0,2;2,0', '1,2;2,1', '0,1;2,0')]
    fam['PDGate.index'] = lambda: [G.PDGate(i, 3) for i in (0, 1, 2)]
    fam['RSU3Gate.index'] = lambda: [G.RSU3Gate(i) for i in range(0, 4)]
    fam['MeasurementPlaceholder.measurements'] = lambda: [G.MeasurementPlaceholder([('c', 2)], m) for m in
                                                          ({0: ('c', 0), 1: ('c', 1)}, {0: ('c', 1), 1: ('c', 0)}, {0: ('c', 0), 1: ('c', 0)})]
    fam['MeasurementPlaceholder.regs'] = lambda: [G.MeasurementPlaceholder(r, {0: ('c', 0), 1: ('c', 1)}) for r in
                                                  ([('c', 2)], [('c', 3)], [('c', 2), ('d', 1)])]

    def blk(ops, n=2, rads=None):
        c = Circuit(n, rads or [2] * n)
        for g, loc, ps in ops:
            c.append_gate(g, loc, ps)
        return G.CircuitGate(c)
    fam['CircuitGate.inner-gate'] = lambda: [blk([(H, 0, []), (g, (0, 1), []), (RZ, 1, [0.3])]) for g in
                                             (CX, CG(X, control_levels=0), G.CZGate(), G.CYGate())]
    fam['CircuitGate.inner-location'] = lambda: [blk([(CX, loc, []), (RZ, q, [0.3])]) for loc, q in (((0, 1), 0), ((1, 0), 0), ((0, 1), 1), ((1, 0), 1))]
    fam['CircuitGate.inner-length'] = lambda: [blk([(CX, (0, 1), [])] + [(H, 0, [])] * k) for k in (0, 1, 2, 3)]
    fam['CircuitGate.inner-nested'] = lambda: [blk([(blk([(g, (0, 1), [])]), (0, 1), []), (H, 1, [])]) for g in (CX, CG(X, control_levels=0), G.CZGate())]
    fam['CircuitGate.inner-composed'] = lambda: [blk([(PW(RZ, k), 0, [0.4]), (CX, (0, 1), [])]) for k in (1, 2, 3)]
    return fam


def auto_families(objs):
    """every group of catalogue gates of one class and the same radixes with >= 2 members"""
    groups = {}
    for tag, g in objs:
        groups.setdefault((type(g).__name__, tuple(g.radixes)), []).append(g)
    out = {}
    for (cls, rads), gs in sorted(groups.items(), key=repr):
        seen, uniq = set(), []
        for g in gs:
            d = describe(g)
            if d not in seen:
                seen.add(d)
                uniq.append(g)
        if len(uniq) >= 2:
            out[f'auto:{cls}:{",".join(map(str, rads))}'] = uniq
    return out


# ------------------------------------------------------------------------------------------------------------------
def build_circuit(gs, rng, reps=2):
    """a circuit over radixes r+r holding every member `reps` times, interleaved, with random parameters"""
    from bqskit.ir.circuit import Circuit
    import bqskit.ir.gates as G
    r = list(gs[0].radixes)
    k = len(r)
    uniform = len(set(r)) == 1
    n = k + 1 if (uniform and k <= 2) else k          # keep the unitaries small: at most one spare qudit
    c = Circuit(n, r + r[:n - k])
    seq = [g for g in gs for _ in range(reps)]
    rng.shuffle(seq)
    for g in seq:
        loc = rng.sample(range(n), k) if uniform else list(range(k))
        c.append_gate(g, loc, [round(rng.uniform(-3, 3), 3) for _ in range(g.num_params)])
        if rng.random() < 0.3:
            q = rng.randrange(n)
            if c.radixes[q] == 2:
                c.append_gate(G.HGate(), q)
    return c


def layout(c, with_u=False):
    out = []
    for cy, op in c.operations_with_cycles():
        u = None
        if with_u:
            try:
                u = op.get_unitary()
            except Exception:
                u = None
        out.append((cy, tuple(op.location), tuple(round(float(p), 10) for p in op.params), describe(op.gate), u, op))
    return out


def compare(ctx, fname, how, sent, got, sent_layout, sent_utry, case):
    """property oracle on one round trip; returns True when something was reported"""
    cls = fname.split('.')[0].split(':')[1] if fname.startswith('auto:') else fname.split('.')[0]
    gl = layout(got, with_u=how.startswith('pickle'))

    def viol(symptom, expected, observed, what):
        ctx.violation(dict(call=how, obj=cls, symptom=symptom), case, expected, observed, f'{how} of a circuit holding {fname} variants: ' + what)
        return True
    if len(gl) != len(sent_layout):
        return viol('op-count', len(sent_layout), len(gl), 'number of operations changed')
    for i, (s, g) in enumerate(zip(sent_layout, gl)):
        if s[0] != g[0] or s[1] != g[1] or s[2] != g[2]:
            return viol('layout', str(s[:3]), str(g[:3]), f'operation {i} moved or changed parameters')
        if s[3] != g[3]:
            dd = diffdesc(s[3], g[3])
            return viol('gate-identity', dict(at=dd['at'], gate=dd['sent']), dict(at=dd['at'], gate=dd['received']),
                        f'operation {i} (cycle {s[0]}, location {s[1]}) arrived as a different gate (constructor state differs)')
        if s[4] is not None and g[4] is not None and s[4].get_distance_from(g[4]) > 1e-7:
            return viol('op-unitary', 'same unitary', float(s[4].get_distance_from(g[4])), f'operation {i} arrived with a different unitary')
        if not (g[5] == s[5]) or hash(g[5]) != hash(s[5]) or hash(g[5].gate) != hash(s[5].gate):
            return viol('eq-hash', 'equal operation with equal hash', str(g[5]), f'operation {i} is not == / hashes differently after the trip')
    if sent_utry is not None:
        try:
            d = float(sent_utry.get_distance_from(got.get_unitary()))
        except Exception as e:
            return viol('unitary-raised', 'unitary', repr(e)[:200], 'get_unitary raised on the received circuit')
        if d > 1e-7:
            return viol('unitary', 0.0, d, f'the received circuit implements a different unitary (distance {d:.6f})')
    if not (got == sent):
        return viol('circuit-eq', True, False, 'received circuit is not == the sent one')
    gs_s, gs_g = set(sent.gate_set), set(got.gate_set)
    if len(gs_s) != len(gs_g) or gs_s != gs_g:
        return viol('gate-set', len(gs_s), len(gs_g), 'gate_set differs')
    if sorted(map(repr, (describe(x) for x in gs_s))) != sorted(map(repr, (describe(x) for x in gs_g))):
        return viol('gate-set-identity', 'same gates', 'different constructor state', 'gate_set holds different gates')
    return False


def short(d):
    return repr(d)[:600]


def diffdesc(a, b, path=''):
    """first place where two descriptions differ (keeps replays readable)"""
    if type(a) is type(b) and isinstance(a, tuple) and len(a) == len(b):
        for i, (x, y) in enumerate(zip(a, b)):
            if x != y:
                key = f'{x[0]}' if isinstance(x, tuple) and len(x) == 2 and isinstance(x[0], str) and isinstance(y, tuple) and y[:1] == x[:1] else str(i)
                return diffdesc(x, y, path + '/' + key)
    return dict(at=path, sent=repr(a)[:300], received=repr(b)[:300])


def check_family(ctx, fname, gs, seed, table_lines=None):
    """hypothesis (1), oracle (2), and collection of the __reduce__ tables for the correspondence (3)"""
    import dill
    from bqskit.ir.circuit import Circuit
    import bqskit.ir.gates as G
    rng = random.Random(seed)
    cls = fname.split('.')[0].split(':')[1] if fname.startswith('auto:') else fname.split('.')[0]
    descs = [describe(g) for g in gs]
    case0 = dict(kind='family', family=fname, seed=seed)
    ctx.case(('family', fname, seed))
    ctx.count('family:' + cls)
    # (1) the hypothesis of C16_gate_table_roundtrip on the real classes
    for i in range(len(gs)):
        for j in range(len(gs)):
            same = descs[i] == descs[j]
            eq = bool(gs[i] == gs[j])
            heq = hash(gs[i]) == hash(gs[j])
            if eq and not heq:
                ctx.violation(dict(call='gate-eq', obj=cls, symptom='eq-without-hash'), dict(case0, members=[i, j]), 'equal hashes', [hash(gs[i]), hash(gs[j])],
                              f'{fname}: members {i},{j} are == but hash differently')
            if i != j and not same and eq and heq:
                ctx.violation(dict(call='gate-eq', obj=cls, symptom='eq-not-injective'), dict(case0, members=[i, j]), 'distinct gates compare unequal',
                              diffdesc(descs[i], descs[j]),
                              f'{fname}: members {i},{j} differ in constructor state but are == with equal hashes: the gate table of Circuit.__reduce__ merges them '
                              '(hypothesis of C16_gate_table_roundtrip fails on the real class)')
            if i != j and not same and eq and not heq:
                ctx.count('eq-weak-noninjective:' + cls)     # == is not injective but hashes differ: no table collision; recorded only
            if same and not eq:
                ctx.violation(dict(call='gate-eq', obj=cls, symptom='not-reflexive'), dict(case0, members=[i, j]), '==', '!=', f'{fname}: identical constructions are not ==')
    uniq = []
    for g, d in zip(gs, descs):
        if d not in [x[1] for x in uniq]:
            uniq.append((g, d))
    members = [g for g, _ in uniq]
    # (2) circuits holding the whole family, and nested forms
    flat = build_circuit(members, rng)
    circuits = [('flat', flat)]
    outer = Circuit(flat.num_qudits, flat.radixes)
    outer.append_gate(G.CircuitGate(flat), list(range(flat.num_qudits)), list(flat.params))
    circuits.append(('nested', outer))
    if len(members) >= 2:
        two = Circuit(flat.num_qudits, flat.radixes)
        k = len(members[0].radixes)
        for g in members[:4]:
            one = Circuit(k, list(g.radixes))
            one.append_gate(g, list(range(k)), [round(rng.uniform(-2, 2), 3) for _ in range(g.num_params)])
            loc = rng.sample(range(two.num_qudits), k) if len(set(two.radixes)) == 1 else list(range(k))
            two.append_gate(G.CircuitGate(one), loc, list(one.params))
        circuits.append(('blocks', two))
    for shape, c in circuits:
        sl = layout(c, with_u=True)
        try:
            su = c.get_unitary()
        except Exception:
            su = None
        trips = [('pickle', lambda c=c: pickle.loads(pickle.dumps(c))), ('dill', lambda c=c: dill.loads(dill.dumps(c))),
                 ('copy', lambda c=c: c.copy()), ('become', lambda c=c: _become(c)),
                 ('pickle-op', None)]
        for how, f in trips:
            case = dict(case0, shape=shape, how=how)
            if f is None:
                # every operation on its own (Operation pickles its gate directly: must agree with the table path)
                for i, s in enumerate(sl):
                    o2 = pickle.loads(pickle.dumps(s[5]))
                    if describe(o2.gate) != s[3] or not (o2 == s[5]) or hash(o2) != hash(s[5]):
                        ctx.violation(dict(call='pickle', obj='Operation', symptom='gate-identity'), dict(case, op=i), short(s[3]), short(describe(o2.gate)), 'pickled Operation carries a different gate')
                continue
            try:
                got = f()
            except Exception as e:
                ctx.violation(dict(call=how, obj=cls, symptom='raised'), case, 'round trip', repr(e)[:300], f'{how} of a circuit holding {fname} variants raised')
                continue
            compare(ctx, fname, how + ':' + shape if shape != 'flat' else how, c, got, sl, su, case)
            if su is not None and su.get_distance_from(c.get_unitary()) > 1e-7 or [x[3] for x in layout(c)] != [x[3] for x in sl]:
                ctx.violation(dict(call=how, obj=cls, symptom='source-changed'), case, 'source untouched', 'changed', f'{how} changed the source circuit')
        if table_lines is not None:
            table_lines.append(table_case(c, fname, shape, seed))


def _become(c):
    from bqskit.ir.circuit import Circuit
    e = Circuit(1)
    e.become(c)
    return e


# ------------------------------------------------------------------------------------------------------------------
# (3) real __reduce__ gate table vs coq/circuit/CPickleTbl.v
# ------------------------------------------------------------------------------------------------------------------
def table_case(c, fname, shape, seed):
    """Encode the operation gates as numbers for the model: (ident, hash class, == class).  ident numbers distinct
    constructor states; gates are numbered in the order of the table the real __reduce__ built (so the model's table, built
    from the same gate_set order, can be compared index by index)."""
    import dill
    red = c.__reduce__()[1]
    table = [dill.loads(b) if d else pickle.loads(b) for d, b in red[2]]
    cycles = pickle.loads(red[3])
    idx = [g for cy in cycles for (g, _, _) in cy]
    ops = [op.gate for _, op in c.operations_with_cycles()]
    idents = []

    def ident(g):
        d = describe(g)
        if d not in idents:
            idents.append(d)
        return idents.index(d)
    reps_h, reps_e = [], []

    def hclass(g):
        h = hash(g)
        if h not in reps_h:
            reps_h.append(h)
        return reps_h.index(h)

    def eclass(g):
        # class of the real ==, by first representative (the model proves nothing about non-transitive ==; such a case
        # would show as a table mismatch)
        for i, r in enumerate(reps_e):
            if r == g:
                return i
        reps_e.append(g)
        return len(reps_e) - 1
    enc = lambda g: (ident(g), hclass(g), eclass(g))
    return dict(family=fname, shape=shape, seed=seed, gate_set=[enc(g) for g in table], ops=[enc(g) for g in ops], impl_idx=idx,
                impl_back=[ident(table[i]) for i in idx])


def run_table_correspondence(ctx, cases):
    def fmt(x):
        return '[' + ' '.join(fmt(y) for y in x) + ']' if isinstance(x, (list, tuple)) else str(x)
    lines = ['marshal ' + fmt(tc['gate_set']) + ' ' + fmt(tc['ops']) for tc in cases]
    if not lines:
        return
    out = vf.run_model('ptable', lines)
    if len(out) != len(lines):
        ctx.broken_obligation('correspondence coq/circuit/CPickleTbl.v: wrong number of answers', f'{len(out)} vs {len(lines)}')
        return
    for tc, o in zip(cases, out):
        ctx.count('table_compared')
        exp = fmt([tc['impl_idx'], tc['impl_back'], len(tc['gate_set'])])
        if o != exp:
            ctx.mismatch('coq/circuit/CPickleTbl.v marshal/unmarshal vs Circuit.__reduce__ gate table', dict(family=tc['family'], shape=tc['shape'], seed=tc['seed']), o[:1500], exp[:1500])


def run(ctx, catalogue_objs):
    fams = {k: mk for k, mk in families().items()}
    built = {}
    for name, mk in fams.items():
        try:
            built[name] = mk()
        except Exception as e:
            # fail closed: a family that can no longer be constructed is a broken tie, not a silently smaller sweep
            ctx.broken_obligation(f'C16 family {name} cannot be constructed on this tree', repr(e)[:400])
    if not ctx.quick():
        built.update(auto_families(catalogue_objs))     # thorough tier only (large gates: expensive unitaries)
    ctx.cov['families'] = len(built)
    ctx.cov['family_members'] = sum(len(v) for v in built.values())
    table_cases = []
    import json
    cdir = vf.ROOT / 'corpus' / 'C16' / 'families'
    for f in sorted(cdir.glob('*.json')) if cdir.exists() else []:
        cs = json.loads(f.read_text())['case']
        if cs['family'] in built:
            ctx.count('corpus_cases')
            check_family(ctx, cs['family'], built[cs['family']], cs['seed'], table_cases)
        else:
            ctx.broken_obligation(f'corpus family {cs["family"]} ({f.name}) no longer exists', f.name)
    nseeds = ctx.n(2, 8)
    for name in sorted(built):
        for s in range(nseeds):
            try:
                check_family(ctx, name, built[name], ctx.seed * 7919 + s, table_cases)
            except Exception as e:
                import traceback
                ctx.broken_obligation(f'C16 family check raised on {name}', traceback.format_exc()[-1500:])
                break
    run_table_correspondence(ctx, table_cases)


def replay(ctx, data, catalogue_objs):
    case = data['case']
    name = case['family']
    fams = families()
    if name in fams:
        gs = fams[name]()
    else:
        gs = auto_families(catalogue_objs).get(name)
    if gs is None:
        print('replay: family', name, 'not found')
        return
    n0 = len(ctx.violations)
    check_family(ctx, name, gs, case['seed'], None)
    print('replay: family', name, 'seed', case['seed'], '->', 'still failing' if len(ctx.violations) > n0 else 'passes')
