"""Translator for C17: regenerate coq/gen/QasmTable.v from the live objects of /repo.

Reads  OPENQASMVisitor().gate_defs  (the decoder's name table),
       every class exported by bqskit.ir.gates (its default instance's qasm_name,
       num_params, num_qudits),
       the unaryop terminals of the Lark grammar and the keys of eval_locals.
Fail-closed: anything that does not have the expected shape aborts with exit code 1.
"""
from __future__ import annotations

import inspect
import sys
import warnings
from pathlib import Path

sys.path.insert(0, str(Path(__file__).resolve().parent.parent))
import vf  # noqa: E402

FN_OF_TERMINAL = {'SIN': 'FSin', 'COS': 'FCos', 'TAN': 'FTan', 'EXP': 'FExp', 'LN': 'FLn', 'SQRT': 'FSqrt'}


class Abort(Exception):
    pass


def coq_str(s: str) -> str:
    if not isinstance(s, str) or any(ord(c) < 32 or ord(c) > 126 for c in s):
        raise Abort(f'string not printable ASCII: {s!r}')
    return '"' + s.replace('"', '""') + '"'


def collect() -> dict:
    warnings.simplefilter('ignore')
    from bqskit.ir.circuit import Circuit  # noqa: F401  (import order)
    import bqskit.ir.gates as G
    from bqskit.ir.gate import Gate
    from bqskit.ir.lang.qasm2 import visitor as V
    from bqskit.ir.lang.qasm2 import parser as P

    vis = V.OPENQASMVisitor()
    if not isinstance(vis.gate_defs, dict) or not vis.gate_defs:
        raise Abort('gate_defs is not a non-empty dict')

    gates: list = []          # interned by python equality

    def intern(g) -> int:
        for i, h in enumerate(gates):
            try:
                if type(h) is type(g) and h == g:
                    return i
            except Exception as e:  # noqa
                raise Abort(f'gate equality raised for {g!r}: {e!r}')
        gates.append(g)
        return len(gates) - 1

    dec = []
    for name, d in vis.gate_defs.items():
        if type(d) is not V.GateDef:
            raise Abort(f'gate_defs[{name!r}] is {type(d).__name__}, expected GateDef')
        if not isinstance(d.gate, Gate):
            raise Abort(f'gate_defs[{name!r}].gate is not a Gate')
        for fld in (d.num_params, d.num_vars):
            if type(fld) is not int or fld < 0:
                raise Abort(f'gate_defs[{name!r}] arity is not a natural number')
        if type(d.build_op) is not type(vis.gate_defs['cx'].build_op) or \
                d.build_op.__func__ is not V.GateDef.build_op:
            raise Abort(f'gate_defs[{name!r}].build_op overridden')
        dec.append(dict(name=name, qasm_name=d.qasm_name, gate=intern(d.gate), np=d.num_params, nv=d.num_vars))

    def spelling(g):
        """qasm_name or None (qudit gate / no _qasm_name)."""
        try:
            s = g.qasm_name
        except AttributeError:
            return None
        except ValueError:
            # ControlledGate of a non-standard gate: documented "not a standard OpenQASM 2.0 identifier"
            return None
        if not isinstance(s, str):
            raise Abort(f'qasm_name of {g!r} is not a str')
        return s

    from bqskit.ir.gates.composed.frozenparam import FrozenParameterGate
    lib, not_constructible, non_qubit, frozen = [], [], [], []
    seen_ids = set()
    for cname in G.__all__:
        cls = getattr(G, cname)
        if not inspect.isclass(cls):
            # module-level gate instances / aliases (e.g. U1qPiGate): take them as they are
            if isinstance(cls, Gate):
                g = cls
            else:
                raise Abort(f'bqskit.ir.gates.{cname} is neither a class nor a Gate')
        elif not issubclass(cls, Gate):
            raise Abort(f'bqskit.ir.gates.{cname} is not a Gate subclass')
        else:
            try:
                g = cls()
            except TypeError:
                not_constructible.append(cname)
                continue
        try:
            qubit = g.is_qubit_only()
            np_, nq = g.num_params, g.num_qudits
        except Exception as e:  # noqa
            # abstract helper classes exported by the package (e.g. ComposedGate)
            not_constructible.append(cname)
            continue
        if not qubit:
            non_qubit.append(cname)
        if isinstance(g, FrozenParameterGate):
            # Operation.get_qasm prints the inner gate with the full parameter list
            frozen.append(cname)
            continue
        gid = intern(g)
        lib.append(dict(cls=cname, gate=gid, spelling=spelling(g) if qubit else None, np=np_, nq=nq))
        seen_ids.add(gid)
    # the decoder's own gate objects are library gates too (composed ones are not default-constructible)
    for i, g in enumerate(list(gates)):
        if i not in seen_ids:
            lib.append(dict(cls=type(g).__name__ + ':' + repr(g), gate=i, spelling=spelling(g),
                            np=g.num_params, nq=g.num_qudits))
            seen_ids.add(i)

    ginfo = [dict(id=i, repr=repr(g), np=g.num_params, nq=g.num_qudits) for i, g in enumerate(gates)]

    # expression functions: terminals of rule unaryop, their literal text, eval_locals
    terms = {t.name: t for t in P._OPENQASMPARSER.terminals}
    unary = []
    for r in P._OPENQASMPARSER.rules:
        if r.origin.name == 'unaryop':
            if len(r.expansion) != 1 or not r.expansion[0].is_term:
                raise Abort(f'unaryop alternative of unexpected shape: {r}')
            tn = r.expansion[0].name
            if tn not in FN_OF_TERMINAL:
                raise Abort(f'unknown unaryop terminal {tn}')
            pat = terms[tn].pattern
            if type(pat).__name__ != 'PatternStr':
                raise Abort(f'terminal {tn} is not a string literal')
            unary.append(dict(fn=FN_OF_TERMINAL[tn], text=pat.value, bound=pat.value in V.eval_locals))
    if sorted(u['fn'] for u in unary) != sorted(FN_OF_TERMINAL.values()):
        raise Abort(f'unaryop terminals are not exactly the six OpenQASM functions: {unary}')
    if 'pi' not in V.eval_locals:
        raise Abort('pi missing from eval_locals')
    return dict(dec=dec, lib=lib, ginfo=ginfo, unary=unary, not_constructible=not_constructible,
                non_qubit=non_qubit, frozen=frozen, gates=gates)


def render(d: dict) -> str:
    o = ['(* GENERATED by harness/gen/gen_qasm_table.py from the live objects of the repository - do not edit. *)',
         'From Coq Require Import String List.', 'Import ListNotations.',
         'From BQ Require Import qasm.QExp qasm.QTable.', 'Open Scope string_scope.', '']
    o.append('(* OPENQASMVisitor().gate_defs *)')
    o.append('Definition dec_table : list dec_entry := [')
    o.append(';\n'.join(f'  mkDec {coq_str(e["name"])} {e["gate"]} {e["np"]} {e["nv"]}' for e in d['dec']))
    o.append('].\n')
    o.append('(* interned gate objects: id, repr, gate.num_params, gate.num_qudits *)')
    o.append('Definition gate_info : list ginfo := [')
    o.append(';\n'.join(f'  mkG {g["id"]} {coq_str(g["repr"][:60])} {g["np"]} {g["nq"]}' for g in d['ginfo']))
    o.append('].\n')
    o.append('(* exported library gates (default instances) and the decoder\'s gate objects *)')
    o.append('Definition lib_gates : list lib_gate := [')
    o.append(';\n'.join(
        '  mkLib %s %d %s %d %d' % (coq_str(g['cls'][:60]), g['gate'],
                                   'None' if g['spelling'] is None else '(Some %s)' % coq_str(g['spelling']),
                                   g['np'], g['nq']) for g in d['lib']))
    o.append('].\n')
    o.append('(* not default-constructible (generic / composed classes), not in lib_gates: %s *)' % ', '.join(d['not_constructible']))
    o.append('(* not qubit-only (no QASM spelling by definition): %s *)' % ', '.join(d['non_qubit']))
    o.append('(* FrozenParameterGate instances (printed as their inner gate with full parameters), not in lib_gates: %s *)\n'
             % ', '.join(d['frozen']))
    o.append('(* grammar rule unaryop: function, text of its terminal, is that text a key of eval_locals *)')
    o.append('Definition unaryop_table : list (fn * string * bool) := [')
    o.append(';\n'.join(f'  ({u["fn"]}, {coq_str(u["text"])}, {"true" if u["bound"] else "false"})' for u in d['unary']))
    o.append('].')
    return '\n'.join(o) + '\n'


def main() -> int:
    try:
        d = collect()
        text = render(d)
    except Abort as e:
        print(f'gen_qasm_table: ABORT: {e}', file=sys.stderr)
        return 1
    vf.write_if_changed(vf.COQ / 'gen' / 'QasmTable.v', text)
    return 0


if __name__ == '__main__':
    sys.exit(main())
