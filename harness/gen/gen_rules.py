"""Translator for C10 (i): bqskit/passes/rules/*.py  ->  coq/gen/RulePasses.v

Reads, from the LIVE pass objects of the current /repo tree,
  * the fixed replacement sub-circuit `pass.cg._circuit` (gate classes, inner
    locations, parameters as exact integer multiples of pi/12 -- the granularity at
    which a rotation's entries lie in Q(zeta_48), see coq/lib/Cyclo.v);
  * the source gate class tested by `run` (`isinstance(op.gate, SRC)`), after
    checking that the whole body of `run` has the one shape modelled by
    coq/pass/Rules.v (`rewrite`), up to renaming of local variables;
  * for the two parametric passes (ZXZXZDecomposition, U3Decomposition) the gate
    kinds they emit for every constructor option (run on a probe circuit).
Fail-closed: any unknown class in the package, unknown gate, non-representable
angle, or unexpected statement in `run` aborts with a non-zero exit status.
"""
from __future__ import annotations

import ast
import asyncio
import importlib
import inspect
import math
import pkgutil
import sys
import textwrap
from pathlib import Path

sys.path.insert(0, str(Path(__file__).resolve().parent.parent))
import vf  # noqa: E402

# live gate class name -> (Coq constructor, number of parameters)
GATES = {
    'IdentityGate': ('G_I', 0), 'XGate': ('G_X', 0), 'YGate': ('G_Y', 0), 'ZGate': ('G_Z', 0),
    'HGate': ('G_H', 0), 'SGate': ('G_S', 0), 'SdgGate': ('G_Sdg', 0), 'TGate': ('G_T', 0),
    'TdgGate': ('G_Tdg', 0), 'SqrtXGate': ('G_SX', 0), 'SXGate': ('G_SX', 0),
    'RXGate': ('G_RX', 1), 'RYGate': ('G_RY', 1), 'RZGate': ('G_RZ', 1), 'U1Gate': ('G_U1', 1),
    'U3Gate': ('G_U3', 3),
    'CNOTGate': ('G_CX', 0), 'CXGate': ('G_CX', 0), 'CYGate': ('G_CY', 0), 'CZGate': ('G_CZ', 0),
    'CHGate': ('G_CH', 0), 'CSGate': ('G_CS', 0), 'CTGate': ('G_CT', 0), 'SwapGate': ('G_SWAP', 0),
    'ISwapGate': ('G_ISWAP', 0), 'SqrtISwapGate': ('G_SQISW', 0),
}
PARAMETRIC = {'ZXZXZDecomposition', 'U3Decomposition'}

# the one modelled shape of `run` (locals alpha-renamed, SRC = the tested gate class)
RUN_TEMPLATE = textwrap.dedent('''
    async def run(self, a0, a1):
        v0 = []
        for (v1, v2) in a0.operations_with_cycles():
            if isinstance(v2.gate, SRC):
                v0.append((v1, v2.location[0]))
        v3 = [Operation(self.cg, a0[v4].location, self.cg._circuit.params) for v4 in v0]
        a0.batch_replace(v0, v3)
        a0.unfold_all()
''')


class Abort(Exception):
    pass


def angle_units(p: float) -> int:
    """p as an exact integer multiple of pi/12, or abort."""
    m = round(p / (math.pi / 12))
    if abs(p - m * (math.pi / 12)) > 4e-16 * max(1.0, abs(p)):
        raise Abort(f'angle {p!r} is not an exact multiple of pi/12 (not representable in Q(zeta_48))')
    return m


def coq_gate(gate, params) -> str:
    name = type(gate).__name__
    if name not in GATES:
        raise Abort(f'unknown gate class {name} in a rule sub-circuit')
    if gate.radixes != tuple([2] * gate.num_qudits):
        raise Abort(f'gate {name} is not a qubit gate: radixes {gate.radixes}')
    ctor, npar = GATES[name]
    if len(params) != npar or gate.num_params != npar:
        raise Abort(f'gate {name}: expected {npar} parameters, got {list(params)}')
    if npar == 0:
        return ctor
    return '(%s %s)' % (ctor, ' '.join('(%d)' % angle_units(float(p)) for p in params))


class Renamer(ast.NodeTransformer):
    def __init__(self, fn: ast.AsyncFunctionDef):
        self.map: dict[str, str] = {}
        for i, a in enumerate(fn.args.args[1:]):
            self.map[a.arg] = f'a{i}'
        self.locals: set[str] = set()
        for n in ast.walk(fn):
            if isinstance(n, ast.Name) and isinstance(n.ctx, ast.Store):
                self.locals.add(n.id)
        self.k = 0

    def visit_arg(self, node):
        node.arg = self.map.get(node.arg, node.arg)
        node.annotation = None
        return node

    def visit_Name(self, node):
        if node.id in self.locals and node.id not in self.map:
            self.map[node.id] = f'v{self.k}'
            self.k += 1
        node.id = self.map.get(node.id, node.id)
        return node


def source_gate_of(cls) -> str:
    """Check `run` against RUN_TEMPLATE; return the name of the gate class tested."""
    src = textwrap.dedent(inspect.getsource(cls.run))
    fn = ast.parse(src).body[0]
    if not isinstance(fn, ast.AsyncFunctionDef):
        raise Abort(f'{cls.__name__}.run is not an async def')
    fn.returns = None
    fn.decorator_list = []
    # drop docstring
    if fn.body and isinstance(fn.body[0], ast.Expr) and isinstance(getattr(fn.body[0], 'value', None), ast.Constant) \
            and isinstance(fn.body[0].value.value, str):
        fn.body = fn.body[1:]
    # find the isinstance(<x>.gate, C) tests
    tested = []
    for n in ast.walk(fn):
        if isinstance(n, ast.Call) and isinstance(n.func, ast.Name) and n.func.id == 'isinstance':
            if len(n.args) != 2 or not isinstance(n.args[1], ast.Name):
                raise Abort(f'{cls.__name__}.run: unsupported isinstance test {ast.unparse(n)}')
            tested.append(n.args[1].id)
            n.args[1].id = 'SRC'
    if len(tested) != 1:
        raise Abort(f'{cls.__name__}.run: expected exactly one isinstance test, found {tested}')
    Renamer(fn).visit(fn)
    got = ast.dump(fn, annotate_fields=False)
    want_fn = ast.parse(RUN_TEMPLATE).body[0]
    want = ast.dump(want_fn, annotate_fields=False)
    if got != want:
        raise Abort(f'{cls.__name__}.run does not have the modelled shape.\n--- found ---\n{ast.unparse(fn)}\n'
                    f'--- modelled ---\n{ast.unparse(want_fn)}')
    mod = sys.modules[cls.__module__]
    gcls = getattr(mod, tested[0], None)
    if gcls is None:
        raise Abort(f'{cls.__name__}: cannot resolve gate class {tested[0]}')
    return gcls


def rule_passes():
    """[(class name, class)] of every pass class defined in bqskit.passes.rules.* (sorted)."""
    import bqskit.passes.rules as pkg
    from bqskit.compiler.basepass import BasePass
    out = {}
    for m in pkgutil.iter_modules(pkg.__path__):
        mod = importlib.import_module(f'bqskit.passes.rules.{m.name}')
        for name, obj in vars(mod).items():
            if inspect.isclass(obj) and issubclass(obj, BasePass) and obj.__module__ == mod.__name__:
                out[name] = obj
    return sorted(out.items())


def probe_parametric(name, cls):
    """Gate-kind sequences emitted by the parametric rule passes, per constructor option."""
    from bqskit.ir.circuit import Circuit
    from bqskit.compiler.passdata import PassData
    from bqskit.ir.gates import U3Gate
    shapes = []
    if name == 'ZXZXZDecomposition':
        opts = [dict(always_use_rx=a, always_use_u1=b) for a in (False, True) for b in (False, True)]
    elif name == 'U3Decomposition':
        opts = [dict()]
    else:
        raise Abort(f'unknown parametric rule pass {name}')
    for o in opts:
        c = Circuit(1)
        c.append_gate(U3Gate(), 0, [0.3, 1.1, -0.7])
        asyncio.run(cls(**o).run(c, PassData(c)))
        kinds = []
        for op in c:
            gname = type(op.gate).__name__
            if gname not in GATES:
                raise Abort(f'{name}: emits unknown gate {gname}')
            kinds.append(GATES[gname][0])
        shapes.append((o, kinds))
    return shapes


KIND_OF = {  # constructor -> representative term for gate_kind
    'G_RX': '(G_RX 0)', 'G_RY': '(G_RY 0)', 'G_RZ': '(G_RZ 0)', 'G_U1': '(G_U1 0)', 'G_U3': '(G_U3 0 0 0)',
}


def generate() -> str:
    from bqskit.ir.circuit import Circuit  # noqa: F401  (import order)
    from bqskit.ir.gates.circuitgate import CircuitGate
    lines = [
        '(* GENERATED by harness/gen/gen_rules.py from the live pass objects of bqskit/passes/rules.',
        '   Do not edit: regenerated on every check.  Angles are integers in units of pi/12. *)',
        'From Coq Require Import ZArith List.',
        'Import ListNotations.',
        'From BQ Require Import lib.Cyclo pass.Rules.',
        'Local Open Scope Z_scope.',
        '',
    ]
    names = []
    para = []
    for name, cls in rule_passes():
        if name in PARAMETRIC:
            for o, kinds in probe_parametric(name, cls):
                tag = name + ''.join('_%s%d' % (k.replace('always_use_', ''), int(v)) for k, v in sorted(o.items()))
                para.append((tag, kinds))
            continue
        try:
            p = cls()
        except TypeError as e:
            raise Abort(f'rule pass {name} cannot be constructed without arguments: {e}')
        cg = getattr(p, 'cg', None)
        if not isinstance(cg, CircuitGate):
            raise Abort(f'rule pass {name}: no fixed replacement CircuitGate `cg` (unknown kind of rule pass)')
        sub = cg._circuit
        if any(r != 2 for r in sub.radixes):
            raise Abort(f'rule pass {name}: non-qubit replacement circuit')
        gcls = source_gate_of(cls)
        try:
            src_gate = gcls()
        except TypeError as e:
            raise Abort(f'rule pass {name}: source gate {gcls.__name__} is not a constant gate: {e}')
        if src_gate.num_params != 0:
            raise Abort(f'rule pass {name}: source gate {gcls.__name__} is parameterised')
        src = coq_gate(src_gate, [])
        ops = []
        for op in sub:      # program order
            ops.append('(%s, [%s])' % (coq_gate(op.gate, op.params), '; '.join('%d%%nat' % q for q in op.location)))
        if list(cg._circuit.params) != [float(x) for op in sub for x in op.params]:
            raise Abort(f'rule pass {name}: circuit params differ from the concatenated op params')
        lines.append(f'Definition rule_{name} : rule :=')
        lines.append(f'  mkRule {src} {sub.num_qudits}%nat [{"; ".join(ops)}].')
        names.append(name)
    lines.append('')
    lines.append('Definition all_rules : list rule := [%s].' % '; '.join(f'rule_{n}' for n in names))
    lines.append('(* rule names, in the order of all_rules: %s *)' % ' '.join(names))
    lines.append('')
    for tag, kinds in para:
        lines.append('Definition shape_%s : list nat := [%s].' % (
            tag, '; '.join('gate_kind %s' % KIND_OF.get(k, k) for k in kinds)))
    lines.append('Definition all_shapes : list (list nat) := [%s].' % '; '.join(f'shape_{t}' for t, _ in para))
    lines.append('(* shape names: %s *)' % ' '.join(t for t, _ in para))
    return '\n'.join(lines) + '\n'


def main() -> int:
    try:
        text = generate()
    except Abort as e:
        print(f'gen_rules: ABORT: {e}', file=sys.stderr)
        return 2
    vf.write_if_changed(vf.COQ / 'gen' / 'RulePasses.v', text)
    return 0


if __name__ == '__main__':
    sys.exit(main())
