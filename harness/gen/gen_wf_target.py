"""C03 translator: live Workflow objects of build_workflow -> coq/gen/WfTarget.v.

For every (input kind in unitary/state/state-system) x width x radix x optimisation level 1-4
x seed on/off x error_threshold on/off x model (default, custom gate set) the Workflow returned by
bqskit.compiler.compile.build_workflow is walked as a Python object into a term of
BQ.pass.SkeletonWf.wf.  FAIL-CLOSED: an unknown control pass, an unknown leaf class, a leaf whose
source does not agree with its catalogue entry, or a changed SynthesisPass.run / SetTargetPass.run /
PassData.target setter aborts with a non-zero exit status (the tie is then broken and the check says so).

Leaf kinds are not taken on faith from the catalogue: the class source (class + bases below BasePass)
is scanned with `ast` for reads / writes of `data.target`, and the result must agree with the catalogue.
"""
from __future__ import annotations

import ast
import inspect
import os
import sys
import textwrap
import warnings
from pathlib import Path

sys.path.insert(0, str(Path(__file__).resolve().parent.parent))
import vf  # noqa: E402

warnings.simplefilter('ignore')


class Abort(Exception):
    pass


# --------------------------------------------------------------------------------------
# source scan
# --------------------------------------------------------------------------------------
DATA_NAMES = {'data', 'block_data', 'pass_data'}


def _is_data(node) -> bool:
    return isinstance(node, ast.Name) and node.id in DATA_NAMES


def scan_target_access(src: str) -> tuple[bool, bool]:
    """(reads, writes) of the pass-data target in a piece of source."""
    tree = ast.parse(textwrap.dedent(src))
    reads = writes = False
    for n in ast.walk(tree):
        if isinstance(n, ast.Attribute) and n.attr in ('target', '_target') and _is_data(n.value):
            if isinstance(n.ctx, (ast.Store, ast.Del)):
                writes = True
            else:
                reads = True
        elif isinstance(n, ast.Subscript) and _is_data(n.value):
            s = n.slice
            if isinstance(s, ast.Constant) and s.value == 'target':
                if isinstance(n.ctx, (ast.Store, ast.Del)):
                    writes = True
                else:
                    reads = True
        elif isinstance(n, ast.Call) and isinstance(n.func, ast.Attribute):
            if n.func.attr == 'get_target':
                reads = True
            if n.func.attr in ('update', 'become', 'setdefault', 'pop', 'clear') and _is_data(n.func.value):
                # conservative: bulk updates of the PassData may overwrite the target
                if n.func.attr in ('update', 'become', 'clear'):
                    writes = True
                elif n.args and isinstance(n.args[0], ast.Constant) and n.args[0].value == 'target':
                    writes = True
            if n.func.attr == 'setattr' or (isinstance(n.func, ast.Name) and n.func.id == 'setattr'):
                writes = True
        elif isinstance(n, ast.Call) and isinstance(n.func, ast.Name) and n.func.id == 'setattr':
            writes = True
    return reads, writes


def class_source(cls) -> str:
    from bqskit.compiler.basepass import BasePass
    out = []
    for c in cls.__mro__:
        if c in (BasePass, object) or c.__module__ == 'abc':
            continue
        if not c.__module__.startswith('bqskit'):
            continue
        try:
            out.append(textwrap.dedent(inspect.getsource(c)))
        except (OSError, TypeError) as e:
            raise Abort(f'no source for {c}: {e}')
    return '\n'.join(out)


def fn_body(fn):
    """AST body of a function without its docstring, plus its positional parameter names."""
    tree = ast.parse(textwrap.dedent(inspect.getsource(fn)))
    f = tree.body[0]
    body = list(f.body)
    if body and isinstance(body[0], ast.Expr) and isinstance(getattr(body[0], 'value', None), ast.Constant) \
            and isinstance(body[0].value.value, str):
        body = body[1:]
    return body, [a.arg for a in f.args.args]


def check_fixed_shapes():
    """SynthesisPass.run, SetTargetPass.run and the PassData.target setter must still be the
    statements modelled by synthesis_run / set_target_pass / set_target in pass/Skeleton.v."""
    from bqskit.passes.synthesis.synthesis import SynthesisPass
    from bqskit.passes.synthesis.target import SetTargetPass
    from bqskit.compiler.passdata import PassData

    body, params = fn_body(SynthesisPass.run)
    want = f"{params[1]}.become(await self.synthesize({params[2]}.target, {params[2]}))"
    if len(body) != 1 or ast.unparse(body[0]) != want:
        raise Abort('SynthesisPass.run is no longer `circuit.become(await self.synthesize(data.target, data))`: '
                    + '; '.join(ast.unparse(b) for b in body))

    body, params = fn_body(SetTargetPass.run)
    want = f'{params[2]}.target = self.target'
    if len(body) != 1 or ast.unparse(body[0]) != want:
        raise Abort('SetTargetPass.run is no longer `data.target = self.target`: '
                    + '; '.join(ast.unparse(b) for b in body))
    init_src = ast.unparse(ast.parse(textwrap.dedent(inspect.getsource(SetTargetPass.__init__))))
    if 'self.target = target' not in init_src:
        raise Abort('SetTargetPass.__init__ no longer stores its argument in self.target')

    body, params = fn_body(PassData.target.fset)
    v = params[1]
    stmts = [ast.unparse(b) for b in body]
    if len(stmts) != 3 or not stmts[0].startswith('if not isinstance(') \
            or stmts[1] != (f'if len(self.placement) != {v}.num_qudits:\n'
                            f'    self.placement = list(range({v}.num_qudits))') \
            or stmts[2] != f'self._target = {v}':
        raise Abort('PassData.target setter changed: ' + ' | '.join(stmts))
    body, _ = fn_body(PassData.target.fget)
    stmts = [ast.unparse(b) for b in body]
    if stmts != ['if isinstance(self._target, Circuit):\n    self._target = self._target.get_unitary()',
                 'return self._target']:
        raise Abort('PassData.target getter changed: ' + ' | '.join(stmts))


# --------------------------------------------------------------------------------------
# catalogue
# --------------------------------------------------------------------------------------
# leaf class -> expected kind; the AST scan must agree
NEUTRAL = {
    'SetModelPass', 'SetRandomSeedPass', 'LogPass', 'LogErrorPass', 'NOOPPass', 'UnfoldPass', 'GroupSingleQuditGatePass',
    'QuickPartitioner', 'ExtendBlockSizePass', 'GeneralSQDecomposition', 'ZXZXZDecomposition', 'U3Decomposition',
    'FillSingleQuditGatesPass', 'ExtractModelConnectivityPass', 'RestoreModelConnectivityPass',
    'AutoRebase2QuditGatePass', 'ScanPartitioner', 'ClusteringPartitioner', 'GreedyPartitioner',
}
READS = {'ScanningGateRemovalPass'}
SYNTH = {'QSearchSynthesisPass', 'LEAPSynthesisPass'}
COSTS = {'HilbertSchmidtResidualsGenerator', 'HilbertSchmidtCostGenerator'}
PREDICATES = {
    'WidthPredicate', 'NotPredicate', 'AndPredicate', 'OrPredicate', 'SinglePhysicalPredicate', 'MultiPhysicalPredicate',
    'PhysicalPredicate', 'ManyQuditGatesPredicate', 'NoSingleQuditGatesInModel', 'HasGeneralSingleQuditGate',
    'ZXGatePredicate', 'AllConstantSingleQuditGates', 'ChangePredicate', 'GateCountPredicate',
}

_scan_cache: dict = {}


def scanned(cls):
    if cls not in _scan_cache:
        _scan_cache[cls] = scan_target_access(class_source(cls))
    return _scan_cache[cls]


def same_target(a, b) -> bool:
    import numpy as np
    from bqskit.qis.state.system import StateSystem
    if a is b:
        return True
    if type(a) is not type(b):
        return False
    if isinstance(a, StateSystem):
        ka, kb = list(a.keys()), list(b.keys())
        return len(ka) == len(kb) and all(
            np.array_equal(x.numpy, y.numpy) and np.array_equal(a[x].numpy, b[y].numpy) for x, y in zip(ka, kb)
        )
    return a.radixes == b.radixes and np.array_equal(a.numpy, b.numpy)


def check_predicate(p):
    from bqskit.passes.control.predicate import PassPredicate
    if not isinstance(p, PassPredicate):
        raise Abort(f'condition {type(p)} is not a PassPredicate')
    name = type(p).__name__
    if name not in PREDICATES:
        raise Abort(f'unknown predicate class {name}')
    src = textwrap.dedent(inspect.getsource(type(p)))
    _, w = scan_target_access(src)
    if w:
        raise Abort(f'predicate {name} writes data.target')
    for v in vars(p).values():
        if isinstance(v, PassPredicate):
            check_predicate(v)


def walk(p, user_input, eps) -> str:
    """Coq term for pass object p."""
    from bqskit.compiler.workflow import Workflow
    from bqskit.passes.control.ifthenelse import IfThenElsePass
    from bqskit.passes.control.whileloop import WhileLoopPass
    from bqskit.passes.control.dowhileloop import DoWhileLoopPass
    from bqskit.passes.control.foreach import ForEachBlockPass
    from bqskit.passes.synthesis.synthesis import SynthesisPass
    from bqskit.passes.synthesis.target import SetTargetPass
    from bqskit.passes.synthesis.pas import PermutationAwareSynthesisPass
    from bqskit.compiler.basepass import BasePass

    t = type(p)
    name = t.__name__
    if t is Workflow:
        return 'Seq [' + '; '.join(walk(q, user_input, eps) for q in p._passes) + ']'
    if not isinstance(p, BasePass):
        raise Abort(f'not a pass: {t}')
    if t is IfThenElsePass:
        check_predicate(p.condition)
        e = walk(p.on_false, user_input, eps) if p.on_false is not None else 'Seq []'
        return f'Ite ({walk(p.on_true, user_input, eps)}) ({e})'
    if t is WhileLoopPass:
        check_predicate(p.condition)
        return f'Loop ({walk(p.workflow, user_input, eps)})'
    if t is DoWhileLoopPass:
        check_predicate(p.condition)
        b = walk(p.workflow, user_input, eps)
        return f'Seq [{b}; Loop ({b})]'
    if t is ForEachBlockPass:
        return f'Block ({walk(p.workflow, user_input, eps)})'
    if t is SetTargetPass:
        return 'Leaf (KSetTarget %s)' % ('true' if same_target(p.target, user_input) else 'false')
    if isinstance(p, SynthesisPass):
        if t.run is not SynthesisPass.run:
            raise Abort(f'{name} overrides SynthesisPass.run')
        if t is PermutationAwareSynthesisPass:
            inner = p.inner_synthesis
            if type(inner).__name__ not in SYNTH or type(inner).run is not SynthesisPass.run:
                raise Abort(f'PermutationAwareSynthesisPass around unmodelled {type(inner).__name__}')
            check_synth(inner)
            if scanned(t)[1]:
                raise Abort('PermutationAwareSynthesisPass writes data.target')
            return 'Leaf KPas'
        if name not in SYNTH:
            raise Abort(f'unmodelled synthesis pass {name}')
        check_synth(p)
        return 'Leaf KSynth'
    # plain leaves: the catalogue entry must agree with the source scan
    reads, writes = scanned(t)
    if name in NEUTRAL:
        if reads or writes:
            raise Abort(f'{name} is catalogued as not touching data.target but its source '
                        f'{"writes" if writes else "reads"} it')
        return 'Leaf KNeutral'
    if name in READS:
        if writes:
            raise Abort(f'{name} writes data.target')
        if not reads:
            raise Abort(f'{name} is catalogued as instantiating against data.target but no longer reads it')
        if type(p.cost).__name__ not in COSTS:
            raise Abort(f'{name} uses unknown cost generator {type(p.cost).__name__}')
        return 'Leaf KReadsTarget'
    raise Abort(f'unknown pass class {t.__module__}.{name}')


def check_synth(p):
    """The synthesis leaf must be the modelled class with a cost generator whose meaning
    C03_threshold_meaning covers, and must not touch data.target outside SynthesisPass.run."""
    t = type(p)
    if type(p.cost).__name__ not in COSTS:
        raise Abort(f'{t.__name__} uses unknown cost generator {type(p.cost).__name__}')
    cg = p.instantiate_options.get('cost_fn_gen')
    if cg is not None and type(cg).__name__ not in COSTS:
        raise Abort(f'{t.__name__} instantiates with unknown cost generator {type(cg).__name__}')
    src = textwrap.dedent(inspect.getsource(t))
    _, w = scan_target_access(src)
    if w:
        raise Abort(f'{t.__name__} writes data.target')


# --------------------------------------------------------------------------------------
# configurations
# --------------------------------------------------------------------------------------
def configurations():
    import numpy as np
    from bqskit.ir.circuit import Circuit  # noqa: F401
    from bqskit.compiler.machine import MachineModel
    from bqskit.ir.gates import CZGate, RZGate, SqrtXGate, CNOTGate, U3Gate
    from bqskit.qis.unitary import UnitaryMatrix
    from bqskit.qis.state import StateVector, StateSystem
    np.random.seed(20260923)
    out = []
    for radix, widths in ((2, (1, 2, 3)), (3, (1, 2))):
        for n in widths:
            radixes = [radix] * n
            U = UnitaryMatrix.random(n, radixes)
            s = StateVector.random(n, radixes)
            V = UnitaryMatrix.random(n, radixes).numpy
            W = UnitaryMatrix.random(n, radixes).numpy
            k = max(1, V.shape[0] // 2)
            sys_ = StateSystem({StateVector(V[:, i], radixes): StateVector((W @ V)[:, i], radixes) for i in range(k)})
            for kind, inp in (('unitary', U), ('state', s), ('system', sys_)):
                models = [('dflt', None)]
                if radix == 2:
                    models.append(('czrzsx', MachineModel(n, gate_set={CZGate(), RZGate(), SqrtXGate()})))
                for mname, model in models:
                    for lvl in (1, 2, 3, 4):
                        for seed in (None, 7):
                            for et in (None, 0.1):
                                if et is not None and (seed is not None or mname != 'dflt'):
                                    continue
                                name = f'{kind}_r{radix}_w{n}_{mname}_L{lvl}_seed{"N" if seed is None else seed}_et{"N" if et is None else "S"}'
                                out.append((name, inp, model, lvl, seed, et))
    return out


def main() -> int:
    from bqskit.ir.circuit import Circuit  # noqa: F401
    from bqskit.compiler.compile import build_workflow
    try:
        check_fixed_shapes()
        lines = []
        names = []
        for name, inp, model, lvl, seed, et in configurations():
            try:
                wfo = build_workflow(inp, model, lvl, 1e-8, 3, et, 8, seed)
            except Exception as e:  # build_workflow itself refuses: not a workflow to check
                raise Abort(f'build_workflow failed for {name}: {type(e).__name__}: {e}')
            term = walk(wfo, inp, 1e-8)
            lines.append(f'Definition wf_{name} : wf :=\n  {term}.')
            names.append(name)
    except Abort as e:
        print(f'gen_wf_target: ABORT: {e}', file=sys.stderr)
        return 2
    head = ('(* GENERATED by harness/gen/gen_wf_target.py from the live Workflow objects of\n'
            '   bqskit.compiler.compile.build_workflow - do not edit. *)\n'
            'From Coq Require Import List String.\nImport ListNotations.\n'
            'From BQ Require Import pass.SkeletonWf.\nLocal Open Scope string_scope.\n\n')
    body = '\n\n'.join(lines)
    tail = ('\n\nDefinition named_workflows : list (string * wf) :=\n  [ '
            + '\n  ; '.join(f'("{n}", wf_{n})' for n in names) + ' ].\n\n'
            'Definition all_workflows : list wf := map snd named_workflows.\n')
    vf.write_if_changed(vf.COQ / 'gen' / 'WfTarget.v', head + body + tail)
    return 0


if __name__ == '__main__':
    sys.exit(main())
