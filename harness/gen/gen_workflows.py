"""Translator: the live Workflow objects returned by bqskit.compiler.compile.build_workflow
-> coq/gen/Workflows.v (terms of BQ.wf.WfAst.pass) and coq/gen/WorkflowThms.v (one reflective
theorem per configuration for C01 and C02).

For every configuration of CONFIGS (input kind x optimisation level x error_threshold x seed x
model class x input width) `build_workflow` is CALLED on the current /repo and the returned object
tree is walked.  FAIL-CLOSED: an unknown pass class, predicate class, attribute of a known class,
or a value of a behaviour-changing option outside the recognised ones aborts with exit code 2
(the framework reports a broken tie).  Numerical tuning knobs (instantiate options, SABRE decay
constants, heuristics, scoring functions) are recognised by NAME and ignored by value: they cannot
change the abstract contract of the leaf (coq/wf/Contracts.v).

Function-valued options are classified by BEHAVIOUR on sample operations (collection filters) or by
identity with the library default (replace filter); layer generators by comparison with what the
model's gate set builds.  Importable: harness/wfcommon.py uses `generate()`.
"""
from __future__ import annotations

import hashlib
import logging
import sys
import warnings
from pathlib import Path

HERE = Path(__file__).resolve()
sys.path.insert(0, str(HERE.parent.parent))
import vf  # noqa: E402

EPS = 2.5e-9          # synthesis_epsilon handed to build_workflow: distinguishes "uses epsilon" from the 1e-8 default
ERR_THR = 1e-3
SEED = 7
MSS = 3


class Untranslatable(Exception):
    pass


def bail(msg):
    raise Untranslatable(msg)


# ----------------------------------------------------------------------------------------------
# configurations
# ----------------------------------------------------------------------------------------------

def model_classes():
    from bqskit.ir.gates import (CNOTGate, CZGate, U3Gate, HGate, TGate, RZGate, SXGate, CCXGate, RXGate, RYGate, U1Gate,
                                 U1qPiGate, U1qPi2Gate)
    return {
        # name: (gate set or None, coupling 'all'|'line', extra machine qudits)
        'default': (None, 'all', 0),                       # all-to-all, CNOT + U3
        'line': (None, 'line', 0),                         # sparse line graph
        'wide': (None, 'line', 2),                         # machine wider than the input
        'constsq': ({CNOTGate(), HGate(), TGate()}, 'line', 0),   # no parameterised single-qudit gate
        'nosq': ({CNOTGate()}, 'line', 0),                 # no single-qudit gate at all
        'zx': ({CNOTGate(), RZGate(), SXGate()}, 'line', 0),      # ZX gate set
        'czu3': ({CZGate(), U3Gate()}, 'line', 0),         # non-CNOT entangler + general SQ gate
        'czzx': ({CZGate(), RZGate(), SXGate()}, 'line', 0),
        'ccx': ({CCXGate(), CNOTGate(), U3Gate()}, 'line', 0),    # 3-qudit entangler in the gate set
        # gate sets that make ZXGatePredicate = (RZ | U1) & (SX | RX) take both values on every operand
        'rzonly': ({CNOTGate(), RZGate()}, 'line', 0),
        'rxonly': ({CNOTGate(), RXGate()}, 'line', 0),
        'u1rx': ({CNOTGate(), U1Gate(), RXGate()}, 'line', 0),
        'u1sx': ({CNOTGate(), U1Gate(), SXGate()}, 'line', 0),
        'rzrx': ({CNOTGate(), RZGate(), RXGate()}, 'line', 0),
        'rzry': ({CNOTGate(), RZGate(), RYGate()}, 'line', 0),   # vendor-like: no general gate, no SX / RX
        'h1like': ({CNOTGate(), RZGate(), U1qPiGate, U1qPi2Gate}, 'line', 0),   # Quantinuum-like single-qudit gates
    }


ZX_CLASSES = ('rzonly', 'rxonly', 'u1rx', 'u1sx', 'rzrx', 'rzry', 'h1like')


def configs():
    """(name, kind, level, err, seed, model_class, width).  err: 0 none | 8 error_sim_size 8 (nested
    partition) | 3 error_sim_size = block size.  width: input qudits (circuits: any; 3 is used to build)."""
    out = []
    mcs = list(model_classes())
    for lvl in (1, 2, 3, 4):
        for mc in mcs:
            for err in (0, 8, 3):
                if err == 3 and mc not in ('default', 'zx', 'nosq'):
                    continue
                if err != 0 and mc in ZX_CLASSES:
                    continue
                out.append((f'circ_l{lvl}_e{err}_s0_{mc}', 'circuit', lvl, err, False, mc, 3))
        out.append((f'circ_l{lvl}_e0_s1_default', 'circuit', lvl, 0, True, 'default', 3))
    for kind in ('unitary', 'state', 'system'):
        for lvl in (1, 2, 3, 4):
            for w in (1, 2, 3):
                for mc in ('default', 'zx', 'czu3', 'constsq', 'ccx') + (('rzry', 'u1rx') if kind == 'unitary' and w == 2 else ()):
                    if mc == 'ccx' and w < 3:
                        continue        # compile() rejects: no native gate fits
                    if kind != 'unitary' and mc == 'constsq':
                        continue
                    out.append((f'{kind}_w{w}_l{lvl}_e0_s0_{mc}', kind, lvl, 0, False, mc, w))
            out.append((f'{kind}_w2_l{lvl}_e8_s1_default', kind, lvl, 8, True, 'default', 2))
    return out


def build_model(mc: str, width: int):
    from bqskit.compiler.machine import MachineModel
    gs, cg, extra = model_classes()[mc]
    n = width + extra
    edges = None if cg == 'all' else [(i, i + 1) for i in range(n - 1)]
    return MachineModel(n, edges, gs)


def build_input(kind: str, width: int):
    import numpy as np
    from bqskit.ir.circuit import Circuit
    from bqskit.qis.unitary import UnitaryMatrix
    from bqskit.qis.state import StateVector
    from bqskit.qis.state.system import StateSystem
    if kind == 'circuit':
        return Circuit(width)
    if kind == 'unitary':
        return UnitaryMatrix.identity(2 ** width, [2] * width)
    v = np.zeros(2 ** width, dtype=complex)
    v[0] = 1.0
    if kind == 'state':
        return StateVector(v)
    u = np.zeros(2 ** width, dtype=complex)
    u[-1] = 1.0
    return StateSystem({StateVector(v): StateVector(u)})


# ----------------------------------------------------------------------------------------------
# walking the live objects
# ----------------------------------------------------------------------------------------------

def cname(o) -> str:
    t = type(o)
    return f'{t.__module__}.{t.__qualname__}'


def attrs(o, allowed: dict):
    """vars(o) must be a subset of `allowed` (name -> 'ignore' | 'record'); returns recorded ones."""
    rec = {}
    for k, v in vars(o).items():
        if k not in allowed:
            bail(f'{cname(o)}: unknown attribute {k!r} = {v!r:.80}')
        if allowed[k] == 'record':
            rec[k] = v
    for k, mode in allowed.items():
        if mode == 'record' and k not in rec:
            bail(f'{cname(o)}: attribute {k!r} missing')
    return rec


SABRE_KNOBS = dict(decay_delta='ignore', decay_reset_interval='ignore', decay_reset_on_gate='ignore',
                   extended_set_size='ignore', extended_set_weight='ignore')
COSTS = ('bqskit.ir.opt.cost.functions.residuals.hilbertschmidt.HilbertSchmidtResidualsGenerator',
         'bqskit.ir.opt.cost.functions.cost.hilbertschmidt.HilbertSchmidtCostGenerator')
HEURISTICS = ('bqskit.passes.search.heuristics.astar.AStarHeuristic',
              'bqskit.passes.search.heuristics.dijkstra.DijkstraHeuristic')


def coqbool(b) -> str:
    if not isinstance(b, bool):
        bail(f'expected bool, got {b!r}')
    return 'true' if b else 'false'


class Walker:
    def __init__(self, model, inp, seed, eps, kind):
        self.model, self.inp, self.seed, self.eps, self.kind = model, inp, seed, eps, kind

    # ---- helpers -------------------------------------------------------------------------
    def thr(self, v, who) -> str:
        if v == self.eps:
            return 'ThrEps'
        if v == 1e-8:
            return 'ThrDefault'
        bail(f'{who}: success_threshold {v!r} is neither synthesis_epsilon nor the class default')

    def check_cost(self, c, who):
        if cname(c) not in COSTS:
            bail(f'{who}: unknown cost generator {cname(c)}')

    def lgen(self, g, who) -> str:
        if g is None:
            return 'LgDefault'
        n = cname(g)
        if n == 'bqskit.passes.search.generators.single.SingleQuditLayerGenerator':
            a = attrs(g, dict(gates='record', allow_repeats='ignore'))
            if a['gates'] is not None:
                bail(f'{who}: SingleQuditLayerGenerator with an explicit gate list')
            return 'LgSingle'
        ref = self.model.gate_set.build_mq_layer_generator()
        if type(g) is type(ref) and repr(sorted(vars(g).items(), key=lambda kv: kv[0])) == \
                repr(sorted(vars(ref).items(), key=lambda kv: kv[0])):
            return 'LgModelMQ'
        bail(f'{who}: layer generator {n} is not what the model gate set builds')

    def scan_filter(self, f, who) -> str:
        from bqskit.ir.operation import Operation
        from bqskit.ir.gates import U3Gate, CNOTGate, CCXGate
        ops = [Operation(U3Gate(), [0], [0, 0, 0]), Operation(CNOTGate(), [0, 1]), Operation(CCXGate(), [0, 1, 2])]
        try:
            tt = tuple(bool(f(o)) for o in ops)
        except Exception as e:  # noqa
            bail(f'{who}: collection filter raised {e!r}')
        table = {(True, True, True): 'ScAll', (False, True, True): 'ScMQ', (True, False, False): 'ScSQ'}
        if tt not in table:
            bail(f'{who}: collection filter with truth table {tt} on (1,2,3)-qudit operations')
        return table[tt]

    def foreach_cfilter(self, f, who) -> str:
        from bqskit.ir.operation import Operation
        from bqskit.ir.circuit import Circuit
        from bqskit.ir.gates import (U3Gate, CNOTGate, CircuitGate, ConstantUnitaryGate, VariableUnitaryGate,
                                     PauliGate, BarrierPlaceholder)
        from bqskit.qis.unitary import UnitaryMatrix
        c = Circuit(2)
        c.append_gate(CNOTGate(), [0, 1])
        samples = [
            (Operation(CircuitGate(c), [0, 1]), True),
            (Operation(ConstantUnitaryGate(UnitaryMatrix.identity(2)), [0]), True),
            (Operation(VariableUnitaryGate(1), [0], [1, 0, 0, 1, 0, 0, 0, 0]), True),
            (Operation(PauliGate(1), [0], [0, 0, 0, 0]), True),
            (Operation(U3Gate(), [0], [0, 0, 0]), False),
            (Operation(CNOTGate(), [0, 1]), False),
            (Operation(BarrierPlaceholder(2), [0, 1]), False),
        ]
        for op, want in samples:
            try:
                got = bool(f(op))
            except Exception as e:  # noqa
                bail(f'{who}: collection filter raised {e!r}')
            if got != want:
                bail(f'{who}: collection filter differs from default_collection_filter on {op.gate}')
        return 'CfDefault'

    def rfilter(self, f, who) -> str:
        from bqskit.passes.control import foreach as fe
        if isinstance(f, str):
            table = {
                'always': 'RAlways',
                'less-than': 'RLessThan LtAll', 'less-than-multi': 'RLessThan LtMulti',
                'less-than-many': 'RLessThan LtMany',
                'less-than-respecting': 'RRespecting false LtAll',
                'less-than-respecting-multi': 'RRespecting false LtMulti',
                'less-than-respecting-many': 'RRespecting false LtMany',
                'less-than-respecting-fully': 'RRespecting true LtAll',
                'less-than-respecting-fully-multi': 'RRespecting true LtMulti',
                'less-than-respecting-fully-many': 'RRespecting true LtMany',
            }
            if f not in table:
                bail(f'{who}: unknown replace filter {f!r}')
            # the string is resolved at run time by gen_replace_filter: it must know the name
            try:
                fe.gen_replace_filter(f, self.model)
            except Exception as e:  # noqa
                bail(f'{who}: gen_replace_filter rejects {f!r}: {e!r}')
            return '(' + table[f] + ')'
        if f is fe.default_replace_filter:
            return 'RAlways'
        bail(f'{who}: replace filter is a custom callable {f!r}')

    # ---- predicates ------------------------------------------------------------------------
    def pred(self, p) -> str:
        n = cname(p)
        P = 'bqskit.passes.control.predicates.'
        simple = {
            P + 'multi.MultiPhysicalPredicate': 'PMultiPhysical',
            P + 'single.SinglePhysicalPredicate': 'PSinglePhysical',
            P + 'physical.PhysicalPredicate': 'PPhysical',
            P + 'single.NoSingleQuditGatesInModel': 'PNoSQInModel',
            P + 'single.HasGeneralSingleQuditGate': 'PHasGeneralSQ',
            P + 'single.ZXGatePredicate': 'PZX',
            P + 'single.AllConstantSingleQuditGates': 'PAllConstSQ',
            P + 'change.ChangePredicate': 'PChange',
        }
        if n in simple:
            attrs(p, {})
            return simple[n]
        if n == P + 'count.GateCountPredicate':
            attrs(p, dict(gate='ignore'))
            return 'PGateCount'
        if n == P + 'width.WidthPredicate':
            a = attrs(p, dict(width='record'))
            if not isinstance(a['width'], int) or not 0 <= a['width'] <= 64:
                bail(f'WidthPredicate({a["width"]!r})')
            return f'(PWidthLt {a["width"]})'
        if n == P + 'many.ManyQuditGatesPredicate':
            a = attrs(p, dict(check_circuit='record', check_model='record'))
            return f'(PMany {coqbool(a["check_circuit"])} {coqbool(a["check_model"])})'
        if n == P + 'notpredicate.NotPredicate':
            a = attrs(p, dict(predicate='record'))
            return f'(PNot {self.pred(a["predicate"])})'
        if n == P + 'andpredicate.AndPredicate':
            a = attrs(p, dict(p1='record', p2='record'))
            return f'(PAnd {self.pred(a["p1"])} {self.pred(a["p2"])})'
        if n == P + 'orpredicate.OrPredicate':
            a = attrs(p, dict(p1='record', p2='record'))
            return f'(POr {self.pred(a["p1"])} {self.pred(a["p2"])})'
        bail(f'unknown predicate class {n}')

    # ---- synthesis leaves ------------------------------------------------------------------
    SYNTH_ATTRS = dict(heuristic_function='record', layer_gen='record', success_threshold='record', cost='record',
                       max_layer='record', no_progress_layers_allowed='ignore', instantiate_options='ignore',
                       store_partial_solutions='record', partials_per_depth='ignore')

    def synth(self, p, pas: bool) -> str:
        n = cname(p)
        if n == 'bqskit.passes.synthesis.qsearch.QSearchSynthesisPass':
            k, al = 'SkQSearch', dict(self.SYNTH_ATTRS)
        elif n == 'bqskit.passes.synthesis.leap.LEAPSynthesisPass':
            k, al = 'SkLeap', dict(self.SYNTH_ATTRS, min_prefix_size='ignore')
        else:
            bail(f'unknown synthesis pass {n}')
        a = attrs(p, al)
        if cname(a['heuristic_function']) not in HEURISTICS:
            bail(f'{n}: unknown heuristic {cname(a["heuristic_function"])}')
        self.check_cost(a['cost'], n)
        if a['max_layer'] is not None:
            bail(f'{n}: max_layer set (search may stop early without reaching the threshold)')
        if a['store_partial_solutions'] is not False:
            bail(f'{n}: store_partial_solutions')
        return f'(Leaf (LSynth {k} {self.lgen(a["layer_gen"], n)} {self.thr(a["success_threshold"], n)} {coqbool(pas)}))'

    # ---- passes ------------------------------------------------------------------------------
    def seq(self, ps) -> str:
        items = [self.walk(p) for p in ps]
        if len(items) == 1:
            return items[0]
        return '(seqs [' + '; '.join(items) + '])'

    def wf(self, w) -> str:
        from bqskit.compiler.workflow import Workflow
        if type(w) is not Workflow:
            bail(f'expected Workflow, got {cname(w)}')
        attrs(w, dict(_passes='ignore', _name='ignore'))
        return self.seq(list(w._passes))

    def walk(self, p) -> str:
        from bqskit.compiler.workflow import Workflow
        n = cname(p)
        B = 'bqskit.passes.'
        if type(p) is Workflow:
            return self.wf(p)
        leaf0 = {
            B + 'util.unfold.UnfoldPass': 'LUnfold',
            B + 'measure.ExtractMeasurements': 'LExtractMeas',
            B + 'measure.RestoreMeasurements': 'LRestoreMeas',
            B + 'noop.NOOPPass': 'LNoop',
            B + 'util.fill.FillSingleQuditGatesPass': 'LFill',
            B + 'mapping.setmodel.ExtractModelConnectivityPass': 'LExtractConn',
            B + 'mapping.setmodel.RestoreModelConnectivityPass': 'LRestoreConn',
            B + 'retarget.general.GeneralSQDecomposition': 'LGeneralSQ',
            B + 'mapping.placement.greedy.GreedyPlacementPass': 'LGreedyPlace',
            B + 'mapping.apply.ApplyPlacement': 'LApplyPlacement',
            B + 'partitioning.single.GroupSingleQuditGatePass': 'LGroupSingle',
        }
        if n in leaf0:
            attrs(p, {})
            return f'(Leaf {leaf0[n]})'
        if n == B + 'util.log.LogPass':
            a = attrs(p, dict(msg='ignore', level='record'))
            return f'(Leaf (LLog {coqbool(a["level"] >= logging.WARNING)}))'
        if n == B + 'util.log.LogErrorPass':
            attrs(p, dict(threshold='ignore'))
            return '(Leaf LLogError)'
        if n == B + 'util.random.SetRandomSeedPass':
            a = attrs(p, dict(seed='record'))
            if a['seed'] != self.seed:
                bail(f'SetRandomSeedPass({a["seed"]!r}) is not the seed given to build_workflow')
            return '(Leaf LSetSeed)'
        if n == B + 'mapping.setmodel.SetModelPass':
            a = attrs(p, dict(model='record'))
            if a['model'] is not self.model:
                bail('SetModelPass installs a model other than the one given to build_workflow')
            return '(Leaf LSetModel)'
        if n == B + 'synthesis.target.SetTargetPass':
            a = attrs(p, dict(target='record'))
            if a['target'] is not self.inp:
                bail('SetTargetPass sets a target other than the input given to build_workflow')
            k = {'unitary': 'TkUnitary', 'state': 'TkState', 'system': 'TkStateSystem'}.get(self.kind)
            if k is None:
                bail('SetTargetPass in a circuit workflow')
            return f'(Leaf (LSetTarget {k}))'
        if n == B + 'partitioning.quick.QuickPartitioner':
            a = attrs(p, dict(block_size='record'))
            if not isinstance(a['block_size'], int) or a['block_size'] < 2:
                bail(f'QuickPartitioner({a["block_size"]!r})')
            return f'(Leaf (LQuick {a["block_size"]}))'
        if n == B + 'util.extend.ExtendBlockSizePass':
            a = attrs(p, dict(minimum_size='record'))
            if a['minimum_size'] is not None:
                bail('ExtendBlockSizePass(minimum_size) set')
            return '(Leaf LExtend)'
        if n in (B + 'synthesis.qsearch.QSearchSynthesisPass', B + 'synthesis.leap.LEAPSynthesisPass'):
            return self.synth(p, False)
        if n == B + 'synthesis.pas.PermutationAwareSynthesisPass':
            a = attrs(p, dict(inner_synthesis='record', scoring_fn='ignore', input_perm='record', output_perm='record'))
            coqbool(a['input_perm']), coqbool(a['output_perm'])
            return self.synth(a['inner_synthesis'], True)
        if n == B + 'retarget.auto.AutoRebase2QuditGatePass':
            a = attrs(p, dict(max_depth='ignore', max_retries='ignore', success_threshold='record', cost='record',
                              instantiate_options='ignore'))
            self.check_cost(a['cost'], n)
            return f'(Leaf (LRebase2Q {self.thr(a["success_threshold"], n)}))'
        if n == B + 'processing.scan.ScanningGateRemovalPass':
            a = attrs(p, dict(collection_filter='record', start_from_left='ignore', success_threshold='record',
                              cost='record', instantiate_options='ignore'))
            self.check_cost(a['cost'], n)
            return f'(Leaf (LScan {self.scan_filter(a["collection_filter"], n)} {self.thr(a["success_threshold"], n)}))'
        if n == B + 'rules.zxzxz.ZXZXZDecomposition':
            a = attrs(p, dict(always_use_rx='record', always_use_u1='record'))
            if a['always_use_rx'] or a['always_use_u1']:
                bail('ZXZXZDecomposition(always_use_rx/u1) set: may emit a gate the model lacks')
            return '(Leaf LZXZXZ)'
        if n == B + 'mapping.layout.sabre.GeneralizedSabreLayoutPass':
            attrs(p, dict(SABRE_KNOBS, total_passes='ignore'))
            return '(Leaf LSabreLayout)'
        if n == B + 'mapping.routing.sabre.GeneralizedSabreRoutingPass':
            attrs(p, SABRE_KNOBS)
            return '(Leaf LSabreRoute)'
        if n == B + 'mapping.layout.pam.PAMLayoutPass':
            attrs(p, dict(SABRE_KNOBS, total_passes='ignore', gate_count_weight='ignore'))
            return '(Leaf LPamLayout)'
        if n == B + 'mapping.routing.pam.PAMRoutingPass':
            attrs(p, dict(SABRE_KNOBS, gate_count_weight='ignore'))
            return '(Leaf LPamRoute)'
        if n == B + 'mapping.verify.PAMVerificationSequence':
            attrs(p, dict(error_sim_size='ignore'))
            return '(Leaf LPamVerify)'
        if n == B + 'mapping.topology.SubtopologySelectionPass':
            a = attrs(p, dict(block_size='record'))
            return f'(Leaf (LSubtopology {int(a["block_size"])}))'
        if n == B + 'mapping.embed.EmbedAllPermutationsPass':
            a = attrs(p, dict(input_perm='record', output_perm='record', vary_topology='record',
                              inner_synthesis='record', scoring_fn='ignore'))
            inner = self.synth(a['inner_synthesis'], False)
            if 'LgDefault' not in inner:
                bail('EmbedAllPermutationsPass: inner synthesis with a non-default layer generator')
            return (f'(EmbedPerms {inner} {coqbool(a["input_perm"])} {coqbool(a["output_perm"])} '
                    f'{coqbool(a["vary_topology"])})')
        # ---- control ---------------------------------------------------------------------------
        if n == B + 'control.ifthenelse.IfThenElsePass':
            a = attrs(p, dict(condition='record', on_true='record', on_false='record'))
            e = 'Skip' if a['on_false'] is None else self.wf(a['on_false'])
            return f'(IfThenElse {self.pred(a["condition"])} {self.wf(a["on_true"])} {e})'
        if n == B + 'control.whileloop.WhileLoopPass':
            a = attrs(p, dict(condition='record', workflow='record'))
            return f'(While {self.pred(a["condition"])} {self.wf(a["workflow"])})'
        if n == B + 'control.dowhileloop.DoWhileLoopPass':
            a = attrs(p, dict(condition='record', workflow='record'))
            return f'(DoWhile {self.pred(a["condition"])} {self.wf(a["workflow"])})'
        if n == B + 'control.foreach.ForEachBlockPass':
            a = attrs(p, dict(calculate_error_bound='record', collection_filter='record', replace_filter='record',
                              workflow='record'))
            return (f'(ForEach {self.rfilter(a["replace_filter"], n)} {self.foreach_cfilter(a["collection_filter"], n)} '
                    f'{coqbool(a["calculate_error_bound"])} {self.wf(a["workflow"])})')
        bail(f'unknown pass class {n}')


def cfg_constants(model) -> dict:
    """What the model-only predicates answer for `model`: the LIVE predicate code is called.  `zx_native` is not a
    predicate: it says whether the gates ZXZXZDecomposition emits for this gate set are native, read off the gate set
    independently of ZXGatePredicate (the leaf contract must not trust the predicate that selects the leaf)."""
    from bqskit.ir.circuit import Circuit
    from bqskit.compiler.passdata import PassData
    from bqskit.passes.control.predicates.many import ManyQuditGatesPredicate
    from bqskit.passes.control.predicates.single import (NoSingleQuditGatesInModel, HasGeneralSingleQuditGate,
                                                         ZXGatePredicate, AllConstantSingleQuditGates)
    c = Circuit(1)
    d = PassData(c)
    d.model = model
    return dict(
        many_model=bool(ManyQuditGatesPredicate(False, True).get_truth_value(c, d)),
        nosq_model=bool(NoSingleQuditGatesInModel().get_truth_value(c, d)),
        has_gen=bool(HasGeneralSingleQuditGate().get_truth_value(c, d)),
        zx_model=bool(ZXGatePredicate().get_truth_value(c, d)),
        allconst=bool(AllConstantSingleQuditGates().get_truth_value(c, d)),
        gsn=bool(model.gate_set.get_general_sq_gate() in model.gate_set),
        zx_native=independent_constants(model)['zx_model'],
    )


def independent_constants(model) -> dict:
    """The documented meaning of the model-only predicates, computed from the gate list WITHOUT the predicate classes
    (gate names / arities / parameter counts only)."""
    from bqskit.ir.gates.generalgate import GeneralGate
    gates = list(model.gate_set)
    sq = [g for g in gates if g.num_qudits == 1]
    names = {type(g).__name__ if g.name not in ('RZ', 'RX', 'U1', 'SX') else g.name for g in sq}
    names |= {g.name for g in sq}

    def has(*ns):
        return any(n in names for n in ns)
    return dict(
        many_model=any(g.num_qudits > 2 for g in gates),
        nosq_model=len(sq) == 0,
        has_gen=any(isinstance(g, GeneralGate) for g in sq),
        zx_model=(has('RZ', 'RZGate') or has('U1', 'U1Gate')) and (has('SX', 'SqrtXGate', 'SXGate') or has('RX', 'RXGate')),
        allconst=all(g.num_params == 0 for g in sq),
    )


def constant_disagreements() -> list[dict]:
    """Model classes for which a live predicate disagrees with its documented meaning (each one is a concrete gate set)."""
    out = []
    for mc in model_classes():
        m = build_model(mc, 3)
        live, ind = cfg_constants(m), independent_constants(m)
        for k, v in ind.items():
            if live[k] != v:
                out.append(dict(model=mc, predicate=k, live=live[k], documented=v,
                                gates=sorted(g.name for g in m.gate_set)))
    return out


def generate():
    """Returns (list of config dicts, text of Workflows.v, {file stem: text} of the theorem files)."""
    warnings.simplefilter('ignore')
    from bqskit.compiler.compile import build_workflow
    trees: dict[str, str] = {}      # hash -> term
    cfgs: dict[str, str] = {}       # hash -> record
    rows = []
    for name, kind, lvl, err, seed, mc, width in configs():
        model = build_model(mc, width)
        inp = build_input(kind, width)
        try:
            wfo = build_workflow(inp, model, lvl, EPS, MSS, None if err == 0 else ERR_THR, err if err else 8,
                                 SEED if seed else None)
        except Exception as e:  # noqa
            bail(f'{name}: build_workflow raised {e!r}')
        term = Walker(model, inp, SEED, EPS, kind).wf(wfo)
        th = 't_' + hashlib.sha1(term.encode()).hexdigest()[:10]
        trees[th] = term
        cc = cfg_constants(model)
        crec = ('{| ' + '; '.join(f'{k} := {coqbool(v)}' for k, v in cc.items()) + ' |}')
        ch = 'cfg_' + hashlib.sha1(crec.encode()).hexdigest()[:8]
        cfgs[ch] = crec
        kk = {'circuit': 'KCircuit', 'unitary': 'KUnitary', 'state': 'KState', 'system': 'KStateSystem'}[kind]
        meta = (f'{{| m_kind := {kk}; m_level := {lvl}; m_errthr := {coqbool(err != 0)}; m_seed := {coqbool(seed)}; '
                f'm_width := {0 if kind == "circuit" else width}; m_cfg := {ch} |}}')
        rows.append(dict(name=name, kind=kind, level=lvl, err=err, seed=seed, model=mc, width=width, tree=th, cfg=ch,
                         meta=meta, consts=cc))
    out = ['(* GENERATED by harness/gen/gen_workflows.py from the live objects returned by',
           '   bqskit.compiler.compile.build_workflow -- do not edit. *)',
           'From Coq Require Import List Bool String.', 'Import ListNotations.',
           'From BQ Require Import wf.WfAst.', 'Open Scope string_scope.', '']
    for h, t in sorted(cfgs.items()):
        out.append(f'Definition {h} : config := {t}.')
    out.append('')
    for h, t in sorted(trees.items()):
        out.append(f'Definition {h} : pass := {t}.')
    out.append('')
    for r in rows:
        out.append(f'Definition m_{r["name"]} : meta := {r["meta"]}.')
    out.append('')
    out.append('Definition wf_table : list (string * meta * pass) := [')
    out.append(';\n'.join(f'  ("{r["name"]}", m_{r["name"]}, {r["tree"]})' for r in rows))
    out.append('].')
    wfv = '\n'.join(out) + '\n'

    # one lemma per DISTINCT (meta, tree); configurations sharing both share the lemma.  The lemmas are
    # spread over chunk files (built in parallel by make); WorkflowThms.v collects them.
    head = ['(* GENERATED by harness/gen/gen_workflows.py -- one reflective theorem per configuration. *)',
            'From Coq Require Import List Bool String.', 'Import ListNotations.',
            'From BQ Require Import wf.WfAst wf.State wf.Abs wf.Check wf.Spec gen.Workflows.', '']
    chunks: dict[str, list[str]] = {}
    seen = {}
    for r in rows:
        key = (r['meta'], r['tree'])
        if key in seen:
            r['lemma'] = seen[key]
            continue
        seen[key] = r['name']
        r['lemma'] = r['name']
        ck = f'C{r["level"]}' if r['kind'] == 'circuit' else {'unitary': 'U', 'state': 'S', 'system': 'Y'}[r['kind']]
        th = chunks.setdefault(ck, list(head))
        th.append(f'Lemma c01_{r["name"]} : c01_check m_{r["name"]} {r["tree"]} = true.')
        th.append('Proof. vm_cast_no_check (eq_refl true). Qed.')
        th.append(f'Lemma c02_{r["name"]} : c02_check m_{r["name"]} {r["tree"]} = true.')
        th.append('Proof. vm_cast_no_check (eq_refl true). Qed.')
    th = list(head)
    th[3] = th[3][:-1] + ' ' + ' '.join(f'gen.WorkflowThms_{k}' for k in sorted(chunks)) + '.'
    for pr in ('c01', 'c02'):
        th.append('')
        th.append(f'Lemma {pr}_all : Forall (fun x : string * meta * pass => {pr}_check (snd (fst x)) (snd x) = true) wf_table.')
        th.append('Proof.')
        th.append('  unfold wf_table.')
        for r in rows:
            th.append(f'  apply Forall_cons; [exact {pr}_{r["lemma"]}|].')
        th.append('  apply Forall_nil.')
        th.append('Qed.')
    thv = {'WorkflowThms': '\n'.join(th) + '\n'}
    for k, v in chunks.items():
        thv[f'WorkflowThms_{k}'] = '\n'.join(v) + '\n'
    return rows, wfv, thv


def main() -> int:
    try:
        rows, wfv, thv = generate()
    except Untranslatable as e:
        print(f'gen_workflows: UNTRANSLATABLE: {e}', file=sys.stderr)
        return 2
    a = vf.write_if_changed(vf.COQ / 'gen' / 'Workflows.v', wfv)
    b = [k for k, v in sorted(thv.items()) if vf.write_if_changed(vf.COQ / 'gen' / f'{k}.v', v)]
    for f in (vf.COQ / 'gen').glob('WorkflowThms_*.v'):
        if f.stem not in thv:
            f.unlink()
    print(f'gen_workflows: {len(rows)} configurations, {len({r["tree"] for r in rows})} distinct trees, '
          f'{len({(r["meta"], r["tree"]) for r in rows})} distinct theorems; '
          f'Workflows.v {"written" if a else "unchanged"}, theorem files written: {b or "none"}')
    return 0


if __name__ == '__main__':
    sys.exit(main())
