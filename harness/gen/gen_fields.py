"""Translator: PassData / Circuit field lists and copy/become/update/clear bodies -> Coq.

Reads (python `ast`, no execution of the methods):
  bqskit/compiler/passdata.py  PassData.__init__/copy/become/update/update_error_mul,
                               _reserved_keys, property getters/setters, __setitem__ alias
  bqskit/ir/circuit.py         Circuit.__init__/copy/become/clear
  bqskit/qis/unitary/unitary.py  property getters num_qudits / radixes (base class of Circuit)
and writes coq/gen/PassDataFields.v and coq/gen/CircuitFields.v:
  * a record with one field per `self._x` assigned in `__init__`,
  * `become` (both branches of the `deepcopy` flag), `copy`, `update`, `clear` as Gallina
    functions generated FROM THE METHOD BODIES (every field is taken from `other` only if the
    body assigns it from `other`; otherwise it keeps the receiver's value),
  * the totality theorem (`x_become_total`, proved by reflexivity) when every __init__ field
    is copied, otherwise the refutation theorems naming the missing fields,
  * a state-independent verdict theorem used by coq/props (robust to the D3 fix).

Fail-closed: any statement/expression shape not listed here aborts with exit code 2.
The analysis is also importable (harness/props/c11.py uses `analyse()`).
"""
from __future__ import annotations

import ast
import os
import sys
from pathlib import Path

HERE = Path(__file__).resolve()
sys.path.insert(0, str(HERE.parent.parent))
import vf  # noqa: E402


class Untranslatable(Exception):
    pass


def bail(msg, node=None):
    where = f' (line {node.lineno})' if node is not None and hasattr(node, 'lineno') else ''
    raise Untranslatable(msg + where)


# --------------------------------------------------------------------------
# generic helpers
# --------------------------------------------------------------------------

def class_def(tree: ast.Module, name: str) -> ast.ClassDef:
    for n in tree.body:
        if isinstance(n, ast.ClassDef) and n.name == name:
            return n
    bail(f'class {name} not found')


def methods(cls: ast.ClassDef, name: str) -> list[ast.FunctionDef]:
    return [n for n in cls.body if isinstance(n, (ast.FunctionDef, ast.AsyncFunctionDef)) and n.name == name]


def method(cls: ast.ClassDef, name: str) -> ast.FunctionDef:
    ms = [m for m in methods(cls, name) if not any(_is_setter(d) for d in m.decorator_list)]
    if len(ms) != 1:
        bail(f'{cls.name}.{name}: expected exactly one definition, found {len(ms)}')
    return ms[0]


def _is_setter(d) -> bool:
    return isinstance(d, ast.Attribute) and d.attr == 'setter'


def strip_doc(body: list[ast.stmt]) -> list[ast.stmt]:
    if body and isinstance(body[0], ast.Expr) and isinstance(body[0].value, ast.Constant) \
            and isinstance(body[0].value.value, str):
        return body[1:]
    return body


def self_attr(node, who='self'):
    """`who._x` -> '_x' else None."""
    if isinstance(node, ast.Attribute) and isinstance(node.value, ast.Name) and node.value.id == who:
        return node.attr
    return None


def is_call(node, mod, fn):
    return (isinstance(node, ast.Call) and isinstance(node.func, ast.Attribute)
            and isinstance(node.func.value, ast.Name) and node.func.value.id == mod
            and node.func.attr == fn and len(node.args) == 1 and not node.keywords)


# --------------------------------------------------------------------------
# __init__: fields in order of first assignment
# --------------------------------------------------------------------------

def init_fields(cls: ast.ClassDef) -> tuple[list[str], dict[str, ast.expr]]:
    """Every `self._x = ...` reachable in __init__ (through if/try/else).  Other statements
    allowed: docstring, raise, assignments to locals, annotated declarations."""
    init = method(cls, '__init__')
    fields: list[str] = []
    exprs: dict[str, ast.expr] = {}

    def walk(stmts):
        for s in stmts:
            if isinstance(s, ast.Expr) and isinstance(s.value, ast.Constant):
                continue
            if isinstance(s, ast.Raise) or isinstance(s, ast.Pass):
                continue
            if isinstance(s, ast.Import) or isinstance(s, ast.ImportFrom):
                continue
            if isinstance(s, ast.If):
                walk(s.body)
                walk(s.orelse)
                continue
            if isinstance(s, ast.Try):
                walk(s.body)
                for h in s.handlers:
                    walk(h.body)
                walk(s.orelse)
                walk(s.finalbody)
                continue
            if isinstance(s, ast.AnnAssign):
                f = self_attr(s.target)
                if f is not None:
                    if s.value is not None:
                        note(f, s.value, s)
                    continue  # bare declaration `self._x: T`
                if isinstance(s.target, ast.Name):
                    continue
                bail(f'{cls.name}.__init__: unsupported annotated target', s)
            if isinstance(s, ast.Assign):
                for t in s.targets:
                    f = self_attr(t)
                    if f is not None:
                        note(f, s.value, s)
                    elif isinstance(t, ast.Name):
                        pass  # local
                    else:
                        bail(f'{cls.name}.__init__: unsupported assignment target', s)
                continue
            bail(f'{cls.name}.__init__: unsupported statement {type(s).__name__}', s)

    def note(f, value, s):
        if not f.startswith('_'):
            bail(f'{cls.name}.__init__: public attribute self.{f} (setter side effects not modelled)', s)
        if f not in fields:
            fields.append(f)
        exprs[f] = value

    walk(init.body)
    if not fields:
        bail(f'{cls.name}.__init__: no fields found')
    return fields, exprs


# --------------------------------------------------------------------------
# properties: getter name -> field
# --------------------------------------------------------------------------

def property_getters(classes: list[ast.ClassDef], fields: list[str]) -> dict[str, str]:
    """prop -> '_x' for getters that return the stored field (patterns listed in the module doc).
    Later classes in `classes` are base classes (first definition wins)."""
    out: dict[str, str] = {}
    for cls in classes:
        for n in cls.body:
            if not isinstance(n, ast.FunctionDef):
                continue
            if not any(isinstance(d, ast.Name) and d.id == 'property' for d in n.decorator_list):
                continue
            if n.name in out:
                continue
            f = getter_field(n, fields)
            if f is not None:
                out[n.name] = f
    return out


def getter_field(fn: ast.FunctionDef, fields: list[str]):
    body = strip_doc(fn.body)
    if not body:
        return None
    # return self._x | return getattr(self, '_x')
    def ret_field(s):
        if not isinstance(s, ast.Return) or s.value is None:
            return None
        f = self_attr(s.value)
        if f is not None:
            return f
        v = s.value
        if (isinstance(v, ast.Call) and isinstance(v.func, ast.Name) and v.func.id == 'getattr'
                and len(v.args) == 2 and isinstance(v.args[0], ast.Name) and v.args[0].id == 'self'
                and isinstance(v.args[1], ast.Constant)):
            return v.args[1].value
        return None
    if len(body) == 1:
        return ret_field(body[0])
    first = body[0]
    # if hasattr(self, '_x'): return self._x   (taken whenever __init__ assigned _x)
    if (isinstance(first, ast.If) and isinstance(first.test, ast.Call)
            and isinstance(first.test.func, ast.Name) and first.test.func.id == 'hasattr'
            and len(first.test.args) == 2 and isinstance(first.test.args[1], ast.Constant)
            and len(first.body) == 1):
        f = ret_field(first.body[0])
        if f is not None and f == first.test.args[1].value and f in fields:
            return f
        return None
    # lazy normalisation: if <test on self._x>: self._x = <expr of self._x> ; return self._x
    if len(body) == 2 and isinstance(first, ast.If) and not first.orelse and len(first.body) == 1 \
            and isinstance(first.body[0], ast.Assign):
        f = ret_field(body[1])
        if f is not None and [self_attr(t) for t in first.body[0].targets] == [f]:
            return f
    return None


def setter_fields(cls: ast.ClassDef) -> dict[str, str]:
    """prop -> '_x' for `@prop.setter def prop(self, _val)` whose only assignments to self are
    `self._x = <expr of _val>` as the last statement (validation before it may only raise, or set
    *another* field through a public property - recorded as a side effect and rejected for the
    keys `update` routes through it)."""
    out = {}
    for n in cls.body:
        if not isinstance(n, ast.FunctionDef):
            continue
        if not any(_is_setter(d) for d in n.decorator_list):
            continue
        body = strip_doc(n.body)
        if not body or not isinstance(body[-1], ast.Assign) or len(body[-1].targets) != 1:
            continue
        tgt = body[-1].targets[0]
        f = self_attr(tgt)
        if f is None:
            continue   # e.g. gate_set: self._model.gate_set = _val  (not a field of its own)
        names = {x.id for x in ast.walk(body[-1].value) if isinstance(x, ast.Name)}
        if '_val' not in names:
            continue
        side = []
        for s in body[:-1]:
            for x in ast.walk(s):
                if isinstance(x, (ast.Assign, ast.AugAssign)):
                    ts = x.targets if isinstance(x, ast.Assign) else [x.target]
                    for t in ts:
                        a = self_attr(t)
                        if a is not None:
                            side.append(a)
        out[n.name] = (f, side)
    return out


# --------------------------------------------------------------------------
# become
# --------------------------------------------------------------------------

def copy_source(value, other: str, getters: dict[str, str], fields):
    """RHS forms that copy field/property of `other`: other._y, other.prop, copy.copy(..),
    copy.deepcopy(..) of those.  Returns the source field or None."""
    if is_call(value, 'copy', 'deepcopy') or is_call(value, 'copy', 'copy'):
        value = value.args[0]
    a = self_attr(value, other)
    if a is None:
        return None
    if a in fields:
        return a
    if a in getters:
        return getters[a]
    return None


def assignments_from(stmts, recv: str, other: str, getters, fields, what: str) -> dict[str, str]:
    res: dict[str, str] = {}
    for s in stmts:
        if isinstance(s, ast.Expr) and isinstance(s.value, ast.Constant):
            continue
        if not isinstance(s, ast.Assign) or len(s.targets) != 1:
            bail(f'{what}: unsupported statement {type(s).__name__}', s)
        f = self_attr(s.targets[0], recv)
        if f is None or f not in fields:
            bail(f'{what}: assignment to something that is not a field of the receiver', s)
        src = copy_source(s.value, other, getters, fields)
        if src is None:
            bail(f'{what}: right-hand side of {recv}.{f} is not a copy of a field of {other}', s)
        res[f] = src
    return res


def translate_become(cls, fields, getters):
    fn = method(cls, 'become')
    args = [a.arg for a in fn.args.args]
    if len(args) != 3 or args[0] != 'self' or args[2] != 'deepcopy':
        bail(f'{cls.name}.become: unexpected signature {args}', fn)
    other = args[1]
    if len(fn.args.defaults) != 1 or not isinstance(fn.args.defaults[0], ast.Constant) \
            or not isinstance(fn.args.defaults[0].value, bool):
        bail(f'{cls.name}.become: default of `deepcopy` is not a boolean literal', fn)
    default_deep = fn.args.defaults[0].value
    body = strip_doc(fn.body)
    if len(body) != 1 or not isinstance(body[0], ast.If) or not isinstance(body[0].test, ast.Name) \
            or body[0].test.id != 'deepcopy':
        bail(f'{cls.name}.become: body is not `if deepcopy: ... else: ...`', fn)
    deep = assignments_from(body[0].body, 'self', other, getters, fields, f'{cls.name}.become[deep]')
    shallow = assignments_from(body[0].orelse, 'self', other, getters, fields, f'{cls.name}.become[shallow]')
    return deep, shallow, default_deep


# --------------------------------------------------------------------------
# copy
# --------------------------------------------------------------------------

DUNDERS = ('__deepcopy__', '__copy__', '__reduce__', '__reduce_ex__', '__getstate__', '__setstate__',
           '__getnewargs__', '__getnewargs_ex__', '__slots__')


def translate_copy(cls, fields, getters, init_exprs):
    fn = method(cls, 'copy')
    body = strip_doc(fn.body)
    # form 1: return copy.deepcopy(self)  -> every __dict__ entry, provided no pickling hooks
    if len(body) == 1 and isinstance(body[0], ast.Return) and is_call(body[0].value, 'copy', 'deepcopy') \
            and isinstance(body[0].value.args[0], ast.Name) and body[0].value.args[0].id == 'self':
        for n in cls.body:
            nm = getattr(n, 'name', None)
            if nm in DUNDERS:
                bail(f'{cls.name} defines {nm}: deepcopy(self) is no longer the field-wise copy', n)
            if isinstance(n, ast.Assign) and any(isinstance(t, ast.Name) and t.id == '__slots__' for t in n.targets):
                bail(f'{cls.name} defines __slots__', n)
        return {f: f for f in fields}, 'deepcopy(self)'
    # form 2: new = Cls(self.p, self.q); new._x = copy.deepcopy(self._x) ...; return new
    if len(body) >= 2 and isinstance(body[0], ast.Assign) and len(body[0].targets) == 1 \
            and isinstance(body[0].targets[0], ast.Name) and isinstance(body[0].value, ast.Call) \
            and isinstance(body[0].value.func, ast.Name) and body[0].value.func.id == cls.name \
            and isinstance(body[-1], ast.Return) and isinstance(body[-1].value, ast.Name) \
            and body[-1].value.id == body[0].targets[0].id:
        new = body[0].targets[0].id
        call = body[0].value
        if call.keywords:
            bail(f'{cls.name}.copy: keyword constructor arguments', call)
        init = method(cls, '__init__')
        params = [a.arg for a in init.args.args][1:]
        if len(call.args) > len(params):
            bail(f'{cls.name}.copy: too many constructor arguments', call)
        bound = {}
        for p, a in zip(params, call.args):
            src = copy_source(a, 'self', getters, fields)
            if src is None:
                bail(f'{cls.name}.copy: constructor argument {p} is not a field of self', a)
            bound[p] = src
        res = {}
        # fields initialised by the constructor from its arguments
        for f, e in init_exprs.items():
            src = ctor_field_source(e, bound)
            if src is not None:
                res[f] = src
        res.update(assignments_from(body[1:-1], new, 'self', getters, fields, f'{cls.name}.copy'))
        return res, f'{cls.name}(...) + field assignments'
    bail(f'{cls.name}.copy: unsupported body shape', fn)


def ctor_field_source(e, bound):
    """__init__ expressions that store an argument unchanged for valid inputs:
       int(arg) | tuple(arg) | list(arg) | arg | tuple(arg if len(arg) > 0 else <default>)
    (the last one: the default is only used for an empty argument, which the length check that
    follows in Circuit.__init__ rejects unless num_qudits is 0, itself rejected)."""
    if isinstance(e, ast.Name):
        return bound.get(e.id)
    if isinstance(e, ast.Call) and isinstance(e.func, ast.Name) and e.func.id in ('int', 'tuple', 'list') \
            and len(e.args) == 1 and not e.keywords:
        a = e.args[0]
        if isinstance(a, ast.Name):
            return bound.get(a.id)
        if isinstance(a, ast.IfExp) and isinstance(a.body, ast.Name) and isinstance(a.test, ast.Compare) \
                and isinstance(a.test.left, ast.Call) and isinstance(a.test.left.func, ast.Name) \
                and a.test.left.func.id == 'len' and len(a.test.left.args) == 1 \
                and isinstance(a.test.left.args[0], ast.Name) and a.test.left.args[0].id == a.body.id \
                and len(a.test.ops) == 1 and isinstance(a.test.ops[0], ast.Gt) \
                and isinstance(a.test.comparators[0], ast.Constant) and a.test.comparators[0].value == 0:
            return bound.get(a.body.id)
    return None


# --------------------------------------------------------------------------
# clear (Circuit): which fields are reset to their __init__ expression
# --------------------------------------------------------------------------

def translate_clear(cls, fields, init_exprs):
    fn = method(cls, 'clear')
    reset = []
    for s in strip_doc(fn.body):
        if not isinstance(s, ast.Assign) or len(s.targets) != 1:
            bail(f'{cls.name}.clear: unsupported statement', s)
        f = self_attr(s.targets[0])
        if f is None or f not in fields:
            bail(f'{cls.name}.clear: target is not a field', s)
        if ast.dump(s.value) != ast.dump(init_exprs[f]):
            bail(f'{cls.name}.clear: self.{f} is reset to something else than its __init__ value', s)
        reset.append(f)
    return reset


# --------------------------------------------------------------------------
# update (PassData)
# --------------------------------------------------------------------------

UPDATE_SHAPE = """
if isinstance(other, PassData):
    for key in other:
        if key == 'target':
            self._target = other._target
            continue
        self[key] = other[key]
    for key, value in kwds.items():
        self[key] = value
    return
super().update(other, **kwds)
"""


def translate_update(cls, fields, setters):
    fn = method(cls, 'update')
    body = strip_doc(fn.body)
    want = ast.parse(UPDATE_SHAPE).body
    if [ast.dump(s) for s in body] != [ast.dump(s) for s in want]:
        bail('PassData.update: body differs from the shape the translator understands', fn)
    # reserved keys
    reserved = None
    for n in cls.body:
        if isinstance(n, ast.Assign) and any(isinstance(t, ast.Name) and t.id == '_reserved_keys' for t in n.targets):
            if not isinstance(n.value, ast.List) or not all(isinstance(e, ast.Constant) for e in n.value.elts):
                bail('PassData._reserved_keys is not a list of literals', n)
            reserved = [e.value for e in n.value.elts]
    if reserved is None:
        bail('PassData._reserved_keys not found')
    # __iter__ = chain(reserved, _data); __setitem__ alias machine_model -> model then setattr
    it = method(cls, '__iter__')
    want_it = ast.parse('return it.chain(self._reserved_keys.__iter__(), self._data.__iter__())').body
    if [ast.dump(s) for s in strip_doc(it.body)] != [ast.dump(s) for s in want_it]:
        bail('PassData.__iter__: unexpected body', it)
    si = method(cls, '__setitem__')
    want_si = ast.parse(
        "if _key in self._reserved_keys:\n"
        "    if _key == 'machine_model':\n"
        "        _key = 'model'\n"
        "    return self.__setattr__(_key, _val)\n"
        "return self._data.__setitem__(_key, _val)\n").body
    if [ast.dump(s) for s in strip_doc(si.body)] != [ast.dump(s) for s in want_si]:
        bail('PassData.__setitem__: unexpected body', si)
    written = {}
    for k in reserved:
        if k == 'target':
            written['_target'] = '_target'
            continue
        prop = 'model' if k == 'machine_model' else k
        if prop not in setters:
            bail(f'PassData.update: reserved key {k!r} has no translatable property setter')
        f, side = setters[prop]
        if side:
            bail(f'PassData.update: setter of {prop} has side effects on {side}')
        written[f] = f
    return reserved, written


# --------------------------------------------------------------------------
# update_error_mul: arithmetic expression over {self.error, error, literals, + - *}
# --------------------------------------------------------------------------

def translate_error_mul(cls):
    fn = method(cls, 'update_error_mul')
    args = [a.arg for a in fn.args.args]
    if args != ['self', 'error']:
        bail('PassData.update_error_mul: unexpected signature', fn)
    body = strip_doc(fn.body)
    if len(body) != 1 or not isinstance(body[0], ast.Assign) or len(body[0].targets) != 1 \
            or self_attr(body[0].targets[0]) != 'error':
        bail('PassData.update_error_mul: body is not `self.error = <expr>`', fn)

    def tr(e):
        if isinstance(e, ast.Constant) and isinstance(e.value, int) and not isinstance(e.value, bool):
            return f'(inject_Z {e.value})' if e.value >= 0 else f'(inject_Z ({e.value}))'
        if isinstance(e, ast.Name) and e.id == 'error':
            return 's'
        if self_attr(e) in ('error', '_error'):
            return 'e'
        if isinstance(e, ast.BinOp) and isinstance(e.op, (ast.Add, ast.Sub, ast.Mult)):
            op = {ast.Add: '+', ast.Sub: '-', ast.Mult: '*'}[type(e.op)]
            return f'({tr(e.left)} {op} {tr(e.right)})'
        if isinstance(e, ast.UnaryOp) and isinstance(e.op, ast.USub):
            return f'(- {tr(e.operand)})'
        bail('PassData.update_error_mul: unsupported expression ' + type(e).__name__, e)
    return tr(body[0].value)


# --------------------------------------------------------------------------
# analysis
# --------------------------------------------------------------------------

def analyse(repo: Path | None = None) -> dict:
    repo = Path(repo or vf.REPO)
    pd_src = (repo / 'bqskit/compiler/passdata.py').read_text()
    ci_src = (repo / 'bqskit/ir/circuit.py').read_text()
    un_src = (repo / 'bqskit/qis/unitary/unitary.py').read_text()
    pd = class_def(ast.parse(pd_src), 'PassData')
    ci = class_def(ast.parse(ci_src), 'Circuit')
    un = class_def(ast.parse(un_src), 'Unitary')

    res = {}
    # ---- PassData
    fields, exprs = init_fields(pd)
    getters = property_getters([pd], fields)
    setters = setter_fields(pd)
    deep, shallow, default_deep = translate_become(pd, fields, getters)
    cp, cp_form = translate_copy(pd, fields, getters, exprs)
    reserved, upd = translate_update(pd, fields, setters)
    res['PassData'] = dict(
        prefix='pd', record='passdata', ctor='mkPD', fields=fields, become_deep=deep, become_shallow=shallow,
        become_default_deep=default_deep, copy=cp, copy_form=cp_form, reserved=reserved, update=upd,
        error_mul=translate_error_mul(pd), getters=getters,
        setters={k: v[0] for k, v in setters.items()},
    )
    # ---- Circuit
    cfields, cexprs = init_fields(ci)
    cgetters = property_getters([ci, un], cfields)
    cdeep, cshallow, cdefault = translate_become(ci, cfields, cgetters)
    ccp, ccp_form = translate_copy(ci, cfields, cgetters, cexprs)
    creset = translate_clear(ci, cfields, cexprs)
    res['Circuit'] = dict(
        prefix='cf', record='circuitf', ctor='mkCF', fields=cfields, become_deep=cdeep, become_shallow=cshallow,
        become_default_deep=cdefault, copy=ccp, copy_form=ccp_form, clear=creset, getters=cgetters,
    )
    for d in res.values():
        fs = d['fields']
        d['become_deep_missing'] = [f for f in fs if d['become_deep'].get(f) != f]
        d['become_shallow_missing'] = [f for f in fs if d['become_shallow'].get(f) != f]
        d['become_missing'] = [f for f in fs if f in d['become_deep_missing'] or f in d['become_shallow_missing']]
        d['copy_missing'] = [f for f in fs if d['copy'].get(f) != f]
    return res


# --------------------------------------------------------------------------
# Coq emission
# --------------------------------------------------------------------------

def coq_name(prefix, f):
    return prefix + f          # '_target' -> 'pd_target'


def strlist(xs):
    return '[' + '; '.join('"%s"' % x for x in xs) + ']'


def emit_fun(d, name, mapping, doc):
    """record-valued function: field f := (src field) of other if mapping has f else f of self"""
    p = d['prefix']
    lines = [f'(* {doc} *)',
             f'Definition {p}_{name} {{V : Type}} (self other : {d["record"]} V) : {d["record"]} V :=', '  {|']
    for f in d['fields']:
        if f in mapping:
            lines.append(f'    {coq_name(p, f)} := {coq_name(p, mapping[f])} other;')
        else:
            lines.append(f'    {coq_name(p, f)} := {coq_name(p, f)} self;   (* NOT ASSIGNED by the method *)')
    lines.append('  |}.')
    return lines


def emit(d, cls_name, src_rel) -> str:
    p, rec, ctor, fs = d['prefix'], d['record'], d['ctor'], d['fields']
    L = []
    A = L.append
    A(f'(* GENERATED by harness/gen/gen_fields.py from {src_rel} ({cls_name}) - DO NOT EDIT.')
    A('   One record field per `self._x` assigned in __init__; become/copy/... translated from the')
    A('   method bodies: a field is taken from `other` only where the body assigns it from `other`. *)')
    A('From Coq Require Import List String Bool QArith.')
    A('Import ListNotations.')
    A('Open Scope string_scope.')
    A('')
    A(f'Record {rec} (V : Type) : Type := {ctor} {{')
    for f in fs:
        A(f'  {coq_name(p, f)} : V;')
    A('}.')
    A(f'Arguments {ctor} {{V}}.')
    for f in fs:
        A(f'Arguments {coq_name(p, f)} {{V}}.')
    A('')
    A(f'Definition {p}_fields : list string := {strlist(fs)}.')
    A('')
    A('(* field-name independent construction / update (hand-written code never uses the positional constructor) *)')
    A(f'Definition {p}_const {{V : Type}} (d : V) : {rec} V := {ctor} ' + ' '.join('d' for _ in fs) + '.')
    for f in fs:
        A(f'Definition {p}_set{f} {{V : Type}} (x : V) (r : {rec} V) : {rec} V :=')
        A('  {| ' + ' '.join(f'{coq_name(p, g)} := ' + ('x;' if g == f else f'{coq_name(p, g)} r;') for g in fs) + ' |}.')
    A('')
    L += emit_fun(d, 'become_deep', d['become_deep'], f'{cls_name}.become(other, deepcopy=True)')
    A('')
    L += emit_fun(d, 'become_shallow', d['become_shallow'], f'{cls_name}.become(other, deepcopy=False)')
    A('')
    dflt = 'deep' if d['become_default_deep'] else 'shallow'
    A(f'(* the call `x.become(y)` uses the default deepcopy={d["become_default_deep"]} *)')
    A(f'Definition {p}_become {{V : Type}} (self other : {rec} V) : {rec} V := {p}_become_{dflt} self other.')
    A('')
    A(f'(* {cls_name}.copy(): {d["copy_form"]} *)')
    A(f'Definition {p}_copy {{V : Type}} (self : {rec} V) : {rec} V :=')
    A('  {|')
    for f in fs:
        if f in d['copy']:
            A(f'    {coq_name(p, f)} := {coq_name(p, d["copy"][f])} self;')
        else:
            bail(f'{cls_name}.copy leaves {f} at a fresh constructor value - not expressible')
    A('  |}.')
    A('')
    A(f'Definition {p}_become_missing : list string := {strlist(d["become_missing"])}.')
    A(f'Definition {p}_copy_missing : list string := {strlist(d["copy_missing"])}.')
    tot = not d['become_missing']
    A(f'Definition {p}_become_is_total : bool := {"true" if tot else "false"}.')
    A('')
    A(f'Definition {p}_become_total_stmt : Prop :=')
    A(f'  forall (V : Type) (s o : {rec} V), {p}_become_deep s o = o /\\ {p}_become_shallow s o = o.')
    A(f'Definition {p}_copy_total_stmt : Prop := forall (V : Type) (o : {rec} V), {p}_copy o = o.')
    A('')
    if not d['copy_missing']:
        A(f'Theorem {p}_copy_total : {p}_copy_total_stmt.')
        A('Proof. intros V o; destruct o; reflexivity. Qed.')
    else:
        A(f'Theorem {p}_copy_refuted : ~ {p}_copy_total_stmt.')
        A(f'Proof. intro H. specialize (H bool ({ctor} ' + ' '.join('true' for _ in fs) + ')). discriminate H. Qed.')
    A('')
    if tot:
        A(f'Theorem {p}_become_total : {p}_become_total_stmt.')
        A('Proof. intros V s o; destruct o; split; reflexivity. Qed.')
        A('')
        A(f'Theorem {p}_become_verdict :')
        A(f'  if {p}_become_is_total then {p}_become_total_stmt')
        A(f'  else exists s o : {rec} bool, {p}_become s o <> o.')
        A(f'Proof. exact {p}_become_total. Qed.')
    else:
        wit_s = f'({ctor} ' + ' '.join('false' for _ in fs) + ')'
        wit_o = f'({ctor} ' + ' '.join('true' for _ in fs) + ')'
        A(f'(* become does not copy: {", ".join(d["become_missing"])} *)')
        A(f'Definition {p}_wit_s : {rec} bool := {wit_s}.')
        A(f'Definition {p}_wit_o : {rec} bool := {wit_o}.')
        for br in ('deep', 'shallow'):
            miss = d[f'become_{br}_missing']
            if not miss:
                A(f'Theorem {p}_become_{br}_total : forall (V : Type) (s o : {rec} V), {p}_become_{br} s o = o.')
                A('Proof. intros V s o; destruct o; reflexivity. Qed.')
                continue
            cond = ' /\\ '.join(f'{coq_name(p, f)} s = {coq_name(p, f)} o' for f in miss)
            A(f'Theorem {p}_become_{br}_iff : forall (V : Type) (s o : {rec} V),')
            A(f'  {p}_become_{br} s o = o <-> ({cond}).')
            A(f'Proof. intros V s o; destruct s, o; unfold {p}_become_{br}; simpl; split.')
            A('  - intro H; injection H; intros; subst; repeat split; reflexivity.')
            A('  - intro H; decompose [and] H; subst; reflexivity.')
            A('Qed.')
        A(f'Theorem {p}_become_witness : {p}_become {p}_wit_s {p}_wit_o <> {p}_wit_o.')
        A('Proof. discriminate. Qed.')
        A(f'Theorem {p}_become_refuted : ~ {p}_become_total_stmt.')
        A(f'Proof. intro H. destruct (H bool {p}_wit_s {p}_wit_o) as [H1 H2].')
        A(f'  first [discriminate H1 | discriminate H2]. Qed.')
        A('')
        A(f'Theorem {p}_become_verdict :')
        A(f'  if {p}_become_is_total then {p}_become_total_stmt')
        A(f'  else exists s o : {rec} bool, {p}_become s o <> o.')
        A(f'Proof. exists {p}_wit_s, {p}_wit_o. exact {p}_become_witness. Qed.')
    A('')
    # property-level aliases (names used by DESIGN / coq/props)
    cn = 'C16_' + cls_name.lower()
    if not d['copy_missing']:
        A(f'Theorem {cn}_copy_total : {p}_copy_total_stmt.  Proof. exact {p}_copy_total. Qed.')
    else:
        A(f'Theorem {cn}_copy_refuted : ~ {p}_copy_total_stmt.  Proof. exact {p}_copy_refuted. Qed.')
    if tot:
        A(f'Theorem {cn}_become_total : {p}_become_total_stmt.  Proof. exact {p}_become_total. Qed.')
    else:
        A(f'Theorem {cn}_become_refuted : ~ {p}_become_total_stmt.  Proof. exact {p}_become_refuted. Qed.')
    A('')
    if 'update' in d:
        A(f'(* PassData.update(other: PassData): reserved keys {", ".join(d["reserved"])} are routed through')
        A('   __setitem__ -> property setter (target: direct field copy); every user key of other._data is')
        A('   stored with _data.__setitem__, i.e. `merge` = dict update of self._data by other._data. *)')
        A(f'Definition {p}_update {{V : Type}} (merge : V -> V -> V) (self other : {rec} V) : {rec} V :=')
        A('  {|')
        for f in fs:
            if f in d['update']:
                A(f'    {coq_name(p, f)} := {coq_name(p, f)} other;')
            elif f == '_data':
                A(f'    {coq_name(p, f)} := merge ({coq_name(p, f)} self) ({coq_name(p, f)} other);')
            else:
                A(f'    {coq_name(p, f)} := {coq_name(p, f)} self;   (* NOT WRITTEN by update *)')
        A('  |}.')
        um = [f for f in fs if f not in d['update'] and f != '_data']
        A(f'Definition {p}_update_missing : list string := {strlist(um)}.')
        if not um:
            A(f'Theorem {p}_update_total : forall (V : Type) (merge : V -> V -> V) (s o : {rec} V),')
            A(f'  {p}_update merge s o = {p}_copy_with_data o (merge ({p}_data s) ({p}_data o)).')
            A('Proof. intros; reflexivity. Qed.')
        A('')
    if 'error_mul' in d:
        A('(* PassData.update_error_mul: e = self.error, s = the argument *)')
        A(f'Definition {p}_update_error_mul (e s : Q) : Q := {d["error_mul"]}.')
        A('')
    if 'clear' in d:
        A(f'(* {cls_name}.clear(): these fields are reset to the expression __init__ gives them;')
        A('   `fresh` stands for the freshly constructed object with the same constructor arguments. *)')
        A(f'Definition {p}_clear {{V : Type}} (fresh self : {rec} V) : {rec} V :=')
        A('  {|')
        for f in fs:
            who = 'fresh' if f in d['clear'] else 'self'
            A(f'    {coq_name(p, f)} := {coq_name(p, f)} {who};')
        A('  |}.')
        A(f'Definition {p}_clear_kept : list string := {strlist([f for f in fs if f not in d["clear"]])}.')
        kept = [f for f in fs if f not in d['clear']]
        cond = ' -> '.join(f'{coq_name(p, f)} fresh = {coq_name(p, f)} self' for f in kept)
        A(f'Theorem {p}_clear_is_fresh : forall (V : Type) (fresh self : {rec} V),')
        A(f'  {cond + " -> " if kept else ""}{p}_clear fresh self = fresh.')
        A('Proof. intros V fresh self; destruct fresh, self; unfold ' + f'{p}_clear; simpl; intros; subst; reflexivity. Qed.')
        A('')
    return '\n'.join(L) + '\n'


def patch_update_helper(text: str, d) -> str:
    """insert the helper `x_copy_with_data` before the update definition (keeps emit() linear)"""
    p, rec, fs = d['prefix'], d['record'], d['fields']
    helper = [f'Definition {p}_copy_with_data {{V : Type}} (o : {rec} V) (dat : V) : {rec} V :=', '  {|']
    for f in fs:
        helper.append(f'    {coq_name(p, f)} := ' + ('dat;' if f == '_data' else f'{coq_name(p, f)} o;'))
    helper.append('  |}.')
    marker = f'(* PassData.update(other: PassData)'
    return text.replace(marker, '\n'.join(helper) + '\n\n' + marker, 1)


def main() -> int:
    try:
        res = analyse()
        pd_text = patch_update_helper(emit(res['PassData'], 'PassData', 'bqskit/compiler/passdata.py'), res['PassData'])
        cf_text = emit(res['Circuit'], 'Circuit', 'bqskit/ir/circuit.py (+ qis/unitary/unitary.py getters)')
    except Untranslatable as e:
        print(f'gen_fields: cannot translate: {e}', file=sys.stderr)
        return 2
    vf.write_if_changed(vf.COQ / 'gen' / 'PassDataFields.v', pd_text)
    vf.write_if_changed(vf.COQ / 'gen' / 'CircuitFields.v', cf_text)
    return 0


if __name__ == '__main__':
    sys.exit(main())
