#!/usr/bin/env python
"""gen_sched: fail-closed translator  /repo/bqskit/runtime/{base,manager,detached,worker}.py
  ->  coq/gen/SchedArith.v   (consumed by C15, cited by C07 through rt/Routing.v).

The straight-line integer / list code of the scheduler bookkeeping is read with
Python's `ast` and re-emitted as Gallina functions over Z, lists and options
(prelude: coq/rt/SchedPre.v).  Anything outside the statement / expression
subset below aborts the translation (exit 1): the tie is then *broken*, never
silently skipped.

Statements: docstring, `x = e`, `obj.f = e`, `x += e`, `x -= e`, `if/else`,
  `if x is None: ...return` (becomes a match), `return`, `raise`, `assert`,
  `continue` (loop-body mode), `lst.append(e)`, `self.outgoing.put((dest, RuntimeMessage.K, payload))`,
  `self.schedule_tasks(e)`, `self.update_upstream_idle_workers()`, `self.send_result_down(result)`,
  `v = <employee>.get_num_of_tasks_sent_since(e)` (call of a translated method, state threaded),
  `for i, pat in enumerate(seq): if c: ...return` (first-match search; becomes a Fixpoint).
Expressions: int constants, names, attribute chains declared as parameters,
  + - * // ** (constant), unary -, not, and/or, min max len sum list int cast, generator
  `sum(e for pat in seq)`, comparisons (chained, is None / is not None), slices `l[a:]`, `l[:b]`,
  index `l[i]` (IndexError hoisted), tuples, conditional expression, `self.is_my_worker(e)`.
"""
from __future__ import annotations

import ast
import sys
from pathlib import Path

sys.path.insert(0, str(Path(__file__).resolve().parent.parent))
import vf  # noqa: E402

RT = vf.REPO / 'bqskit' / 'runtime'
OUT = vf.COQ / 'gen' / 'SchedArith.v'


class Abort(Exception):
    pass


# ---------------------------------------------------------------- types
Z, B, T, E, RES, RMSG = 'Z', 'bool', 'T', 'E', 'Res', 'rmsg'


def L(t):
    return ('list', t)


def O(t):
    return ('option', t)


def P(*ts):
    return ('prod', tuple(ts))


def ty(t) -> str:
    if isinstance(t, str):
        return {'Res': 'unit'}.get(t, t)
    if t[0] == 'list':
        return f'(list {ty(t[1])})'
    if t[0] == 'option':
        return f'(option {ty(t[1])})'
    if t[0] == 'prod':
        return '(' + ' * '.join(ty(x) for x in t[1]) + ')'
    if t[0] == 'action':
        return '(action T)'
    raise Abort(f'type {t}')


ACT = ('action',)
KEYWORDS = {'end', 'in', 'at', 'as', 'if', 'then', 'else', 'fun', 'let', 'match', 'with', 'return', 'for',
            'fix', 'cofix', 'forall', 'exists', 'Set', 'Prop', 'Type', 'where', 'using', 'e', 'l', 'le', 'lt'}
SENDER = '$sender'        # self.conn_to_employee_dict[conn]
COMPLETER = '$completer'  # self.get_employee_responsible_for(result.completed_by)
EXN = {'RuntimeError', 'AssertionError', 'IndexError'}


def ident(py: str) -> str:
    s = py.replace('$', '').replace('.', '_').replace('(', '_').replace(')', '')
    if s in KEYWORDS or s.startswith('_'):
        s = 'v_' + s
    return s


def load(name: str) -> ast.Module:
    return ast.parse((RT / name).read_text(), filename=name)


def find_func(mod: ast.Module, cls: str | None, name: str) -> ast.FunctionDef:
    body = mod.body
    if cls is not None:
        cs = [n for n in body if isinstance(n, ast.ClassDef) and n.name == cls]
        if len(cs) != 1:
            raise Abort(f'class {cls} not found exactly once')
        body = cs[0].body
    fs = [n for n in body if isinstance(n, ast.FunctionDef) and n.name == name]
    if len(fs) != 1:
        raise Abort(f'function {cls}.{name} not found exactly once')
    return fs[0]


def un(n) -> str:
    return ast.unparse(n)


def strip_doc(stmts):
    if stmts and isinstance(stmts[0], ast.Expr) and isinstance(stmts[0].value, ast.Constant) \
            and isinstance(stmts[0].value.value, str):
        return stmts[1:]
    return stmts


# ---------------------------------------------------------------- translator
class Fn:
    """One generated Gallina function."""

    def __init__(self, gname, params, outputs=(), ret=None, accessors=None, tyvars=(), loop_body=False,
                 aliases=None, doc='', pure=False):
        self.gname, self.outputs, self.ret = gname, list(outputs), ret
        self.params = list(params)
        self.accessors = dict(accessors or {})     # attr -> (object type, result type)
        self.tyvars = list(tyvars)
        self.loop_body = loop_body
        self.pure = pure                           # no exception possible: plain result type, no Ok/Raise
        self.aliases = dict(aliases or {})         # python local name -> canonical object key
        self.doc = doc
        self.env: dict[str, tuple[str, object]] = {}
        self.tuples: dict[str, ast.Tuple] = {}
        self.aux: list[str] = []
        self.n = 0
        for py, t in self.params:
            self.env[py] = (ident(py), t)
        for o in self.outputs:
            if o not in self.env:
                raise Abort(f'{gname}: output {o} is not a parameter')

    # -- names ---------------------------------------------------------
    def key(self, n) -> str | None:
        if isinstance(n, ast.Name):
            return self.aliases.get(n.id, n.id)
        if isinstance(n, ast.Attribute):
            k = self.key(n.value)
            return None if k is None else k + '.' + n.attr
        if isinstance(n, ast.Subscript) and un(n) == 'self.conn_to_employee_dict[conn]':
            return SENDER
        if isinstance(n, ast.Call) and un(n) == 'self.get_employee_responsible_for(result.completed_by)':
            return COMPLETER
        return None

    def fresh(self, base='x') -> str:
        self.n += 1
        return f'{base}{self.n}_h'

    def rtype(self) -> str:
        ts = [self.env[o][1] for o in self.outputs] + ([self.ret] if self.ret is not None else [])
        if not ts:
            return 'unit'
        return ty(P(*ts)) if len(ts) > 1 else ty(ts[0])

    def finish(self, retterm) -> str:
        if (self.ret is None) != (retterm is None):
            raise Abort(f'{self.gname}: return value does not match the declared result')
        vs = [self.env[o][0] for o in self.outputs] + ([retterm] if retterm is not None else [])
        ok = '' if self.pure else 'Ok '
        if not vs:
            return ok + 'tt'
        return ok + '(' + ', '.join(vs) + ')' if len(vs) > 1 else ok + vs[0]

    # -- expressions -----------------------------------------------------
    def ex(self, n, hoist: list) -> tuple[str, object]:
        if isinstance(n, ast.Constant):
            if isinstance(n.value, bool) or not isinstance(n.value, int):
                raise Abort(f'constant {n.value!r} (line {n.lineno})')
            return (str(n.value) if n.value >= 0 else f'({n.value})'), Z
        if isinstance(n, (ast.Name, ast.Attribute)):
            k = self.key(n)
            if k is not None and k.startswith('RuntimeMessage.'):
                return 'M_' + k.split('.', 1)[1], RMSG
            if k in self.env:
                return self.env[k]
            if isinstance(n, ast.Name) and n.id in self.tuples:
                return self.ex(self.tuples[n.id], hoist)
            if isinstance(n, ast.Attribute) and n.attr in self.accessors:
                base, bt = self.ex(n.value, hoist)
                ot, rt = self.accessors[n.attr]
                if bt != ot:
                    raise Abort(f'accessor .{n.attr} on {bt} (line {n.lineno})')
                return f'({n.attr} {base})', rt
            raise Abort(f'unknown name {un(n)} (line {n.lineno})')
        if isinstance(n, ast.BinOp):
            a, ta = self.ex(n.left, hoist)
            b, tb = self.ex(n.right, hoist)
            if ta != Z or tb != Z:
                raise Abort(f'arithmetic on non-integers: {un(n)} (line {n.lineno})')
            if isinstance(n.op, ast.Pow):
                if not (isinstance(n.left, ast.Constant) and isinstance(n.right, ast.Constant)):
                    raise Abort(f'** on non-constants (line {n.lineno})')
                return f'({a} ^ {b})', Z
            ops = {ast.Add: '+', ast.Sub: '-', ast.Mult: '*', ast.FloorDiv: '/'}
            if type(n.op) not in ops:
                raise Abort(f'operator {type(n.op).__name__} (line {n.lineno})')
            return f'({a} {ops[type(n.op)]} {b})', Z
        if isinstance(n, ast.UnaryOp):
            a, ta = self.ex(n.operand, hoist)
            if isinstance(n.op, ast.USub) and ta == Z:
                return f'(- {a})', Z
            if isinstance(n.op, ast.Not) and ta == B:
                return f'(negb {a})', B
            raise Abort(f'unary {un(n)} (line {n.lineno})')
        if isinstance(n, ast.BoolOp):
            parts = [self.ex(v, hoist) for v in n.values]
            if any(t != B for _, t in parts):
                raise Abort(f'and/or on non-booleans (line {n.lineno})')
            op = ' && ' if isinstance(n.op, ast.And) else ' || '
            return '(' + op.join(p for p, _ in parts) + ')', B
        if isinstance(n, ast.IfExp):
            c, tc = self.ex(n.test, hoist)
            a, ta = self.ex(n.body, hoist)
            b, tb = self.ex(n.orelse, hoist)
            if tc != B or ta != tb:
                raise Abort(f'conditional expression types (line {n.lineno})')
            return f'(if {c} then {a} else {b})', ta
        if isinstance(n, ast.Compare):
            terms = [n.left] + list(n.comparators)
            out = []
            for op, x, y in zip(n.ops, terms, terms[1:]):
                if isinstance(op, (ast.Is, ast.IsNot)):
                    if not (isinstance(y, ast.Constant) and y.value is None):
                        raise Abort(f'`is` only against None (line {n.lineno})')
                    a, ta = self.ex(x, hoist)
                    if not (isinstance(ta, tuple) and ta[0] == 'option'):
                        raise Abort(f'`is None` on a non-optional (line {n.lineno})')
                    out.append(f'(is_none {a})' if isinstance(op, ast.Is) else f'(negb (is_none {a}))')
                    continue
                a, ta = self.ex(x, hoist)
                b, tb = self.ex(y, hoist)
                if ta != Z or tb != Z:
                    raise Abort(f'comparison of non-integers: {un(n)} (line {n.lineno})')
                fm = {ast.Eq: '({a} =? {b})', ast.NotEq: '(negb ({a} =? {b}))', ast.Lt: '({a} <? {b})',
                      ast.LtE: '({a} <=? {b})', ast.Gt: '({b} <? {a})', ast.GtE: '({b} <=? {a})'}
                if type(op) not in fm:
                    raise Abort(f'comparison {type(op).__name__} (line {n.lineno})')
                out.append(fm[type(op)].format(a=a, b=b))
            return ('(' + ' && '.join(out) + ')' if len(out) > 1 else out[0]), B
        if isinstance(n, ast.Tuple):
            parts = [self.ex(v, hoist) for v in n.elts]
            return '(' + ', '.join(p for p, _ in parts) + ')', P(*[t for _, t in parts])
        if isinstance(n, ast.Subscript):
            x, tx = self.ex(n.value, hoist)
            if not (isinstance(tx, tuple) and tx[0] == 'list'):
                raise Abort(f'subscript of a non-list: {un(n)} (line {n.lineno})')
            s = n.slice
            if isinstance(s, ast.Slice):
                if s.step is not None or (s.lower is None) == (s.upper is None):
                    raise Abort(f'slice form {un(n)} (line {n.lineno})')
                i, ti = self.ex(s.lower if s.lower is not None else s.upper, hoist)
                if ti != Z:
                    raise Abort(f'slice bound type (line {n.lineno})')
                return f'({"py_from" if s.lower is not None else "py_to"} {i} {x})', tx
            i, ti = self.ex(s, hoist)
            if ti != Z:
                raise Abort(f'index type (line {n.lineno})')
            v = self.fresh('it')
            hoist.append((v, f'py_idx {x} {i}'))
            return v, tx[1]
        if isinstance(n, ast.Call):
            if un(n) in self.env:                       # e.g. len(self.employees) declared as an integer parameter
                return self.env[un(n)]
            f = un(n.func)
            if n.keywords:
                raise Abort(f'keyword arguments (line {n.lineno})')
            if f in ('min', 'max') and len(n.args) == 2:
                a, ta = self.ex(n.args[0], hoist)
                b, tb = self.ex(n.args[1], hoist)
                if ta != Z or tb != Z:
                    raise Abort(f'{f} of non-integers (line {n.lineno})')
                return f'(Z.{f} {a} {b})', Z
            if f == 'len' and len(n.args) == 1:
                a, ta = self.ex(n.args[0], hoist)
                if not (isinstance(ta, tuple) and ta[0] == 'list'):
                    raise Abort(f'len of a non-list (line {n.lineno})')
                return f'(zlen {a})', Z
            if f in ('list', 'int') and len(n.args) == 1:
                return self.ex(n.args[0], hoist)
            if f == 'cast' and len(n.args) == 2:
                return self.ex(n.args[1], hoist)
            if f == 'sum' and len(n.args) == 1:
                g = n.args[0]
                if isinstance(g, ast.GeneratorExp):
                    if len(g.generators) != 1 or g.generators[0].ifs or g.generators[0].is_async:
                        raise Abort(f'generator form (line {n.lineno})')
                    it, tit = self.ex(g.generators[0].iter, hoist)
                    if not (isinstance(tit, tuple) and tit[0] == 'list'):
                        raise Abort(f'generator over a non-list (line {n.lineno})')
                    saved = dict(self.env)
                    pat = self.pattern(g.generators[0].target, tit[1])
                    inner: list = []
                    elt, te = self.ex(g.elt, inner)
                    self.env = saved
                    if inner or te != Z:
                        raise Abort(f'generator element (line {n.lineno})')
                    return f'(sumZ (map (fun {pat} => {elt}) {it}))', Z
                a, ta = self.ex(g, hoist)
                if ta != L(Z):
                    raise Abort(f'sum of a non-integer list (line {n.lineno})')
                return f'(sumZ {a})', Z
            if f == 'self.is_my_worker' and len(n.args) == 1:
                a, ta = self.ex(n.args[0], hoist)
                need = ['self.lower_id_bound', 'self.step_size', 'len(self.employees)']
                if ta != Z or any(k not in self.env for k in need):
                    raise Abort(f'is_my_worker call context (line {n.lineno})')
                return '(is_my_worker ' + ' '.join(self.env[k][0] for k in need) + f' {a})', B
            raise Abort(f'call {un(n)} (line {n.lineno})')
        raise Abort(f'expression {type(n).__name__}: {un(n)} (line {getattr(n, "lineno", "?")})')

    def pattern(self, target, t) -> str:
        """Bind the names of a for/generator target of element type t; returns the Gallina pattern."""
        if isinstance(target, ast.Name):
            if target.id == '_':
                return '_'
            self.env[target.id] = (ident(target.id), t)
            return ident(target.id)
        if isinstance(target, ast.Tuple) and isinstance(t, tuple) and t[0] == 'prod' and len(t[1]) == len(target.elts):
            return "'(" + ', '.join(self.pattern(e, u).lstrip("'") for e, u in zip(target.elts, t[1])) + ')'
        raise Abort(f'loop target {un(target)} against element type {t}')

    # -- statements ------------------------------------------------------
    @staticmethod
    def terminal(stmts) -> bool:
        if not stmts:
            return False
        s = stmts[-1]
        if isinstance(s, (ast.Return, ast.Raise, ast.Continue)):
            return True
        if isinstance(s, ast.If):
            return Fn.terminal(s.body) and Fn.terminal(s.orelse)
        return False

    def wrap(self, hoist, term) -> str:
        if hoist and self.pure:
            raise Abort(f'{self.gname}: partial operation in a function declared exception-free')
        for v, t in reversed(hoist):
            term = f'bind ({t}) (fun {v} => {term})'
        return term

    def payload(self, n, hoist) -> str:
        if isinstance(n, ast.Name) and n.id in self.tuples:
            n = self.tuples[n.id]
        if isinstance(n, ast.Tuple) and len(n.elts) == 2:
            a, ta = self.ex(n.elts[0], hoist)
            b, tb = self.ex(n.elts[1], hoist)
            if ta == Z and tb == O(Z):
                return f'(PWait {a} {b})'
            raise Abort(f'payload tuple {un(n)}')
        a, ta = self.ex(n, hoist)
        if ta == Z:
            return f'(PInt {a})'
        if ta == L(T):
            return f'(PTasks {a})'
        if ta == RES:
            return 'PRes'
        raise Abort(f'payload {un(n)} of type {ta}')

    def forget_self_state(self):
        """After an opaque call that mutates the node, integer fields of self read earlier are stale."""
        for k in list(self.env):
            if k.startswith('self.') and self.env[k][1] == Z and k not in ('self.upstream',):
                del self.env[k]

    def blk(self, stmts) -> str:
        stmts = list(stmts)
        if not stmts:
            if self.ret is not None:
                raise Abort(f'{self.gname}: falls off the end without a return value')
            return self.finish(None)
        s, rest = stmts[0], stmts[1:]
        ln = getattr(s, 'lineno', '?')
        hoist: list = []
        if isinstance(s, ast.Expr) and isinstance(s.value, ast.Constant) and isinstance(s.value.value, str):
            return self.blk(rest)
        if isinstance(s, ast.Return):
            if s.value is None:
                return self.finish(None)
            a, ta = self.ex(s.value, hoist)
            if ta != self.ret:
                raise Abort(f'{self.gname}: return type {ta} != declared {self.ret} (line {ln})')
            return self.wrap(hoist, self.finish(a))
        if isinstance(s, ast.Continue):
            if not self.loop_body:
                raise Abort(f'continue outside a loop body (line {ln})')
            return self.finish(None)
        if isinstance(s, ast.Raise):
            name = un(s.exc.func) if isinstance(s.exc, ast.Call) else un(s.exc) if s.exc is not None else '?'
            if name not in EXN or self.pure:
                raise Abort(f'raise {name} (line {ln})')
            return f'Raise {name}'
        if isinstance(s, ast.Assert):
            c, tc = self.ex(s.test, hoist)
            if tc != B or self.pure:
                raise Abort(f'assert of a non-boolean / in an exception-free function (line {ln})')
            return self.wrap(hoist, f'if {c} then {self.blk(rest)} else Raise AssertionError')
        if isinstance(s, ast.Assign):
            if len(s.targets) != 1:
                raise Abort(f'multiple assignment targets (line {ln})')
            tg = s.targets[0]
            if isinstance(tg, ast.Name) and un(s.value) == 'self.conn_to_employee_dict[conn]':
                self.aliases[tg.id] = SENDER
                return self.blk(rest)
            if isinstance(tg, ast.Name) and isinstance(s.value, ast.Tuple):
                self.tuples[tg.id] = s.value
                return self.blk(rest)
            k = self.key(tg)
            if k is None:
                raise Abort(f'assignment target {un(tg)} (line {ln})')
            v = s.value
            if isinstance(v, ast.Call) and isinstance(v.func, ast.Attribute) \
                    and v.func.attr == 'get_num_of_tasks_sent_since' and len(v.args) == 1 and not v.keywords:
                obj = self.key(v.func.value)
                ck = f'{obj}.submit_cache'
                if obj is None or ck not in self.env:
                    raise Abort(f'call context of get_num_of_tasks_sent_since (line {ln})')
                a, ta = self.ex(v.args[0], hoist)
                if ta != O(Z):
                    raise Abort(f'read receipt type (line {ln})')
                cv = self.env[ck][0]
                self.env[k] = (ident(k), Z)
                return self.wrap(hoist, f"bind (get_num_of_tasks_sent_since {cv} {a}) (fun '({cv}, {ident(k)}) =>\n    {self.blk(rest)})")
            a, ta = self.ex(v, hoist)
            if k in self.env and self.env[k][1] != ta:
                raise Abort(f'{k} changes type (line {ln})')
            if k not in self.env and not isinstance(tg, ast.Name):
                raise Abort(f'assignment to undeclared field {k} (line {ln})')
            self.env[k] = (ident(k), ta)
            return self.wrap(hoist, f'let {ident(k)} := {a} in\n    {self.blk(rest)}')
        if isinstance(s, ast.AugAssign):
            k = self.key(s.target)
            if k is None or k not in self.env or self.env[k][1] != Z:
                raise Abort(f'augmented assignment target {un(s.target)} (line {ln})')
            if not isinstance(s.op, (ast.Add, ast.Sub)):
                raise Abort(f'augmented operator (line {ln})')
            a, ta = self.ex(s.value, hoist)
            if ta != Z:
                raise Abort(f'augmented assignment of a non-integer (line {ln})')
            v = self.env[k][0]
            op = '+' if isinstance(s.op, ast.Add) else '-'
            return self.wrap(hoist, f'let {v} := ({v} {op} {a}) in\n    {self.blk(rest)}')
        if isinstance(s, ast.If):
            t = s.test
            if isinstance(t, ast.Compare) and len(t.ops) == 1 and isinstance(t.ops[0], ast.Is) \
                    and isinstance(t.comparators[0], ast.Constant) and t.comparators[0].value is None \
                    and self.key(t.left) in self.env and self.terminal(s.body) and not s.orelse:
                k = self.key(t.left)
                v, tv = self.env[k]
                if not (isinstance(tv, tuple) and tv[0] == 'option'):
                    raise Abort(f'`is None` on a non-optional (line {ln})')
                saved = dict(self.env)
                a = self.blk(s.body)
                self.env = dict(saved)
                self.env[k] = (v, tv[1])
                b = self.blk(rest)
                self.env = saved
                return f'match {v} with\n    | None => {a}\n    | Some {v} => {b}\n    end'
            c, tc = self.ex(t, hoist)
            if tc != B:
                raise Abort(f'if on a non-boolean (line {ln})')
            saved, st = dict(self.env), dict(self.tuples)
            a = self.blk(s.body if self.terminal(s.body) else s.body + rest)
            self.env, self.tuples = dict(saved), dict(st)
            b = self.blk(s.orelse if self.terminal(s.orelse) else list(s.orelse) + rest)
            self.env, self.tuples = saved, st
            return self.wrap(hoist, f'if {c}\n    then ({a})\n    else ({b})')
        if isinstance(s, ast.Expr) and isinstance(s.value, ast.Call):
            c = s.value
            f = un(c.func)
            if c.keywords:
                raise Abort(f'keyword arguments (line {ln})')
            if f == 'self.outgoing.put' and len(c.args) == 1:
                m = c.args[0]
                if isinstance(m, ast.Name) and m.id in self.tuples:
                    m = self.tuples[m.id]
                if not (isinstance(m, ast.Tuple) and len(m.elts) == 3):
                    raise Abort(f'outgoing.put argument (line {ln})')
                d, td = self.ex(m.elts[0], hoist)
                k, tk = self.ex(m.elts[1], hoist)
                if td != Z or tk != RMSG:
                    raise Abort(f'outgoing.put destination / kind (line {ln})')
                act = f'APut {d} {k} {self.payload(m.elts[2], hoist)}'
            elif f == 'self.schedule_tasks' and len(c.args) == 1:
                a, ta = self.ex(c.args[0], hoist)
                if ta != L(T):
                    raise Abort(f'schedule_tasks argument (line {ln})')
                act = f'ASchedule {a}'
            elif f == 'self.update_upstream_idle_workers' and not c.args:
                act = 'AUpdateUpstream'
            elif f == 'self.send_result_down' and len(c.args) == 1 and self.ex(c.args[0], hoist)[1] == RES:
                act = 'ASendResultDown'
            elif isinstance(c.func, ast.Attribute) and c.func.attr == 'append' and len(c.args) == 1:
                k = self.key(c.func.value)
                if k is None or k not in self.env or self.env[k][1][0] != 'list':
                    raise Abort(f'append target (line {ln})')
                a, ta = self.ex(c.args[0], hoist)
                if ta != self.env[k][1][1]:
                    raise Abort(f'append element type {ta} (line {ln})')
                v = self.env[k][0]
                return self.wrap(hoist, f'let {v} := ({v} ++ [{a}]) in\n    {self.blk(rest)}')
            else:
                raise Abort(f'call statement {un(c)} (line {ln})')
            if 'out' not in self.env or self.env['out'][1] != L(ACT):
                raise Abort(f'{self.gname}: effect without an `out` parameter (line {ln})')
            if not act.startswith('APut'):
                self.forget_self_state()
            return self.wrap(hoist, f'let out := (out ++ [{act}]) in\n    {self.blk(rest)}')
        if isinstance(s, ast.For):
            return self.first_match(s, rest)
        raise Abort(f'statement {type(s).__name__} (line {ln}): {un(s).splitlines()[0]}')

    def first_match(self, s: ast.For, rest) -> str:
        ln = s.lineno
        if s.orelse or not (isinstance(s.iter, ast.Call) and un(s.iter.func) == 'enumerate' and len(s.iter.args) == 1):
            raise Abort(f'for loop form (line {ln})')
        if not (isinstance(s.target, ast.Tuple) and len(s.target.elts) == 2 and isinstance(s.target.elts[0], ast.Name)):
            raise Abort(f'for target (line {ln})')
        body = strip_doc(s.body)
        if not (len(body) == 1 and isinstance(body[0], ast.If) and not body[0].orelse and self.terminal(body[0].body)):
            raise Abort(f'for body must be a single `if c: ... return` (line {ln})')
        hoist: list = []
        seq, tseq = self.ex(s.iter.args[0], hoist)
        if hoist or not (isinstance(tseq, tuple) and tseq[0] == 'list'):
            raise Abort(f'for sequence (line {ln})')
        pars = []
        for k, (v, t) in self.env.items():
            if v not in [p for p, _ in pars]:
                pars.append((v, t))
        name = f'{self.gname}_loop{len(self.aux) + 1}'
        base = self.blk(rest)
        saved = dict(self.env)
        iv = s.target.elts[0].id
        self.env[iv] = (ident(iv), Z)
        pat = self.pattern(s.target.elts[1], tseq[1]).lstrip("'")
        c, tc = self.ex(body[0].test, hoist)
        if hoist or tc != B:
            raise Abort(f'for-if test (line {ln})')
        then = self.blk(body[0].body)
        self.env = saved
        sig = ' '.join(f'({v} : {ty(t)})' for v, t in pars)
        args = ' '.join(v for v, _ in pars)
        self.aux.append(
            f'Fixpoint {name} {self.binders()}{sig} ({ident(iv)} : Z) (l_rest : list {ty(tseq[1])}) {{struct l_rest}} : res {self.rtype()} :=\n'
            f'  match l_rest with\n  | [] => {base}\n  | {pat} :: l_rest =>\n    if {c}\n    then ({then})\n'
            f'    else {name} {self.binder_args()}{args} ({ident(iv)} + 1) l_rest\n  end.')
        return f'({name} {self.binder_args()}{args} 0 {seq})'

    def binders(self) -> str:
        s = ''.join(f'{{{v} : Type}} ' for v in self.tyvars)
        for a, (ot, rt) in self.accessors.items():
            s += f'({a} : {ty(ot)} -> {ty(rt)}) '
        return s

    def binder_args(self) -> str:
        return ''.join(f'{a} ' for a in self.accessors)

    def definition(self, stmts) -> str:
        body = self.blk(strip_doc(list(stmts)))
        sig = ' '.join(f'({ident(p)} : {ty(t)})' for p, t in self.params)
        d = f'Definition {self.gname} {self.binders()}{sig} : {"" if self.pure else "res "}{self.rtype()} :=\n    {body}.'
        head = f'(* {self.doc} *)\n' if self.doc else ''
        return head + '\n'.join(self.aux + [d])

    def expr_def(self, node, want=None) -> str:
        hoist: list = []
        a, ta = self.ex(node, hoist)
        if hoist:
            raise Abort(f'{self.gname}: partial operation in a picked expression')
        if want is not None and ta != want:
            raise Abort(f'{self.gname}: type {ta}, expected {want}')
        sig = ' '.join(f'({ident(p)} : {ty(t)})' for p, t in self.params)
        head = f'(* {self.doc} *)\n' if self.doc else ''
        return head + f'Definition {self.gname} {self.binders()}{sig} : {ty(ta)} :=\n    {a}.'


# ---------------------------------------------------------------- locating code
def pick_assign(fn: ast.FunctionDef, target: str, exclude=()) -> ast.expr:
    hits = [n for n in ast.walk(fn) if isinstance(n, ast.Assign) and len(n.targets) == 1
            and un(n.targets[0]) == target and un(n.value) not in exclude]
    if len(hits) != 1:
        raise Abort(f'{fn.name}: expected exactly one assignment to {target}, found {len(hits)}')
    return hits[0].value


def pick_if(fn: ast.FunctionDef, body_starts: str) -> ast.If:
    hits = [n for n in ast.walk(fn) if isinstance(n, ast.If) and un(strip_doc(n.body)[0]).startswith(body_starts)]
    if len(hits) != 1:
        raise Abort(f'{fn.name}: expected exactly one `if` whose body starts with {body_starts!r}, found {len(hits)}')
    return hits[0]


def pick_branch(fn: ast.FunctionDef, test: str, under: str | None = None) -> ast.If:
    """The `if/elif` whose test unparses to `test` (inside the `if` whose test is `under`, if given)."""
    roots = [fn]
    if under is not None:
        roots = [n for n in ast.walk(fn) if isinstance(n, ast.If) and un(n.test) == under]
        if len(roots) != 1:
            raise Abort(f'{fn.name}: branch {under!r} not found exactly once')
        roots = roots[0].body
    hits = [n for r in roots for n in ast.walk(r) if isinstance(n, ast.If) and un(n.test) == test]
    if len(hits) != 1:
        raise Abort(f'{fn.name}: branch {test!r} not found exactly once ({len(hits)})')
    return hits[0]


def pick_for(fn: ast.FunctionDef, pred) -> ast.For:
    hits = [n for n in ast.walk(fn) if isinstance(n, ast.For) and pred(n)]
    if len(hits) != 1:
        raise Abort(f'{fn.name}: expected exactly one matching for loop, found {len(hits)}')
    return hits[0]


def require(fn, text: str, count: int = 1, where=None):
    """Shape check: a statement that unparses to `text` occurs exactly `count` times."""
    root = where if where is not None else fn
    nodes = root if isinstance(root, list) else [root]
    hits = [n for r in nodes for n in ast.walk(r) if isinstance(n, ast.stmt) and un(n).split('\n')[0] == text]
    if len(hits) != count:
        raise Abort(f'{fn.name}: expected {count} statement(s) `{text}`, found {len(hits)}')


# ---------------------------------------------------------------- the generated file
def generate() -> str:
    base, manager, detached, worker = load('base.py'), load('manager.py'), load('detached.py'), load('worker.py')
    CACHE = L(P(Z, Z))
    out: list[str] = []

    # ---- RuntimeEmployee.get_num_of_tasks_sent_since
    f = find_func(base, 'RuntimeEmployee', 'get_num_of_tasks_sent_since')
    out.append(Fn('get_num_of_tasks_sent_since', [('self.submit_cache', CACHE), ('read_receipt', O(Z))],
                  outputs=['self.submit_cache'], ret=Z,
                  doc='base.py RuntimeEmployee.get_num_of_tasks_sent_since: (new submit_cache, count); Raise RuntimeError = receipt not found').definition(f.body))

    # ---- ServerBase.handle_waiting (whole method; the employee is the sender of the message)
    f = find_func(base, 'ServerBase', 'handle_waiting')
    out.append(Fn('handle_waiting', [
        (SENDER + '.submit_cache', CACHE), (SENDER + '.num_idle_workers', Z), ('self.num_idle_workers', Z),
        ('self.total_workers', Z), ('new_idle_count', Z), ('read_receipt', O(Z))],
        outputs=[SENDER + '.submit_cache', SENDER + '.num_idle_workers', 'self.num_idle_workers'],
        doc='base.py ServerBase.handle_waiting: (employee.submit_cache, employee.num_idle_workers, self.num_idle_workers)').definition(f.body))

    # ---- routing
    f = find_func(base, 'ServerBase', 'is_my_worker')
    out.append(Fn('is_my_worker', [('self.lower_id_bound', Z), ('self.step_size', Z), ('len(self.employees)', Z), ('worker_id', Z)],
                  ret=B, pure=True, doc='base.py ServerBase.is_my_worker').definition(f.body))
    f = find_func(base, 'ServerBase', 'get_employee_responsible_for')
    out.append(Fn('get_employee_responsible_for', [('self.lower_id_bound', Z), ('self.step_size', Z), ('self.employees', L(E)), ('worker_id', Z)],
                  ret=E, tyvars=['E'], doc='base.py ServerBase.get_employee_responsible_for (Python indexing: negative wraps, IndexError outside)').definition(f.body))

    f = find_func(base, 'ServerBase', '__init__')
    out.append(Fn('server_lower_id_bound', [], doc='base.py ServerBase.__init__').expr_def(pick_assign(f, 'self.lower_id_bound'), Z))
    out.append(Fn('server_upper_id_bound', []).expr_def(pick_assign(f, 'self.upper_id_bound'), Z))

    f = find_func(base, 'ServerBase', 'connect_to_managers')
    if un(pick_assign(f, 'd')) != 'len(ipports)':
        raise Abort('connect_to_managers: d is not len(ipports)')
    loop = pick_for(f, lambda n: any(isinstance(m, ast.Assign) and un(m.targets[0]) == 'lb' for m in ast.walk(n)))
    if un(loop.target) != '(i, (ip, port))' or un(loop.iter) != 'enumerate(ipports)':
        raise Abort('connect_to_managers: manager loop is not `for i, (ip, port) in enumerate(ipports)`')
    require(f, 'manager_conns.append(self.connect_to_manager(ip, port, lb, ub))', where=loop)
    require(find_func(base, 'ServerBase', 'connect_to_manager'), 'conn.send((RuntimeMessage.CONNECT, (lb, ub)))')
    mi = find_func(manager, 'Manager', '__init__')
    require(mi, 'self.lower_id_bound = payload[0]')
    require(mi, 'self.upper_id_bound = payload[1]')
    require(f, 'self.employees.append(RuntimeEmployee(i, conn, num_workers, is_manager=True))')
    out.append(Fn('ctm_step_size', [('self.lower_id_bound', Z), ('self.upper_id_bound', Z), ('d', Z)],
                  doc='base.py connect_to_managers: step_size, and the (lb, ub) range handed to manager i').expr_def(pick_assign(f, 'self.step_size'), Z))
    out.append(Fn('ctm_lb', [('self.lower_id_bound', Z), ('self.step_size', Z), ('i', Z)]).expr_def(pick_assign(f, 'lb'), Z))
    out.append(Fn('ctm_ub', [('self.lower_id_bound', Z), ('self.upper_id_bound', Z), ('self.step_size', Z), ('i', Z)]).expr_def(pick_assign(f, 'ub'), Z))

    for nm, short in (('spawn_workers', 'sw'), ('connect_to_workers', 'cw')):
        f = find_func(base, 'ServerBase', nm)
        g = pick_if(f, "raise RuntimeError('Insufficient id range for workers.')")
        out.append(Fn(f'{short}_insufficient', [('self.lower_id_bound', Z), ('self.upper_id_bound', Z), ('num_workers', Z)],
                      doc=f'base.py {nm}: id-range guard, id of worker i, step_size').expr_def(g.test, B))
        wl = pick_for(f, lambda n: any(isinstance(m, ast.Assign) and un(m.targets[0]) == 'w_id' and un(m.value) != 'employee.id'
                                       for m in ast.walk(n)))
        if nm == 'spawn_workers':
            if un(wl.target) != 'i' or un(wl.iter) != 'range(num_workers)':
                raise Abort('spawn_workers: worker loop is not `for i in range(num_workers)`')
            require(f, 'temp_reorder[w_id - self.lower_id_bound] = employee')
            require(f, 'self.employees.append(temp_reorder[i])')
            require(f, 'employee = RuntimeEmployee(w_id, conn, 1, procs[w_id])')
        else:
            if un(wl.target) != '(i, conn)' or un(wl.iter) != 'enumerate(conns)' or \
                    un(pick_assign(f, 'conns')) != '[listener.accept() for _ in range(num_workers)]':
                raise Abort('connect_to_workers: worker loop is not over enumerate(conns) of num_workers connections')
            require(f, 'employee = RuntimeEmployee(w_id, conn, 1)')
            require(f, 'self.employees.append(employee)')
        out.append(Fn(f'{short}_w_id', [('self.lower_id_bound', Z), ('i', Z)]).expr_def(pick_assign(f, 'w_id', exclude=('employee.id',)), Z))
        out.append(Fn(f'{short}_step_size', []).expr_def(pick_assign(f, 'self.step_size'), Z))
        require(f, 'self.total_workers = num_workers')
        require(f, 'self.num_idle_workers = num_workers')

    # ---- assign_tasks: idle-first split
    f = find_func(base, 'ServerBase', 'assign_tasks')
    zl = pick_for(f, lambda n: un(n.iter).startswith('zip('))
    if un(zl.iter) != 'zip(idle_id_repeated_list, tasks)' or un(zl.target) != '(idle_employee_id, task)':
        raise Abort('assign_tasks: idle loop is not `for idle_employee_id, task in zip(idle_id_repeated_list, tasks)`')
    require(f, 'assignments[idle_employee_id].append(task)', where=zl)
    require(f, 'assignments[employee_id].append(remaining_tasks.pop())')
    require(f, 'random.shuffle(idle_id_repeated_list)')
    out.append(Fn('assign_num_remaining', [('tasks', L(T)), ('idle_id_repeated_list', L(Z))], tyvars=['T'],
                  doc='base.py assign_tasks: tasks left after the idle-first zip, early-return test, the slice given to the least-loaded loop'
                  ).expr_def(pick_assign(f, 'num_remaining_tasks'), Z))
    out.append(Fn('assign_no_remaining', [('num_remaining_tasks', Z)]).expr_def(pick_if(f, 'return assignments').test, B))
    out.append(Fn('assign_remaining_tasks', [('tasks', L(T)), ('num_remaining_tasks', Z)], tyvars=['T']).expr_def(pick_assign(f, 'remaining_tasks'), L(T)))

    # ---- schedule_tasks: per-employee bookkeeping (loop body), guards, final sum
    f = find_func(base, 'ServerBase', 'schedule_tasks')
    sl = pick_for(f, lambda n: True)
    if not (isinstance(sl.target, ast.Tuple) and len(sl.target.elts) == 2 and all(isinstance(x, ast.Name) for x in sl.target.elts)):
        raise Abort('schedule_tasks: loop target')
    en, an = (x.id for x in sl.target.elts)
    if un(sl.iter) != 'sorted_assignments' or \
            un(pick_assign(f, 'sorted_assignments')) != 'sorted(assignments, key=lambda x: x[0].num_idle_workers, reverse=True)' or \
            un(pick_assign(f, 'assignments')) != 'zip(self.employees, self.assign_tasks(tasks))':
        raise Abort('schedule_tasks: loop is not over the employees zipped with assign_tasks, sorted by idle count')
    out.append(Fn('schedule_body', [(f'{en}.conn', Z), (f'{en}.num_tasks', Z), (f'{en}.num_idle_workers', Z), (f'{en}.submit_cache', CACHE),
                                    (an, L(T)), ('out', L(ACT))],
                  outputs=[f'{en}.num_tasks', f'{en}.num_idle_workers', f'{en}.submit_cache', 'out'],
                  accessors={'unique_id': (T, Z)}, tyvars=['T'], loop_body=True,
                  doc='base.py schedule_tasks: body of the per-employee loop').definition(sl.body))
    out.append(Fn('schedule_nothing', [('tasks', L(T))], tyvars=['T']).expr_def(pick_if(f, 'return').test, B))
    out.append(Fn('schedule_total_idle', [('self.employees', L(E))], accessors={'num_idle_workers': (E, Z)}, tyvars=['E']
                  ).expr_def(pick_assign(f, 'self.num_idle_workers'), Z))

    # ---- send_result_down (shape only: uses the two routing functions above)
    f = find_func(base, 'ServerBase', 'send_result_down')
    for t in ('dest_worker_id = result.return_address.worker_id', 'if not self.is_my_worker(dest_worker_id):',
              'employee = self.get_employee_responsible_for(dest_worker_id)',
              'self.outgoing.put((employee.conn, RuntimeMessage.RESULT, result))'):
        require(f, t)

    # ---- Manager
    f = find_func(manager, 'Manager', 'send_up_or_schedule_tasks')
    out.append(Fn('send_up_or_schedule_tasks', [('self.num_idle_workers', Z), ('self.upstream', Z), ('tasks', L(T)), ('out', L(ACT))],
                  outputs=['out'], tyvars=['T'], doc='manager.py Manager.send_up_or_schedule_tasks: effects in program order').definition(f.body))
    f = find_func(manager, 'Manager', 'update_upstream_idle_workers')
    out.append(Fn('update_upstream_idle_workers', [('self.num_idle_workers', Z), ('self.last_num_idle_sent_up', Z),
                                                   ('self.most_recent_read_submit', O(Z)), ('self.upstream', Z), ('out', L(ACT))],
                  outputs=['self.last_num_idle_sent_up', 'out'], tyvars=['T'],
                  doc='manager.py Manager.update_upstream_idle_workers').definition(f.body))
    f = find_func(manager, 'Manager', 'handle_update')
    out.append(Fn('manager_handle_update', [(SENDER + '.num_tasks', Z), ('task_diff', Z), ('self.upstream', Z), ('out', L(ACT))],
                  outputs=[SENDER + '.num_tasks', 'out'], tyvars=['T'], doc='manager.py Manager.handle_update').definition(f.body))
    f = find_func(manager, 'Manager', 'handle_result_from_below')
    out.append(Fn('manager_handle_result_from_below', [
        (COMPLETER + '.num_tasks', Z), ('self.lower_id_bound', Z), ('self.step_size', Z), ('len(self.employees)', Z),
        ('result.return_address.worker_id', Z), ('result', RES), ('self.upstream', Z), ('out', L(ACT))],
        outputs=[COMPLETER + '.num_tasks', 'out'], tyvars=['T'], doc='manager.py Manager.handle_result_from_below').definition(f.body))
    f = find_func(manager, 'Manager', 'handle_message')
    above, below = 'direction == MessageDirection.ABOVE', 'direction == MessageDirection.BELOW'
    b = pick_branch(f, 'msg == RuntimeMessage.SUBMIT_BATCH', under=above)
    for t in ('self.most_recent_read_submit = rtasks[0].unique_id', 'self.schedule_tasks(rtasks)'):
        require(f, t, where=b.body)
    b = pick_branch(f, 'msg == RuntimeMessage.SUBMIT', under=above)
    for t in ('self.most_recent_read_submit = rtask.unique_id', 'self.schedule_tasks([rtask])'):
        require(f, t, where=b.body)
    b = pick_branch(f, 'msg == RuntimeMessage.WAITING', under=below)
    for t in ('num_idle, read_receipt = p', 'self.handle_waiting(conn, num_idle, read_receipt)', 'self.update_upstream_idle_workers()'):
        require(f, t, where=b.body)
    require(f, 'self.handle_update(conn, task_diff)', where=pick_branch(f, 'msg == RuntimeMessage.UPDATE', under=below).body)
    require(f, 'self.send_up_or_schedule_tasks(rtasks)', where=pick_branch(f, 'msg == RuntimeMessage.SUBMIT_BATCH', under=below).body)
    require(f, 'self.send_up_or_schedule_tasks([rtask])', where=pick_branch(f, 'msg == RuntimeMessage.SUBMIT', under=below).body)

    # ---- DetachedServer (AttachedServer inherits these handlers)
    f = find_func(detached, 'DetachedServer', 'handle_message')
    b = pick_branch(f, 'msg == RuntimeMessage.UPDATE', under=below)
    out.append(Fn('server_handle_update', [(SENDER + '.num_tasks', Z), ('payload', Z)], outputs=[SENDER + '.num_tasks'],
                  doc='detached.py DetachedServer.handle_message, UPDATE from below').definition(b.body))
    b = pick_branch(f, 'msg == RuntimeMessage.WAITING', under=below)
    for t in ('num_idle, read_receipt = p', 'self.handle_waiting(conn, num_idle, read_receipt)'):
        require(f, t, where=b.body)
    require(f, 'self.schedule_tasks(rtasks)', where=pick_branch(f, 'msg == RuntimeMessage.SUBMIT_BATCH', under=below).body)
    require(f, 'self.schedule_tasks([rtask])', where=pick_branch(f, 'msg == RuntimeMessage.SUBMIT', under=below).body)
    require(f, 'self.handle_result(result)', where=pick_branch(f, 'msg == RuntimeMessage.RESULT', under=below).body)
    require(f, 'self.broadcast(msg, payload)', where=pick_branch(f, 'msg == RuntimeMessage.CANCEL', under=below).body)
    f = find_func(detached, 'DetachedServer', 'handle_result')
    first = strip_doc(f.body)[0]
    out.append(Fn('server_handle_result_count', [(COMPLETER + '.num_tasks', Z)], outputs=[COMPLETER + '.num_tasks'],
                  doc='detached.py DetachedServer.handle_result: first statement (completion bookkeeping)').definition([first]))
    br = strip_doc(f.body)[1]
    if not (isinstance(br, ast.If) and un(br.test) == 'result.return_address.worker_id == -1' and un(br.orelse[0]) == 'self.send_result_down(result)'
            and len(strip_doc(f.body)) == 2):
        raise Abort('handle_result: client / send_result_down split')
    f = find_func(detached, 'DetachedServer', 'handle_new_comp_task')
    require(f, 'self.schedule_tasks([internal_task])')
    f = find_func(detached, 'DetachedServer', 'handle_cancel_comp_task')
    require(f, 'self.broadcast(RuntimeMessage.CANCEL, addr)')
    f = find_func(base, 'ServerBase', 'broadcast')
    require(f, 'self.outgoing.put((employee.conn, msg, payload))', where=pick_for(f, lambda n: un(n.iter) == 'self.employees' and un(n.target) == 'employee'))

    # ---- Worker: what the abstract worker of rt/Sched.v assumes (shape checks only)
    f = find_func(worker, 'Worker', '_get_next_ready_task')
    require(f, 'payload = (1, self.most_recent_read_submit)')
    require(f, 'self._conn.send((RuntimeMessage.WAITING, payload))')
    f = find_func(worker, 'Worker', 'recv_incoming')
    require(f, 'self.most_recent_read_submit = tasks[0].unique_id')
    require(f, 'self.most_recent_read_submit = task.unique_id')
    f = find_func(worker, 'Worker', '_process_task_completion')
    require(f, 'self._conn.send((RuntimeMessage.UPDATE, -1))')
    require(f, 'self._conn.send((RuntimeMessage.RESULT, packaged_result))')
    require(f, 'packaged_result = RuntimeResult(task.return_address, result, self._id)')

    head = ('(* GENERATED by harness/gen/gen_sched.py from bqskit/runtime/{base,manager,detached,worker}.py.\n'
            '   Do not edit: regenerated (and diffed) on every check. *)\n'
            'From Coq Require Import ZArith List Bool.\nFrom BQ Require Import rt.SchedPre.\n'
            'Import ListNotations.\nOpen Scope Z_scope.\nOpen Scope bool_scope.\n')
    return head + '\n' + '\n\n'.join(out) + '\n'


def main() -> int:
    try:
        text = generate()
    except Abort as e:
        print(f'gen_sched: ABORT: {e}', file=sys.stderr)
        return 1
    except (OSError, SyntaxError) as e:
        print(f'gen_sched: ABORT: cannot read source: {e}', file=sys.stderr)
        return 1
    vf.write_if_changed(OUT, text)
    return 0


if __name__ == '__main__':
    sys.exit(main())
