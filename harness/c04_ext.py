"""C04 extensions: ties of coq/circuit/CExt.v (unfold_all fixpoint, fold tail) to /repo.

Stream `unfold_all_fix`: circuits with CircuitGates nested up to depth 3.  On the real Circuit: unfold_all(); the
extracted fuel-free model (`unfold_all` = depth+1 passes, C04_unfold_all_terminates) must give the same grid, the
model's nesting depth must be the real nesting depth, wf_circ (premise of C04_unfold_all) must hold, and the
specification list `full_expand` of the theorem, restricted to every qudit, must be the real result's timeline.
Oracle on the implementation: no CircuitGate is left and the timelines are the recursively unfolded timelines of the
pre-state (independent Python recursion `cc.UTL`).

Stream `fold_tail`: dense circuits + regions (surround / staggered / random).  On the real Circuit: straighten(region)
-> (c1, r1); then the two last statements of fold on the real object (batch_pop(r1.points); insert_circuit(min_cycle,
popped, sorted keys, True)); their result must be the result of the real fold (C04_fold_x_is_straighten_then_tail on
the code), the extracted `fold_tail` must agree, the premise `tail_ok` of the C04_fold_tail_* theorems must hold on
the real (c1, r1), and the theorems' conclusions are evaluated on the real snapshots by an independent computation:
on every qudit  TL(post) = TL(c1[:m]) + [block] + (c1[m:] without the region's operations),
TL(c1) = TL(c1[:m]) + popped + the same rest, the block's inner circuit shows the popped operations renumbered,
and the real unfold of the block restores every timeline of c1 (unfold o fold_tail = id on timelines).
"""
from __future__ import annotations

import random

import vf


def _j(x):
    import json
    return json.loads(json.dumps(x, default=str))


def depth_of(cycles) -> int:
    d = 0
    for cy in cycles:
        for o in cy:
            if o[0]:
                d = max(d, 1 + depth_of(o[5]))
    return d


def nested_circuit(rng, cc, max_depth):
    """a circuit whose blocks nest up to max_depth levels (built through the public API)"""
    n = rng.randint(2, 5)
    rads = tuple(rng.choice([2, 2, 2, 3]) for _ in range(n))

    def sub(rs, depth):
        m = len(rs)
        c = cc.Circuit(m, list(rs))
        for _ in range(rng.randint(1, 4)):
            if depth > 0 and rng.random() < 0.55:
                k = rng.randint(1, min(m, 3))
                loc = rng.sample(range(m), k)
                if rng.random() < 0.6:
                    loc = sorted(loc)
                inner = sub(tuple(rs[q] for q in loc), depth - 1)
                if inner.num_operations == 0:
                    continue
                c.append_circuit(inner, loc, True)
            else:
                c.append(cc.op_from_snap(cc.rand_op(rng, m, rs)))
        return c
    return sub(rads, max_depth)


def unfold_all_stream(ctx: vf.Ctx):
    import circ_common as cc
    import circ_run as cr
    rng = random.Random(ctx.seed * 1000003 + 4242)
    n_cases = ctx.n(300, 4000)
    lines, cases = [], []
    for t in range(n_cases):
        try:
            with cr.watchdog(60):
                c = nested_circuit(rng, cc, rng.choice([1, 2, 2, 3, 3]))
                pre = cc.snap(c)
                d = depth_of(pre[2])
                ctx.count(f'unfold_all_fix:depth{d}')
                ctx.case(('unfold_all_fix', pre), nontrivial=d >= 1)
                case = dict(kind='circuit-history', pre=pre, call=('unfold_all',))
                c.unfold_all()
                post = cc.snap(c)
        except cr.HistoryTimeout:
            ctx.violation(dict(call='unfold_all', symptom='hang'), dict(case=t), 'returns', 'no return within 60s', 'unfold_all does not return')
            continue
        # oracle on the implementation (independent recursion)
        if depth_of(post[2]) != 0:
            ctx.violation(dict(call='unfold_all', symptom='block-left'), case, 'no CircuitGate left', _j(post), 'unfold_all left a CircuitGate in the circuit')
        if cc.UTL(pre) != cc.TL(post):
            ctx.violation(dict(call='unfold_all', symptom='structure-only-changed-program'), case, _j(cc.UTL(pre)), _j(cc.TL(post)),
                          'unfold_all is structure-only but the result is not the recursively unfolded program')
        lines += ['set ' + cc.fmt(pre), 'depth', 'wf', 'unfold_all', 'set ' + cc.fmt(pre), 'full_expand',
                  'set ' + cc.fmt(pre), f'unfold_all_fuel {max(d - 1, 0)}']
        cases.append((case, pre, post, d))
    out = vf.run_model('c04x', lines)
    if len(out) != len(lines):
        ctx.broken_obligation('correspondence coq/circuit/CExt.v (unfold_all): wrong number of answers', f'{len(out)} vs {len(lines)}')
        return
    bad = 0
    for j, (case, pre, post, d) in enumerate(cases):
        o = out[8 * j: 8 * j + 8]
        exp = 'U | ' + cc.fmt(post)
        spec = cc.parse_v(o[5])[0]
        spec_tl = [[tuple_deep(x) for x in spec if q in x[2]] for q in range(pre[0])]
        want_tl = [[tuple_deep(x) for x in tl] for tl in cc.TL(post)]
        problems = []
        if o[1] != str(d):
            problems.append(f'depth {o[1]} vs {d}')
        if o[2] != '1':
            problems.append('wf_circ false on a circuit built through the public API')
        if o[3] != exp:
            problems.append('unfold_all (fuel = depth + 1) differs from the real result')
        if spec_tl != want_tl:
            problems.append('full_expand (theorem RHS) differs from the real timelines')
        if d >= 1 and not o[7].startswith('E Fuel'):
            problems.append('fuel depth-1 was enough: circ_depth is not the number of passes')
        if problems:
            bad += 1
            ctx.mismatch('coq/circuit/CExt.v unfold_all/full_expand vs Circuit.unfold_all', _j(case), (' ; '.join(problems) + ' ; ' + o[3])[:2000], exp[:2000])
    ctx.cov['unfold_all_fix_cases'] = len(cases)
    ctx.cov['unfold_all_fix_model_disagreements'] = bad


def tuple_deep(x):
    return tuple(tuple_deep(y) for y in x) if isinstance(x, (list, tuple)) else x


def fold_tail_stream(ctx: vf.Ctx):
    import circ_common as cc
    import circ_run as cr
    from bqskit.ir.region import CircuitRegion
    rng = random.Random(ctx.seed * 1000003 + 9091)
    n_reg = ctx.n(400, 5000)
    two = [g for g, gt in cc.GATES.items() if gt.num_qudits == 2 and gt.radixes == (2, 2)]
    one = [g for g, gt in cc.GATES.items() if gt.num_qudits == 1 and gt.radixes == (2,)]
    lines, cases = [], []
    n_tail = 0

    def one_case(t):
        nonlocal n_tail
        n = rng.randint(3, 6)
        c = cc.Circuit(n)
        for _ in range(rng.randint(5, 22)):
            if rng.random() < 0.7:
                g, loc = rng.choice(two), tuple(rng.sample(range(n), 2))
            else:
                g, loc = rng.choice(one), (rng.randrange(n),)
            c.append(cc.op_from_snap((0, g, loc, cc.rand_params(rng, cc.GATES[g].num_params), tuple(cc.GATES[g].radixes), ())))
        pre = cc.snap(c)
        kind = rng.choice(['surround', 'surround', 'staggered', 'random'])
        region = None
        if kind == 'surround':
            call = cc.gen_fold(rng, c, cc.existing_points(c), True)
            region = call[1] if call[0] == 'fold' else None
        elif kind == 'staggered':
            region = cc.staggered_region(rng, pre)
        if region is None:
            kind = 'random'
            qs = rng.sample(range(n), rng.randint(1, 3))
            reg = []
            for q in qs:
                a = rng.randint(0, c.num_cycles - 1)
                reg.append((q, (a, rng.randint(a, min(c.num_cycles - 1, a + rng.randint(0, 4))))))
            region = tuple(sorted(reg))
        ctx.count('fold_tail:' + kind)
        case = dict(kind='circuit-history', pre=pre, call=('fold', region))
        ctx.case(('fold_tail', pre, region))
        d = c.copy()
        try:
            r1, net, sh = d.straighten(CircuitRegion({q: iv for q, iv in region}))
        except (ValueError, IndexError):
            ctx.count('fold_tail:rejected')
            return
        s1 = cc.snap(d)
        reg1 = tuple((q, (iv.lower, iv.upper)) for q, iv in sorted(r1.items()))
        m = r1.min_cycle
        keys = sorted(r1.keys())
        # the tail of fold, statement by statement, on the real object
        e = d.copy()
        sub = e.batch_pop(r1.points)
        e.insert_circuit(m, sub, keys, True)
        tail_post = cc.snap(e)
        f = c.copy()
        fpt = f.fold(CircuitRegion({q: iv for q, iv in region}))
        post = cc.snap(f)                      # the oracles below judge the REAL fold result
        n_tail += 1
        if tail_post != post:
            ctx.mismatch('Circuit.fold vs straighten + batch_pop + insert_circuit on the real object (C04_fold_x_is_straighten_then_tail)',
                         _j(case), cc.fmt(tail_post)[:2000], cc.fmt(post)[:2000])
        idle = any(not cy for cy in s1[2])
        if idle:
            ctx.count('fold_tail:idle_cycle_after_straighten')   # Inv c1 fails (D6 on an unrepaired tree): the theorem does not apply
        lines.extend(['set ' + cc.fmt(s1), 'tail_ok ' + cc.fmt(reg1), 'tail ' + cc.fmt(reg1)])
        cases.append((case, f'N {m} | {cc.fmt(tail_post)}', idle, s1, reg1))
        # ---- the theorems' conclusions on the real snapshots (independent computation) ----
        inreg = {q: iv for q, iv in reg1}

        def hit(i, o):
            return any(q in inreg and inreg[q][0] <= i <= inreg[q][1] for q in o[2])
        blk = [o for o in post[2][m] if o[0] and sorted(o[2]) == keys] if m < len(post[2]) else []
        if len(blk) != 1 or tuple(fpt) != (m, min(keys)):
            ctx.violation(dict(call='fold', symptom='no-block-at-min-cycle'), case, f'one block on {keys} in cycle {m}', _j(post),
                          'fold did not put one CircuitGate on the sorted region qudits at region.min_cycle')
            return
        blk = blk[0]
        inner_tl = cc.timelines(list(cc.iter_cycles(blk[5])), len(keys))
        bloc = list(blk[2])                    # inner qudit j of the block is circuit qudit bloc[j]
        tl1, tlp = cc.TL(s1), cc.TL(post)
        for q in range(n):
            prefix = [o for i, cy in enumerate(s1[2]) if i < m for o in cc.iter_cycles((cy,)) if q in o[2]]
            popped = [o for i, cy in enumerate(s1[2]) for o in cc.iter_cycles((cy,)) if q in o[2] and hit(i, o)]
            rest = [o for i, cy in enumerate(s1[2]) if i >= m for o in cc.iter_cycles((cy,)) if q in o[2] and not hit(i, o)]
            if tlp[q] != prefix + ([blk] if q in keys else []) + rest:
                ctx.violation(dict(call='fold', symptom='order'), case, _j(prefix + ([blk] if q in keys else []) + rest), _j(tlp[q]),
                              f'fold: qudit {q} is not "before the region, the block, the rest" (C04_fold_tail_replaces)')
                return
            if tl1[q] != prefix + popped + rest:
                ctx.violation(dict(call='fold', symptom='accepted-invalid-region'), case, _j(prefix + popped + rest), _j(tl1[q]),
                              f'fold: on qudit {q} the region operations are interleaved with outside operations (C04_fold_tail_original)')
                return
            if q in keys:
                want = [cc.relabel(o, lambda a: bloc.index(a)) for o in popped]
                if inner_tl[bloc.index(q)] != want:
                    ctx.violation(dict(call='fold', symptom='structure-only-changed-program'), case, _j(want), _j(inner_tl[bloc.index(q)]),
                                  f'fold: the block does not hold the popped operations of qudit {q} in order (C04_fold_tail_block)')
                    return
            elif popped:
                ctx.violation(dict(call='fold', symptom='structure-only-changed-program'), case, [], _j(popped),
                              f'fold: popped an operation on qudit {q} outside the region')
                return
        # unfold o fold_tail = id on timelines, on the real code
        g = f.copy()
        g.unfold(tuple(fpt))
        if cc.TL(cc.snap(g)) != tl1:
            ctx.violation(dict(call='unfold', symptom='structure-only-changed-program'), dict(kind='circuit-history', pre=post, call=('unfold', tuple(fpt))),
                          _j(tl1), _j(cc.TL(cc.snap(g))), 'unfold of the block fold just made does not restore the timelines')

    for t in range(n_reg):
        try:
            with cr.watchdog(60):
                one_case(t)
        except cr.HistoryTimeout:
            ctx.violation(dict(call='fold', symptom='hang'), dict(case=t), 'returns', 'no return within 60s', 'fold_tail stream: a call does not return')
    out = vf.run_model('c04x', lines)
    if len(out) != len(lines):
        ctx.broken_obligation('correspondence coq/circuit/CExt.v (fold_tail): wrong number of answers', f'{len(out)} vs {len(lines)}')
        return
    bad = prem = 0
    for j, (case, impl, idle, s1, reg1) in enumerate(cases):
        ok, got = out[3 * j + 1], out[3 * j + 2]
        if got != impl:
            bad += 1
            ctx.mismatch('coq/circuit/CExt.v fold_tail vs batch_pop + insert_circuit on the real Circuit', _j(dict(c1=s1, r1=reg1, **case)), got[:2000], impl[:2000])
        if ok != '1':
            prem += 1
            ctx.mismatch('premise tail_ok of C04_fold_tail_* is false on a state straighten returned', _j(dict(c1=s1, r1=reg1, **case)), ok, '1')
    ctx.cov['fold_tail_cases'] = n_tail
    ctx.cov['fold_tail_model_disagreements'] = bad
    ctx.cov['fold_tail_premise_false'] = prem


def run(ctx: vf.Ctx):
    unfold_all_stream(ctx)
    fold_tail_stream(ctx)
