"""C13, client side: bqskit/compiler/compiler.py  Compiler.submit/status/result/cancel,
_send, _send_recv, _recv_handle_log_error, _recv_log_error_until_empty
against the extracted model coq/rt/ClientM.v (driver 'client'), plus the property oracle
evaluated on the implementation itself.

scenario (JSON): {"calls": [[kind, k1, k2, pre, post], ...]}
  kind 0 submit | 1 status | 2 result | 3 cancel
  pre  messages arriving before the send, post messages the server sends afterwards
  k1 / k2 number of reads for which conn.poll() is true in the drain / after the first answer
  msg  [0,l] LOG | [1,m] ERROR | [2,v] RESULT | [3,s] STATUS | [4] CANCEL | [5,x] other type | [6] EOF
"""
from __future__ import annotations

import json
import logging
import pickle
import uuid

import vf

from bqskit.ir.circuit import Circuit
from bqskit.compiler.compiler import Compiler
from bqskit.compiler.status import CompilationStatus
from bqskit.runtime.message import RuntimeMessage

BUILD_EXTRACTED = ['client']
LOGGER = 'vfc13client'
KIND = ['submit', 'status', 'result', 'cancel']
OTHER = [RuntimeMessage.READY, RuntimeMessage.STARTED, RuntimeMessage.WAITING, RuntimeMessage.SUBMIT]
SIG_KNOWN = {'call': '_recv_log_error_until_empty', 'symptom': 'pending-log-kills-connection'}
CORPUS = vf.ROOT / 'corpus' / 'C13-client'


class WouldBlock(BaseException):
    """a blocking recv() on an empty pipe (BaseException: passes through `except Exception`)"""


class ResultTag:
    def __init__(self, v):
        self.v = v


EOF = object()


def wire(m):
    t = m[0]
    if t == 0:
        l = m[1]
        if l % 2 == 0:   # exactly what worker.py builds
            rec = logging.LogRecord(LOGGER, logging.INFO, __file__, 1, 'log-%d', (l,), None)
            return (RuntimeMessage.LOG, pickle.dumps(rec))
        return (RuntimeMessage.LOG, pickle.dumps((LOGGER, logging.INFO, f'log-{l}')))   # its fallback
    if t == 1:
        return (RuntimeMessage.ERROR, f'err-{m[1]}')
    if t == 2:
        return (RuntimeMessage.RESULT, ResultTag(m[1]))
    if t == 3:
        return (RuntimeMessage.STATUS, CompilationStatus(m[1] % 3))
    if t == 4:
        return (RuntimeMessage.CANCEL, None)
    if t == 5:
        return (OTHER[m[1] % len(OTHER)], m[1])
    return EOF


class Pipe:
    """fake Connection: FIFO of (abstract msg, wire msg); poll() true for the next `polls` reads"""

    def __init__(self):
        self.q, self.polls, self.sent, self.closed = [], 0, [], False
        self.on_send = None
        self.read = []

    def feed(self, msgs):
        self.q += [(m, wire(m)) for m in msgs]

    def poll(self, *a):
        if self.polls > 0 and self.q:
            self.polls -= 1
            return True
        return False

    def recv(self):
        if not self.q:
            raise WouldBlock()
        m, w = self.q.pop(0)
        self.read.append(m)
        if w is EOF:
            raise EOFError()
        return w

    def send(self, x):
        self.sent.append(x)
        if self.on_send is not None:
            f, self.on_send = self.on_send, None
            f()

    def close(self):
        self.closed = True


class Cap(logging.Handler):
    def __init__(self):
        super().__init__(0)
        self.out = []

    def emit(self, record):
        self.out.append(record.getMessage())


_cap = Cap()
_lg = logging.getLogger(LOGGER)
_lg.setLevel(logging.DEBUG)
_lg.propagate = False
_lg.handlers = [_cap]
_CIRC = None


def make_client():
    c = Compiler.__new__(Compiler)
    c.p = None
    c.conn = Pipe()
    return c, c.conn


def canon_exc(e):
    s = str(e)
    if not isinstance(e, RuntimeError):
        return ['exc', type(e).__name__, s]
    if s == 'Connection unexpectedly none.':
        return ['noconn']
    if s.startswith('Unexpected message type') and e.__cause__ is None:
        return ['unexpected']
    if s == 'Server connection unexpectedly closed.':
        c = e.__cause__
        if c is None:
            c = e.__context__ if isinstance(e.__context__, EOFError) else None
            return ['closed', 'eof'] if c is not None else ['closed', 'nocause']
        if isinstance(c, EOFError):
            return ['closed', 'eof']
        if isinstance(c, AttributeError):
            return ['closed', 'attr']
        if isinstance(c, RuntimeError) and str(c).startswith('err-'):
            return ['err', int(str(c)[4:])]
        if isinstance(c, RuntimeError) and str(c).startswith('Unexpected message type'):
            return ['closed', 'unexp']
        return ['closed', type(c).__name__, str(c)]
    return ['exc', 'RuntimeError', s]


def exec_call(comp, pipe, call):
    """one API call on the real Compiler -> [outcome, logs, open, remaining pipe]"""
    global _CIRC
    kd, k1, k2, pre, post = call
    if comp.conn is not None:     # nothing is delivered to a dropped connection (model: state unchanged)
        pipe.feed(pre)
    pipe.polls = k1
    pipe.read = []

    def on_send():
        pipe.feed(post)
        pipe.polls = k2
    pipe.on_send = on_send
    _cap.out = []
    tid = uuid.UUID(int=7)
    try:
        if kd == 0:
            if _CIRC is None:
                from bqskit.passes.noop import NOOPPass
                _CIRC = (Circuit(1), [NOOPPass()])
            r = comp.submit(_CIRC[0], _CIRC[1])
            out = ['ret', 'submitted'] if isinstance(r, uuid.UUID) else ['ret', 'bad', repr(r)]
        elif kd == 1:
            r = comp.status(tid)
            out = ['ret', 'status', int(r)] if isinstance(r, CompilationStatus) else ['ret', 'bad', repr(r)]
        elif kd == 2:
            r = comp.result(tid)
            out = ['ret', 'result', r.v] if isinstance(r, ResultTag) else ['ret', 'bad', repr(r)]
        else:
            r = comp.cancel(tid)
            out = ['ret', 'true'] if r is True else ['ret', 'bad', repr(r)]
    except WouldBlock:
        out = ['blocks']
    except Exception as e:
        out = canon_exc(e)
    pipe.on_send = None
    logs = []
    for s in _cap.out:
        logs.append(int(s[4:]) if s.startswith('log-') else s)
    return [out, logs, 1 if comp.conn is not None else 0, [m for m, _ in pipe.q]]


def run_impl(sc):
    comp, pipe = make_client()
    return [exec_call(comp, pipe, c) for c in sc['calls']]


def line(fixed, sc):
    def ml(ms):
        return '[' + ' '.join('[' + ' '.join(map(str, m)) + ']' for m in ms) + ']'
    return f'run {fixed} [' + ' '.join(f'[{kd} {k1} {k2} {ml(pre)} {ml(post)}]' for kd, k1, k2, pre, post in sc['calls']) + ']'


def parse_model(s):
    """'[[[ret result 5] [3] 1 []] ...]' -> same shape as run_impl"""
    toks = s.replace('[', ' [ ').replace(']', ' ] ').split()
    pos = 0

    def item():
        nonlocal pos
        t = toks[pos]
        pos += 1
        if t == '[':
            out = []
            while toks[pos] != ']':
                out.append(item())
            pos += 1
            return out
        try:
            return int(t)
        except ValueError:
            return t
    return item()


def models(scs, fixed):
    out = vf.run_model('client', [line(fixed, sc) for sc in scs])
    res = []
    for s in out:
        if s.startswith('EXN') or s == 'BADCMD':
            raise RuntimeError('client model: ' + s)
        res.append(parse_model(s))
    return res


# ---------------------------------------------------------------- property oracle on the implementation

def nlog(ms):
    return [m for m in ms if m[0] != 0]


def stripped_call(pipe_q, call):
    """the same call with every LOG removed and the poll answers counted in non-LOG messages"""
    kd, k1, k2, pre, post = call
    seen = (pipe_q + pre)[:k1]
    k1s = len(nlog(seen))
    rest = (pipe_q + pre)[k1:] + post
    i = 0
    while i < len(rest) and rest[i][0] == 0:
        i += 1
    k2s = len(nlog(rest[i + 1:i + 1 + k2]))
    return [kd, k1s, k2s, nlog(pre), nlog(post)]


def wellformed(sc):
    """round-trip protocol: at most one answer of the right type per request, nothing but LOG/ERROR/EOF otherwise"""
    want = {1: 3, 2: 2, 3: 4}
    for kd, k1, k2, pre, post in sc['calls']:
        if any(m[0] not in (0, 1, 6) for m in pre):
            return False
        ans = [m for m in post if m[0] not in (0, 1, 6)]
        if kd == 0:
            if ans:
                return False
        elif len(ans) > 1 or (ans and ans[0][0] != want[kd]):
            return False
    return True


def oracle(ctx, sc):
    """(a) a returning call returns the payload of its own answer; (b) a consumed ERROR raises RuntimeError
    carrying the message, and nothing is returned afterwards; (c) LOGs never change the outcome: lockstep run
    of the same scenario without LOG messages.  True = clean."""
    comp, pipe = make_client()
    comp2, pipe2 = make_client()
    wf = wellformed(sc)
    dead = False
    lock = True
    for idx, call in enumerate(sc['calls']):
        kd = call[0]
        q_before = [m for m, _ in pipe.q]
        o = exec_call(comp, pipe, call)
        consumed = list(pipe.read)
        errs = [m for m in consumed if m[0] == 1]
        if errs and o[0] != ['err', errs[0][1]]:
            ctx.violation({'call': KIND[kd], 'symptom': 'forwarded-error-not-raised'}, sc, ['err', errs[0][1]], o[0],
                          'an ERROR message was read from the server but the call did not raise RuntimeError with it')
            return False
        if dead and o[0] != ['noconn']:
            ctx.violation({'call': KIND[kd], 'symptom': 'call-after-failure-did-not-raise'}, sc, ['noconn'], o[0],
                          'a call after a connection failure must raise')
            return False
        if o[0][0] == 'ret' and kd != 0 and wf:
            own = [m for m in call[4] if m[0] not in (0, 1, 6)]
            exp = {1: lambda m: ['ret', 'status', m[1] % 3], 2: lambda m: ['ret', 'result', m[1]], 3: lambda m: ['ret', 'true']}
            if not own or o[0] != exp[kd](own[0]):
                ctx.violation({'call': KIND[kd], 'symptom': 'returned-foreign-answer'}, sc, own, o[0],
                              'a call returned something other than the payload of its own answer')
                return False
        if o[0][0] in ('err', 'closed', 'noconn', 'exc'):
            dead = True
            if o[2] != 0:
                ctx.violation({'call': KIND[kd], 'symptom': 'conn-kept-after-failure'}, sc, 0, o[2], 'conn must be None after a failure')
                return False
        if lock:
            c2 = stripped_call(q_before, call)
            o2 = exec_call(comp2, pipe2, c2)
            if (o[0], o[2], nlog(o[3])) != (o2[0], o2[2], o2[3]) or o2[1]:
                drained = (q_before + call[3])[:call[1]]
                if o[0] == ['closed', 'attr'] and any(m[0] == 0 for m in drained):
                    ctx.violation(SIG_KNOWN, sc, o2[0], o[0],
                                  'a LOG message that has already arrived when the client sends its next request makes '
                                  '_recv_log_error_until_empty raise AttributeError (payload is bytes, .name): the connection is '
                                  'dropped and the call fails; without the LOG the same call succeeds')
                else:
                    ctx.violation({'call': KIND[kd], 'symptom': 'log-changes-outcome'}, sc, o2, o,
                                  'the same call sequence with the LOG messages removed behaves differently')
                return False
    return True


# ---------------------------------------------------------------- generator

def gen_msgs(rng, n, plog, tag):
    out = []
    for _ in range(n):
        r = rng.random()
        if r < plog:
            out.append([0, rng.randrange(6)])
        elif r < plog + (1 - plog) * 0.45:
            out.append([1, rng.randrange(4)])
        elif r < plog + (1 - plog) * 0.6:
            out.append([6])
        else:
            out.append(rng.choice([[2, tag], [3, rng.randrange(3)], [4], [5, rng.randrange(4)]]))
    return out


def gen_scenario(rng, ctx=None):
    calls = []
    malformed = rng.random() < 0.15
    for i in range(rng.randint(1, 6)):
        kd = rng.randrange(4)
        tag = 1 + i
        pre = gen_msgs(rng, rng.choice([0, 0, 0, 1, 1, 2]), 0.85 if not malformed else 0.5, tag) if rng.random() < 0.45 else []
        k1 = rng.choice([0, 1, 2, 3])
        post = gen_msgs(rng, rng.choice([0, 0, 1, 2]), 1.0, tag)
        if kd != 0:
            r = rng.random()
            if r < 0.8:
                post.append({1: [3, rng.randrange(3)], 2: [2, tag], 3: [4]}[kd])
            elif r < 0.88:
                post.append([1, rng.randrange(4)])
            elif r < 0.92:
                post.append([6])
            elif r < 0.97:
                post.append(rng.choice([[2, tag], [3, 1], [4], [5, rng.randrange(4)]]))
            # else: nothing -> blocks
        post += gen_msgs(rng, rng.choice([0, 0, 1, 2]), 0.8 if not malformed else 0.4, tag)
        k2 = rng.choice([0, 1, 2, 3])
        calls.append([kd, k1, k2, pre, post])
    return {'calls': calls}


WITNESS = {'calls': [[2, 1, 0, [[0, 2]], [[2, 5]]]]}          # Coq: ClientThm.pending_log_refuted
DIRECTED = [
    WITNESS,
    {'calls': [[2, 1, 0, [[0, 3]], [[2, 5]]]]},                # tuple fallback payload
    {'calls': [[0, 2, 0, [[0, 2], [0, 4]], []], [1, 0, 0, [], [[3, 1]]]]},
    {'calls': [[1, 0, 1, [], [[3, 2], [1, 1]]], [2, 0, 0, [], [[2, 1]]]]},
    {'calls': [[1, 0, 0, [], [[3, 2], [1, 1]]], [2, 1, 0, [], [[2, 1]]]]},
    {'calls': [[2, 0, 2, [], [[0, 1], [0, 2], [2, 9], [0, 4], [0, 6], [3, 1]]], [3, 0, 0, [], [[4]]]]},
    {'calls': [[3, 0, 0, [], [[2, 1]]], [3, 0, 0, [], [[4]]]]},
    {'calls': [[1, 0, 0, [], [[0, 2], [6]]], [1, 0, 0, [], []]]},
    {'calls': [[0, 1, 0, [[6]], []], [0, 0, 0, [], []]]},
    {'calls': [[0, 1, 0, [[5, 1]], []]]},
    {'calls': [[1, 0, 0, [], []], [1, 0, 0, [], [[3, 1]]]]},
]


def detect(ctx, scs, impl, m0, m1):
    a0 = sum(i == m for i, m in zip(impl, m0))
    a1 = sum(i == m for i, m in zip(impl, m1))
    ctx.cov['client_model_agreement'] = {'current': a0, 'fixed': a1, 'of': len(scs)}
    return 'fixed' if a1 >= a0 else 'current'


def check(ctx, scs, tag, mode=None):
    impl = [run_impl(sc) for sc in scs]
    m0, m1 = models(scs, 0), models(scs, 1)
    if mode is None:
        mode = detect(ctx, scs, impl, m0, m1)
    mm = m1 if mode == 'fixed' else m0
    clean = 0
    for sc, i, m in zip(scs, impl, mm):
        ctx.case(('client', tag, sc['calls']), nontrivial=any(c[3] or len(c[4]) > 1 for c in sc['calls']))
        for c in sc['calls']:
            ctx.count('client_' + KIND[c[0]])
        for o in i:
            ctx.count('client_out_' + o[0][0])
        ok = oracle(ctx, sc)
        clean += ok
        if i != m:
            j = next((k for k in range(min(len(i), len(m))) if i[k] != m[k]), 0)
            ctx.violation({'call': KIND[sc['calls'][j][0]], 'symptom': 'client-model-mismatch-' + mode}, sc, m, i,
                          f'Compiler.{KIND[sc["calls"][j][0]]} disagrees with the extracted client model (variant {mode}) at call {j}',
                          kind='correspondence', corr='rt/ClientM.v call/run')
    return mode, clean


def run_client(ctx, fixed_hint=None):
    """corpus + directed + random scenarios; returns the detected variant ('current' | 'fixed')"""
    corpus = []
    if CORPUS.is_dir():
        for f in sorted(CORPUS.glob('*.json')):
            corpus.append(json.loads(f.read_text())['case'])
    first = corpus + [d for d in DIRECTED if d not in corpus]
    mode = fixed_hint
    if mode is None:
        impl = [run_impl(sc) for sc in first]
        mode = detect(ctx, first, impl, models(first, 0), models(first, 1))
    ctx.cov['client_mode'] = mode
    _, c1 = check(ctx, first, 'directed', mode)
    n = ctx.n(400, 6000)
    gen = [gen_scenario(ctx.rng) for _ in range(n)]
    _, c2 = check(ctx, gen, 'gen', mode)
    ctx.count('client_scenarios', len(first) + n)
    ctx.count('client_oracle_clean', c1 + c2)
    return mode


def replay_client(ctx, case):
    if not (isinstance(case, dict) and 'calls' in case):
        return False
    impl = [run_impl(case)]
    mode = detect(ctx, [case], impl, models([case], 0), models([case], 1))
    check(ctx, [case], 'replay', mode)
    return True
