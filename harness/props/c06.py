"""C06 - circuit simulation equals the ordered product of its operations.

Tie: correspondence with EXACT numbers between the extracted Coq model (coq/lib/Tensor.v,
coq/circuit/Sim.v over the Gaussian integers, build/bin/tensor) and the real UnitaryBuilder /
StateVector / Circuit, on gates whose entries are small Gaussian integers (float arithmetic exact,
so results are compared with ==).
Property oracle (independent of the model and of the code's transposes): explicit Kronecker products
with explicit permutation matrices, multiplied in *append* order; gradients against the product rule
computed here and against central finite differences; flat-parameter API mutual consistency;
restricted iteration against a brute-force filter over the grid.
"""
from __future__ import annotations

import hashlib
import itertools
import json
import warnings

import numpy as np

import vf

BUILD = dict(extracted=['tensor', 'citer'], translators=set())

NPROC = 12
MAXD_MODEL = 48          # circuits above this dimension are checked by the oracle only


# =============================================================================== helpers
def fmt(x) -> str:
    if isinstance(x, (list, tuple)):
        return '[' + ' '.join(fmt(y) for y in x) + ']'
    return str(x)


def prod(l):
    r = 1
    for x in l:
        r *= int(x)
    return r


def gi_flat(M) -> list[int]:
    """complex array -> [re im re im ...] ; raises if an entry is not a Gaussian integer"""
    a = np.asarray(M, dtype=np.complex128).reshape(-1)
    re, im = a.real, a.imag
    if not (np.all(re == np.round(re)) and np.all(im == np.round(im))
            and np.all(np.abs(re) < 2 ** 50) and np.all(np.abs(im) < 2 ** 50)):
        raise ValueError('not exact')
    out = []
    for x, y in zip(re, im):
        out.append(int(x))
        out.append(int(y))
    return out


def from_flat(l, shape):
    a = np.array(l, dtype=np.float64).reshape(-1, 2)
    return (a[:, 0] + 1j * a[:, 1]).reshape(shape)


def parse_val(s: str):
    """the model's answer -> nested python lists / atoms"""
    toks = s.replace('[', ' [ ').replace(']', ' ] ').split()
    stack = [[]]
    for t in toks:
        if t == '[':
            stack.append([])
        elif t == ']':
            x = stack.pop()
            stack[-1].append(x)
        else:
            try:
                stack[-1].append(int(t))
            except ValueError:
                stack[-1].append(t)
    return stack[0][0] if len(stack[0]) == 1 else stack[0]


# ---- the textbook oracle: Kronecker product + explicit permutation matrices --------------
def digits(k, radixes):
    d = []
    for r in reversed(radixes):
        d.append(k % r)
        k //= r
    return d[::-1]


def kron_embed(radixes, loc, U):
    """P^T (U (x) I_rest) P with the explicit permutation matrix P that reorders the tensor factors
    from (0..n-1) to (loc..., rest...).  Qudit 0 is the most significant factor."""
    n = len(radixes)
    rest = [q for q in range(n) if q not in loc]
    order = list(loc) + rest
    D = prod(radixes)
    orad = [radixes[q] for q in order]
    P = np.zeros((D, D))
    for b in range(D):
        dg = digits(b, radixes)
        b2 = 0
        for q in order:
            b2 = b2 * radixes[q] + dg[q]
        P[b2, b] = 1.0
    big = np.kron(np.asarray(U, dtype=np.complex128), np.eye(prod([radixes[q] for q in rest])))
    assert prod(orad) == D
    return P.T @ big @ P


# =============================================================================== gates
_GATES = {}


def exact_gate_class():
    """a Gate whose unitary is affine in its parameters with Gaussian-integer matrices
    U(p) = A0 + sum_t p_t A_{t+1}; get_grad = [A1..Ak].  Defined lazily (needs bqskit)."""
    if 'Aff' in _GATES:
        return _GATES['Aff']
    from bqskit.ir.gate import Gate
    from bqskit.qis.unitary.unitarymatrix import UnitaryMatrix

    class AffGate(Gate):
        def __init__(self, radixes, mats):
            self._num_qudits = len(radixes)
            self._radixes = tuple(int(r) for r in radixes)
            self._num_params = len(mats) - 1
            self.mats = [np.array(m, dtype=np.complex128) for m in mats]
            h = hashlib.sha1(repr((self._radixes, [m.tolist() for m in self.mats])).encode()).hexdigest()[:12]
            self._name = 'Aff_' + h
            self.calls = []

        def get_unitary(self, params=[]):
            self.check_parameters(params)
            M = self.mats[0].copy()
            for p, A in zip(params, self.mats[1:]):
                M = M + p * A
            return UnitaryMatrix(M, self._radixes, False)

        def get_grad(self, params=[]):
            self.check_parameters(params)
            d = self.mats[0].shape[0]
            return np.array(self.mats[1:], dtype=np.complex128).reshape((self._num_params, d, d))

        def is_differentiable(self):
            return True

        def __eq__(self, o):
            # by value: deepcopy/pickle (dill) may rebuild the class object itself
            return type(o).__name__ == 'AffGate' and getattr(o, '_name', None) == self._name

        def __hash__(self):
            return hash(self._name)

    _GATES['Aff'] = AffGate
    return AffGate


LIB_EXACT = ['XGate', 'CNOTGate', 'SwapGate', 'ISwapGate', 'CCXGate', 'CSUMGate', 'CPIGate', 'ToffoliGate',
             'MargolusGate', 'IToffoliGate']


_LIB = {}


def lib_gate(name):
    if name not in _LIB:
        import bqskit.ir.gates as G
        try:
            g = getattr(G, name)()
            gi_flat(g.get_unitary().numpy)      # must be exact in floats, else ValueError
            _LIB[name] = g
        except Exception as e:
            _LIB[name] = e
    if isinstance(_LIB[name], Exception):
        raise _LIB[name]
    return _LIB[name]


def rand_monomial(rng, d):
    perm = list(range(d))
    rng.shuffle(perm)
    M = np.zeros((d, d), dtype=np.complex128)
    for r, c in enumerate(perm):
        M[r, c] = rng.choice([1, 1j, -1, -1j])
    return M


def rand_smallint(rng, d):
    M = np.zeros((d, d), dtype=np.complex128)
    for r in range(d):
        for c in range(d):
            if rng.random() < 0.6:
                M[r, c] = rng.randint(-2, 2) + 1j * rng.randint(-1, 1)
    return M


# ---- case generation: a circuit is {radixes, ops}; op = dict(k=..., loc=..., ...) ------------
def gen_ops(rng, radixes, nops, depth, allow_param=True, unitary_only=False):
    n = len(radixes)
    ops = []
    nonmono = 0
    for _ in range(nops):
        a = min(n, rng.choice([1, 1, 2, 2, 2, 3]))
        for _try in range(8):
            loc = rng.sample(range(n), a)
            if prod(radixes[q] for q in loc) <= 16:
                break
        else:
            loc = [rng.randrange(n)]
        lrad = [radixes[q] for q in loc]
        ld = prod(lrad)
        r = rng.random()
        if r < 0.15 and depth > 0 and len(loc) >= 1:
            inner = dict(radixes=lrad, ops=gen_ops(rng, lrad, rng.randint(0, 4), depth - 1, allow_param, unitary_only))
            ops.append(dict(k='block', loc=loc, inner=inner))
            continue
        if r < 0.35:
            cands = []
            for nm in LIB_EXACT:
                try:
                    g = lib_gate(nm)
                except Exception:
                    continue
                if list(g.radixes) == lrad:
                    cands.append(nm)
            if cands:
                ops.append(dict(k='lib', name=rng.choice(cands), loc=loc))
                continue
        if allow_param and r < 0.60:
            k = rng.randint(1, 3)
            mats = [rand_monomial(rng, ld)] + [rand_smallint(rng, ld) if rng.random() < 0.5 else rand_monomial(rng, ld)
                                               for _ in range(k)]
            # unitary_only: U(stored) must be unitary (dagger = inverse): stored parameters are 0, gradients arbitrary
            ops.append(dict(k='aff', loc=loc, radixes=lrad, mats=[gi_flat(m) for m in mats],
                            params=[0] * k if unitary_only else [rng.randint(-2, 2) for _ in range(k)]))
            continue
        if not unitary_only and nonmono < 2 and r < 0.72:
            nonmono += 1
            ops.append(dict(k='aff', loc=loc, radixes=lrad, mats=[gi_flat(rand_smallint(rng, ld))], params=[]))
            continue
        ops.append(dict(k='aff', loc=loc, radixes=lrad, mats=[gi_flat(rand_monomial(rng, ld))], params=[]))
    return ops


def gen_radixes(rng, maxd):
    for _ in range(100):
        w = rng.choice([1, 2, 2, 3, 3, 3, 4, 4, 5, 6])
        rad = [rng.choice([2, 2, 2, 3, 3, 4]) for _ in range(w)]
        if prod(rad) <= maxd:
            return rad
    return [2, 3]


def build_circuit(spec):
    """spec -> (Circuit, list of Operation in append order)"""
    from bqskit.ir.circuit import Circuit
    from bqskit.ir.gates import CircuitGate
    Aff = exact_gate_class()
    c = Circuit(len(spec['radixes']), spec['radixes'])
    for o in spec['ops']:
        if o['k'] == 'lib':
            c.append_gate(lib_gate(o['name']), o['loc'])
        elif o['k'] == 'aff':
            ld = prod(o['radixes'])
            g = Aff(o['radixes'], [from_flat(m, (ld, ld)) for m in o['mats']])
            c.append_gate(g, o['loc'], [float(p) for p in o['params']])
        elif o['k'] == 'block':
            inner = build_circuit(o['inner'])
            c.append_gate(CircuitGate(inner), o['loc'], list(inner.params))
        elif o['k'] == 'real':
            import bqskit.ir.gates as G
            c.append_gate(getattr(G, o['name'])(*o.get('args', [])), o['loc'], o['params'])
        else:
            raise ValueError(o['k'])
    return c


def spec_num_params(spec):
    t = 0
    for o in spec['ops']:
        if o['k'] == 'aff':
            t += len(o['mats']) - 1
        elif o['k'] == 'block':
            t += spec_num_params(o['inner'])
        elif o['k'] == 'real':
            t += len(o['params'])
    return t


# ---- oracle: unitary of a spec by Kronecker products in APPEND order ---------------------
def spec_order(spec):
    """indices of spec['ops'] in the implementation's iteration order (defines the parameter layout)"""
    if '_ord' not in spec:
        spec['_ord'] = iteration_order(build_circuit(spec), spec)
    return spec['_ord']


def strip_derived(x):
    if isinstance(x, dict):
        return {k: strip_derived(v) for k, v in x.items() if k != '_ord'}
    if isinstance(x, list):
        return [strip_derived(v) for v in x]
    return x


def op_matrix(o, params):
    """(matrix, [partial derivative matrices]) of one op of a spec at explicit params
    (for a block: params laid out in the inner circuit's iteration order)"""
    if o['k'] == 'lib':
        return np.array(lib_gate(o['name']).get_unitary().numpy), []
    if o['k'] == 'aff':
        ld = prod(o['radixes'])
        ms = [from_flat(m, (ld, ld)) for m in o['mats']]
        M = ms[0].copy()
        for p, A in zip(params, ms[1:]):
            M = M + p * A
        return M, ms[1:]
    if o['k'] == 'block':
        return oracle_unitary_and_grad(o['inner'], params, spec_order(o['inner']))
    if o['k'] == 'real':
        import bqskit.ir.gates as G
        g = getattr(G, o['name'])(*o.get('args', []))
        return np.array(g.get_unitary(params).numpy), list(np.array(g.get_grad(params)))
    raise ValueError


def op_np(o):
    if o['k'] == 'aff':
        return len(o['mats']) - 1
    if o['k'] == 'block':
        return spec_num_params(o['inner'])
    if o['k'] == 'real':
        return len(o['params'])
    return 0


def stored_params(spec):
    """stored parameters, ops of this level in append order (a block contributes its inner circuit's
    parameters in the inner iteration order, as CircuitGate stores them)"""
    out = []
    for o in spec['ops']:
        if o['k'] in ('aff', 'real'):
            out += list(o['params'])
        elif o['k'] == 'block':
            out += reorder_params(o['inner'], stored_params(o['inner']), spec_order(o['inner']))
    return out


def oracle_unitary_and_grad(spec, params, order=None):
    """product rule with explicit Kronecker embeddings; ops multiplied in the given order of indices
    (default: append order); params is the flat vector laid out in *that* order."""
    rad = spec['radixes']
    D = prod(rad)
    idxs = list(range(len(spec['ops']))) if order is None else order
    Es, dEs = [], []
    pi = 0
    for t in idxs:
        o = spec['ops'][t]
        k = op_np(o)
        M, dM = op_matrix(o, list(params[pi:pi + k]))
        pi += k
        Es.append(kron_embed(rad, o['loc'], M))
        dEs.append([kron_embed(rad, o['loc'], d) for d in dM])
    U = np.eye(D, dtype=np.complex128)
    lefts = []
    for E in Es:
        lefts.append(U)
        U = E @ U
    grads = []
    right = np.eye(D, dtype=np.complex128)
    rights = [None] * len(Es)
    for t in range(len(Es) - 1, -1, -1):
        rights[t] = right
        right = right @ Es[t]
    for t in range(len(Es)):
        for d in dEs[t]:
            grads.append(rights[t] @ d @ lefts[t])
    return U, grads


def spec_norm(spec, pmax=3):
    """product over the operations of max(row-sum, column-sum) norms of |A0| + pmax * sum |A_t| : bounds every
    intermediate entry of the simulation (and, squared, of the gradient computation)"""
    t = 1.0
    for o in spec['ops']:
        if o['k'] == 'aff':
            ld = prod(o['radixes'])
            ms = [np.abs(from_flat(m, (ld, ld))) for m in o['mats']]
            A = ms[0] + pmax * sum(ms[1:], np.zeros((ld, ld)))
            nrm = max(A.sum(axis=0).max(), A.sum(axis=1).max(), 1.0)
            for d in ms[1:]:
                nrm = max(nrm, d.sum(axis=0).max(), d.sum(axis=1).max())
            t *= nrm
        elif o['k'] == 'block':
            t *= spec_norm(o['inner'], pmax) ** 2
    return t


# ---- model line for a circuit (ops in the implementation's iteration order) ---------------
def model_circuit(circ):
    """real Circuit -> model syntax, operations in operations_with_cycles() order"""
    from bqskit.ir.gates import CircuitGate, FrozenParameterGate
    ops = []
    for cyc, op in circ.operations_with_cycles():
        g = op.gate
        loc = list(op.location)
        stored = [int_param(p) for p in op.params]
        if isinstance(g, CircuitGate):
            ops.append(['b', cyc, loc, stored, model_circuit(g._circuit)])
        else:
            if isinstance(g, FrozenParameterGate):
                raise ValueError('frozen gate cannot be sent to the model as an affine gate')
            ld = g.dim
            if hasattr(g, 'mats'):
                mats = [gi_flat(m) for m in g.mats]
            else:
                mats = [gi_flat(g.get_unitary().numpy)]
            ops.append(['g', cyc, loc, g.num_params, stored, ld] + mats)
    return [list(circ.radixes), ops]


def int_param(p):
    if float(p) != int(p):
        raise ValueError('non-integer parameter')
    return int(p)


# =============================================================================== checks
class Run:
    def __init__(self, ctx):
        self.ctx = ctx
        self.lines = []
        self.post = []      # callbacks (model_answer) -> None

    def ask(self, line, cb):
        self.lines.append(line)
        self.post.append(cb)

    def flush(self):
        if not self.lines:
            return
        # the extracted model is pure: split the queries over worker processes (round-robin keeps the load even)
        from concurrent.futures import ThreadPoolExecutor
        k = max(1, min(NPROC, len(self.lines) // 4))
        chunks = [self.lines[i::k] for i in range(k)]
        try:
            with ThreadPoolExecutor(k) as ex:
                outs = list(ex.map(lambda ch: vf.run_model('tensor', ch), chunks))
        except Exception as e:
            self.ctx.broken_obligation('correspondence tensor model: model process failed', str(e))
            self.lines, self.post = [], []
            return
        out = [None] * len(self.lines)
        for i, o in enumerate(outs):
            if len(o) != len(chunks[i]):
                self.ctx.broken_obligation('correspondence tensor model: wrong number of answers', f'{len(o)} vs {len(chunks[i])}')
                self.lines, self.post = [], []
                return
            out[i::k] = o
        for ans, cb in zip(out, self.post):
            cb(ans)
        self.lines, self.post = [], []


def exc_name(e):
    return type(e).__name__


def guarded(ctx, stream, case, fn):
    """an unexpected exception of the implementation (or of the oracle fed with its answers) is itself a
    disagreement: record it with the case and keep going"""
    try:
        return fn()
    except Exception as e:   # noqa
        import traceback
        tb = traceback.extract_tb(e.__traceback__)
        where = next((f'{fr.name}:{fr.lineno}' for fr in reversed(tb) if '/bqskit/' in fr.filename), tb[-1].name)
        ctx.violation(dict(call=stream, symptom='raises', exception=exc_name(e)), case, 'no exception',
                      f'{exc_name(e)}: {str(e)[:160]} at {where}', f'{stream}: the implementation raised on a valid input')
        return None


def check_exact_circuit(run: Run, spec, extra, label='exact'):
    """one circuit of the exact stream: oracle + model correspondence.
    extra: dict(explicit=[ints] or None, state=[ints re/im] or None, edits=[...])"""
    ctx = run.ctx
    case = dict(stream=label, spec=strip_derived(spec), extra=extra)
    rad = spec['radixes']
    D = prod(rad)
    circ = build_circuit(spec)
    n_ops = len(spec['ops'])
    ctx.case(case, nontrivial=n_ops >= 1)
    # ------------------------------------------------------------------ oracle (append order)
    st = stored_params(spec)
    U_or, G_or = oracle_unitary_and_grad(spec, st)
    U_impl = np.array(circ.get_unitary().numpy)
    if not np.array_equal(U_impl, U_or):
        ctx.violation(dict(call='get_unitary', symptom='not_ordered_product'), case, 'Kronecker product in append order',
                      'different matrix', 'Circuit.get_unitary differs from the ordered product of its operations')
    if not np.array_equal(np.array(list(circ.params), dtype=float), np.array(st, dtype=float)):
        # params are in iteration order, the oracle's in append order: compare as multisets per op below
        pass
    expl = extra.get('explicit')
    if expl is not None and len(expl) == circ.num_params and len(expl) > 0:
        # explicit == stored: set them and compare
        c2 = circ.copy()
        U_e = np.array(circ.get_unitary([float(x) for x in expl]).numpy)
        c2.set_params([float(x) for x in expl])
        U_s = np.array(c2.get_unitary().numpy)
        if not np.array_equal(U_e, U_s):
            ctx.violation(dict(call='get_unitary', symptom='explicit_ne_stored'), case, 'get_unitary(v) == set_params(v); get_unitary()',
                          'different matrices', 'explicit-parameter path differs from stored-parameter path')
        if not np.array_equal(np.array(c2.params, dtype=float), np.array(expl, dtype=float)):
            ctx.violation(dict(call='set_params', symptom='params_roundtrip'), case, expl, list(c2.params), 'params after set_params(v) is not v')
    # state vector
    sv = extra.get('state')
    if sv is not None:
        from bqskit.qis.state.state import StateVector
        v = from_flat(sv, (D,))
        out = np.array(circ.get_statevector(StateVector(v, rad, False)).numpy)
        if not np.array_equal(out, U_or @ v):
            ctx.violation(dict(call='get_statevector', symptom='not_U_times_v'), case, 'U v', 'different vector',
                          'Circuit.get_statevector differs from get_unitary @ state')
    # gradient: product rule (exact when every gate matrix is unitary: dagger == inverse)
    if extra.get('unitary_only'):
        Ug, G = circ.get_unitary_and_grad()
        G = np.array(G)
        # oracle grads are in append order of the ops; map to iteration order through op identity
        order = iteration_order(circ, spec)
        U2, G2 = oracle_unitary_and_grad(spec, reorder_params(spec, st, order), order)
        if not np.array_equal(np.array(Ug.numpy), U_or) or G.shape[0] != len(G2) or any(
                not np.array_equal(G[t], G2[t]) for t in range(len(G2))):
            ctx.violation(dict(call='get_unitary_and_grad', symptom='not_product_rule'), case, 'product rule',
                          'different gradient', 'get_unitary_and_grad differs from the product rule')
    # ------------------------------------------------------------------ model correspondence
    if D > MAXD_MODEL:
        ctx.count('oracle_only_dim>%d' % MAXD_MODEL)
        return
    try:
        mc = model_circuit(circ)
    except ValueError as e:
        ctx.broken_obligation('cannot express circuit for the model', str(e))
        return
    ps = [] if expl is None else [int(x) for x in expl]
    line = f'circ {fmt(mc)} {fmt(ps)} {fmt(sv if sv is not None else [])}'

    def impl_obs():
        fps = [float(x) for x in ps]
        o = {}
        try:
            o['U'] = gi_flat(circ.get_unitary(fps).numpy)
        except ValueError as e:
            o['U'] = 'ERR'
        if sv is not None:
            from bqskit.qis.state.state import StateVector
            try:
                o['SV'] = gi_flat(circ.get_statevector(StateVector(from_flat(sv, (D,)), rad, False), fps).numpy)
            except ValueError:
                o['SV'] = 'ERR'
        else:
            o['SV'] = 'none'
        try:
            Ug, G = circ.get_unitary_and_grad(fps)
            o['GU'] = gi_flat(Ug.numpy)
            o['G'] = [gi_flat(g) for g in np.array(G)]
        except ValueError:
            o['GU'] = 'ERR'
            o['G'] = 'ERR'
        o['P'] = [int_param(p) for p in circ.params]
        locs = []
        for i in range(circ.num_params + 1):
            try:
                locs.append([int(x) for x in circ.get_param_location(i)])
            except IndexError:
                locs.append('ERR')
        o['L'] = locs
        return o
    impl = impl_obs()

    def cb(ans):
        if ans.startswith('EXN') or ans == 'BADCMD':
            ctx.broken_obligation('tensor model failed on a circuit', ans + ' :: ' + line[:300])
            return
        m = parse_val(ans)
        mo = dict(U=m[0], SV=m[1], GU=m[2], G=m[3], P=m[4], L=m[5])
        for k, call in (('U', 'get_unitary'), ('SV', 'get_statevector'), ('GU', 'get_unitary_and_grad'),
                        ('G', 'get_unitary_and_grad'), ('P', 'params'), ('L', 'get_param_location')):
            if mo[k] != impl[k]:
                ctx.violation(dict(call=call, kind='model-mismatch', field=k), case, trunc(mo[k]), trunc(impl[k]),
                              f'{call}: Coq model and implementation disagree ({k})', kind='correspondence',
                              corr='coq/circuit/Sim.v + coq/lib/Tensor.v vs bqskit/ir/circuit.py + unitarybuilder.py')
                break
    run.ask(line, cb)
    ctx.count('exact_model_circuits')


def trunc(x, n=400):
    s = json.dumps(x)
    return s if len(s) <= n else s[:n] + '...'


def iteration_order(circ, spec):
    """indices into spec['ops'] in the implementation's iteration order (ops matched by location
    occurrence: the t-th op on a given location in append order is the t-th in iteration order)"""
    seen = {}
    by_loc = {}
    for t, o in enumerate(spec['ops']):
        by_loc.setdefault(tuple(o['loc']), []).append(t)
    order = []
    for op in circ:
        key = tuple(op.location)
        k = seen.get(key, 0)
        seen[key] = k + 1
        order.append(by_loc[key][k])
    return order


def reorder_params(spec, st, order):
    offs = []
    pi = 0
    for o in spec['ops']:
        offs.append((pi, op_np(o)))
        pi += op_np(o)
    out = []
    for t in order:
        a, k = offs[t]
        out += list(st[a:a + k])
    return out


def check_order_is_program_order(ctx, circ, spec, case):
    """iteration order must be a linearisation with the same per-qudit sequences as the append order"""
    order = iteration_order(circ, spec)
    n = len(spec['radixes'])
    for q in range(n):
        a = [t for t in range(len(spec['ops'])) if q in spec['ops'][t]['loc']]
        b = [t for t in order if q in spec['ops'][t]['loc']]
        if a != b:
            ctx.violation(dict(call='__iter__', symptom='per_qudit_order'), case, a, b, 'iteration order is not the program order on a qudit')
            return


# ---- direct UnitaryBuilder / StateVector stream --------------------------------------------
def check_builder(run: Run, rng, malformed=False):
    ctx = run.ctx
    from bqskit.qis.unitary.unitarybuilder import UnitaryBuilder
    from bqskit.qis.unitary.unitarymatrix import UnitaryMatrix
    from bqskit.qis.state.state import StateVector
    rad = gen_radixes(rng, 36)
    n = len(rad)
    D = prod(rad)
    a = min(n, rng.choice([1, 2, 2, 3]))
    loc = rng.sample(range(n), a)
    while prod(rad[q] for q in loc) > 16:
        loc = loc[:-1]
    lrad = [rad[q] for q in loc]
    urad = list(lrad)
    bad = None
    if malformed:
        bad = rng.choice(['dup', 'range', 'size', 'radix'])
        if bad == 'dup':
            loc = loc + [loc[0]]
            urad = urad + [urad[0]]
        elif bad == 'range':
            loc = loc[:-1] + [n + rng.randint(0, 2)]
        elif bad == 'size':
            urad = urad + [2]
        elif bad == 'radix':
            k = rng.randrange(len(urad))
            urad[k] = 2 if urad[k] != 2 else 3
    ld = prod(urad)
    U = rand_smallint(rng, ld) if rng.random() < 0.7 else rand_monomial(rng, ld)
    T = rand_smallint(rng, D)
    v = rand_smallint(rng, D)[0]
    which = rng.choice(['ar', 'al', 'ear', 'sv'])
    inv = rng.random() < 0.5
    case = dict(stream='builder', radixes=rad, loc=loc, urad=urad, U=gi_flat(U), T=gi_flat(T), v=gi_flat(v), op=which, inverse=inv, malformed=bad)
    ctx.case(case, nontrivial=True)
    ctx.count('builder_' + which + ('_malformed' if malformed else ''))
    um = UnitaryMatrix(U, urad, False)

    def run_impl():
        if which == 'sv':
            s = StateVector(v, rad, False)
            s.apply(um, loc, inv)
            return np.array(s.numpy)
        b = UnitaryBuilder(n, rad)
        b.tensor = T.copy().reshape(tuple(rad) * 2)
        if which == 'ar':
            b.apply_right(um, loc, inv)
        elif which == 'al':
            b.apply_left(um, loc, inv)
        else:
            # eval_apply_right has no argument checks of its own; the location is validated by its callers
            if malformed:
                raise ValueError('skipped')
            out = b.eval_apply_right(U, loc)
            if not np.array_equal(b.get_unitary().numpy, T):
                ctx.violation(dict(call='eval_apply_right', symptom='mutates'), case, 'tensor unchanged', 'changed', 'eval_apply_right changed the builder')
            return np.array(out)
        return np.array(b.get_unitary().numpy)
    if malformed:
        try:
            got = run_impl()
            rejected = False
        except (ValueError, TypeError, IndexError) as e:
            rejected = True
        if which != 'ear':
            run.ask(f'chk {fmt(rad)} {fmt(urad)} {fmt(loc)}', lambda ans: (
                ctx.violation(dict(call='apply_' + which, kind='model-mismatch', symptom='argument_check'), case, ans, 'rejected' if rejected else 'accepted',
                              'argument checks: model and implementation disagree', kind='correspondence', corr='Tensor.check_apply')
                if (ans == 'T') == rejected else None))
            if not rejected:
                ctx.violation(dict(call='apply_' + which, symptom='accepts_bad_location'), case, 'TypeError/ValueError', 'accepted', 'malformed location accepted')
        return
    got = run_impl()
    Ue = np.conj(U).T if (inv and which != 'ear') else U
    E = kron_embed(rad, loc, Ue)
    if which == 'sv':
        exp = E @ v
    elif which == 'al':
        exp = T @ E
    else:
        exp = E @ T
    if not np.array_equal(got, exp):
        ctx.violation(dict(call={'ar': 'apply_right', 'al': 'apply_left', 'ear': 'eval_apply_right', 'sv': 'StateVector.apply'}[which],
                           symptom='not_embed_product'), case, 'embed(U) on the proper side', 'different', 'tensor contraction differs from multiplication by the embedded matrix')
    if which == 'sv':
        line = f'sv {fmt(rad)} {fmt(loc)} {int(inv)} {fmt(gi_flat(v))} {ld} {fmt(gi_flat(U))}'
    elif which == 'ear':
        line = f'ear {fmt(rad)} {fmt(loc)} {fmt(gi_flat(T))} {ld} {fmt(gi_flat(U))}'
    else:
        line = f'{which} {fmt(rad)} {fmt(loc)} {int(inv)} {fmt(gi_flat(T))} {ld} {fmt(gi_flat(U))}'
    g = gi_flat(got)

    def cb(ans):
        if ans.startswith('EXN') or ans == 'BADCMD':
            ctx.broken_obligation('tensor model failed', ans + ' :: ' + line[:200])
        elif parse_val(ans) != g:
            ctx.violation(dict(call=which, kind='model-mismatch'), case, trunc(parse_val(ans)), trunc(g), f'{which}: Coq model and implementation disagree',
                          kind='correspondence', corr='coq/lib/Tensor.v vs unitarybuilder.py/state.py')
    run.ask(line, cb)
    # the specification side of the theorems: Coq embed == Kronecker embedding
    if rng.random() < 0.5:
        Eg = gi_flat(kron_embed(rad, loc, U))
        run.ask(f'emb {fmt(rad)} {fmt(loc)} {ld} {fmt(gi_flat(U))}', lambda ans: (
            ctx.violation(dict(call='embed', kind='model-mismatch'), case, trunc(parse_val(ans)), trunc(Eg), 'Coq embed differs from the Kronecker embedding',
                          kind='correspondence', corr='Tensor.embed vs kron') if parse_val(ans) != Eg else None))
    if rng.random() < 0.2:
        p = list(range(rng.randint(1, 9)))
        rng.shuffle(p)
        ex = [int(x) for x in np.argsort(p)]
        run.ask(f'argsort {fmt(p)}', lambda ans: (
            ctx.violation(dict(call='argsort', kind='model-mismatch'), dict(perm=p), ans, ex, 'argsort model differs from numpy',
                          kind='correspondence', corr='Tensor.argsort') if parse_val(ans) != ex else None))


# ---- parameter edit histories ---------------------------------------------------------------
def check_param_edits(run: Run, rng, spec):
    ctx = run.ctx
    circ = build_circuit(spec)
    if prod(spec['radixes']) > MAXD_MODEL:
        return
    try:
        mc = model_circuit(circ)
    except ValueError:
        return
    edits, impl_obs = [], []
    npar = circ.num_params
    for _ in range(rng.randint(1, 5)):
        npar = circ.num_params
        r = rng.random()
        if r < 0.4:
            i = rng.randint(0, npar + 1) if rng.random() < 0.15 else (rng.randrange(npar) if npar else 0)
            x = rng.randint(-3, 3)
            edits.append(['set', i, x])
            try:
                circ.set_param(i, float(x))
                ok = True
            except IndexError:
                ok = False
        elif r < 0.7:
            k = npar if rng.random() < 0.85 else npar + rng.choice([-1, 1])
            v = [rng.randint(-3, 3) for _ in range(max(0, k))]
            edits.append(['setall', v])
            try:
                circ.set_params([float(x) for x in v])
                ok = True
            except ValueError:
                ok = False
        else:
            i = rng.randint(0, npar + 1) if rng.random() < 0.15 else (rng.randrange(npar) if npar else 0)
            edits.append(['freeze', i])
            before_U = np.array(circ.get_unitary().numpy)
            before_P = list(circ.params)
            try:
                circ.freeze_param(i)
                ok = True
            except IndexError:
                ok = False
            if ok:
                # property oracle: freezing changes neither the unitary nor the other parameters
                if not np.array_equal(before_U, np.array(circ.get_unitary().numpy)):
                    ctx.violation(dict(call='freeze_param', symptom='unitary_changed'), dict(spec=spec, edits=edits), 'same unitary', 'changed', 'freeze_param changed the unitary')
                if list(circ.params) != before_P[:i] + before_P[i + 1:]:
                    ctx.violation(dict(call='freeze_param', symptom='wrong_slice'), dict(spec=spec, edits=edits), before_P[:i] + before_P[i + 1:], list(circ.params),
                                  'freeze_param removed/shifted the wrong parameter')
        if not ok:
            impl_obs.append('ERR')
            continue
        o = [[int_param(p) for p in circ.params]]
        locs, vals = [], []
        for i in range(circ.num_params + 1):
            try:
                locs.append([int(x) for x in circ.get_param_location(i)])
            except IndexError:
                locs.append('ERR')
            try:
                vals.append(int_param(circ.get_param(i)))
            except IndexError:
                vals.append('ERR')
        o += [locs, vals, gi_flat(circ.get_unitary().numpy)]
        impl_obs.append(o)
    case = dict(stream='param_edits', spec=strip_derived(spec), edits=edits)
    ctx.case(case, nontrivial=True)
    ctx.count('param_edit_histories')
    line = f'pedit {fmt(mc)} {fmt(edits)}'

    def cb(ans):
        if ans.startswith('EXN') or ans == 'BADCMD':
            ctx.broken_obligation('tensor model failed on an edit history', ans + ' :: ' + line[:300])
            return
        m = parse_val(ans)
        if len(edits) == 1 and not (isinstance(m, list) and len(m) == 1 and (m[0] == 'ERR' or isinstance(m[0], list) and len(m[0]) == 4)):
            m = [m]
        if m != impl_obs:
            ctx.violation(dict(call='param_edits', kind='model-mismatch'), case, trunc(m), trunc(impl_obs),
                          'set_param/set_params/freeze_param history: Coq model and implementation disagree',
                          kind='correspondence', corr='coq/circuit/Sim.v vs circuit.py parameter methods')
    run.ask(line, cb)


# ---- float stream: library parameterised gates -----------------------------------------------
REAL_GATES = [('RXGate', 1, [2]), ('RYGate', 1, [2]), ('RZGate', 1, [2]), ('U3Gate', 3, [2]), ('U2Gate', 2, [2]), ('U1Gate', 1, [2]),
              ('RXXGate', 1, [2, 2]), ('RZZGate', 1, [2, 2]), ('CRYGate', 1, [2, 2]), ('CRZGate', 1, [2, 2]), ('CPGate', 1, [2, 2]),
              ('HGate', 0, [2]), ('TGate', 0, [2]), ('CZGate', 0, [2, 2]), ('SqrtXGate', 0, [2]), ('CHGate', 0, [2, 2]),
              ('CSUMGate', 0, [3, 3]), ('ClockGate', 0, None), ('ShiftGate', 0, None), ('RCCXGate', 0, [2, 2, 2]), ('U8Gate', 8, [3])]


def gen_real_ops(rng, rad, nops, depth):
    n = len(rad)
    ops = []
    for _ in range(nops):
        if depth > 0 and n >= 1 and rng.random() < 0.15:
            a = min(n, rng.choice([1, 2, 2, 3]))
            loc = rng.sample(range(n), a)
            lrad = [rad[q] for q in loc]
            ops.append(dict(k='block', loc=loc, inner=dict(radixes=lrad, ops=gen_real_ops(rng, lrad, rng.randint(1, 3), depth - 1))))
            continue
        for _try in range(20):
            nm, k, gr = rng.choice(REAL_GATES)
            if gr is None:
                q = rng.randrange(n)
                ops.append(dict(k='real', name=nm, args=[rad[q]], loc=[q], params=[]))
                break
            if len(gr) > n:
                continue
            cand = [p for p in itertools.permutations(range(n), len(gr)) if [rad[q] for q in p] == gr]
            if not cand:
                continue
            ops.append(dict(k='real', name=nm, loc=list(rng.choice(cand)), params=[rng.uniform(-3.2, 3.2) for _ in range(k)]))
            break
    return ops


def gen_real_spec(rng):
    rad = gen_radixes(rng, 64)
    return dict(radixes=rad, ops=gen_real_ops(rng, rad, rng.randint(1, 7), 1))


def check_param_isolation(ctx, rng, spec):
    """Circuits assembled from another circuit's operations (*, +, append_circuit twice, get_slice, copy): set_param(i, v)
    changes exactly entry i of params, the other circuit is untouched, and the stored unitary is the unitary at params."""
    base = build_circuit(spec)
    if base.num_params == 0:
        return
    how = rng.choice(['mul', 'add', 'append_circuit', 'copy'])
    loc = list(range(base.num_qudits))
    if how == 'mul':
        big = base * rng.choice([2, 3])
    elif how == 'add':
        big = base + base
    elif how == 'append_circuit':
        big = base.copy()
        big.append_circuit(base, loc)
        big.append_circuit(base, loc)
    elif how == 'slice':
        big = base.get_slice(list(base._dag.keys())) if hasattr(base, 'get_slice') and len(base._dag) else base.copy()
        big.append_circuit(base, loc)
    else:
        big = base.copy()
        big.append_circuit(base.copy(), loc)
    case = dict(stream='param_isolation', how=how, spec=strip_derived(spec))
    ctx.case(case, nontrivial=True)
    ctx.count('param_isolation_' + how)
    base_before = [float(x) for x in base.params]
    for _ in range(3):
        n = big.num_params
        if n == 0:
            return
        i = rng.randrange(n)
        before = [float(x) for x in big.params]
        v = round(rng.uniform(-3, 3), 3)
        big.set_param(i, v)
        after = [float(x) for x in big.params]
        want = before[:i] + [v] + before[i + 1:]
        if after != want:
            ctx.violation(dict(call='set_param', symptom='changes_other_entries', built_by=how), dict(case, index=i, value=v), want, after,
                          'set_param(i, v) on a circuit assembled from another circuit\'s operations changed entries other than i')
            return
        if [float(x) for x in base.params] != base_before:
            ctx.violation(dict(call='set_param', symptom='changes_source_circuit', built_by=how), dict(case, index=i, value=v), base_before,
                          [float(x) for x in base.params], 'set_param on the assembled circuit changed the circuit it was assembled from')
            return
        U0 = np.array(big.get_unitary().numpy)
        U1 = np.array(big.get_unitary(after).numpy)
        if np.max(np.abs(U0 - U1)) > 1e-10:
            ctx.violation(dict(call='get_unitary', symptom='explicit_ne_stored', stream='param_isolation', built_by=how), dict(case, index=i, value=v),
                          'equal', float(np.max(np.abs(U0 - U1))), 'stored-parameter unitary differs from get_unitary(params) after set_param')
            return


def check_float_circuit(ctx, rng, spec):
    from bqskit.qis.state.state import StateVector
    case = dict(stream='float', spec=strip_derived(spec))
    circ = build_circuit(spec)
    rad = spec['radixes']
    D = prod(rad)
    ctx.case(case, nontrivial=len(spec['ops']) > 0)
    ctx.count('float_circuits')
    st = stored_params(spec)
    order = iteration_order(circ, spec)
    check_order_is_program_order(ctx, circ, spec, case)
    U_or, _ = oracle_unitary_and_grad(spec, st)
    # error budget: each op contributes at most ~ D * 2e-16 * (number of flops per entry); 1e-10 is rigorous here
    tol = 1e-10
    U = np.array(circ.get_unitary().numpy)
    if np.max(np.abs(U - U_or)) > tol:
        ctx.violation(dict(call='get_unitary', symptom='not_ordered_product', stream='float'), case, 'Kronecker product', float(np.max(np.abs(U - U_or))),
                      'Circuit.get_unitary differs from the ordered product (float stream)')
    pit = reorder_params(spec, st, order)
    if not np.allclose(np.array(circ.params, dtype=float), np.array(pit, dtype=float), rtol=0, atol=0):
        ctx.violation(dict(call='params', symptom='order'), case, pit, list(circ.params), 'params is not the concatenation of op.params in iteration order')
    # flat-parameter API consistency
    for i in range(circ.num_params):
        cy, q, k = circ.get_param_location(i)
        op = circ[cy, q]
        if op.params[k] != circ.params[i] or circ.get_param(i) != circ.params[i]:
            ctx.violation(dict(call='get_param_location', symptom='index'), case, float(circ.params[i]), float(op.params[k]), 'get_param_location(i) does not address params[i]')
            break
    for bad in (circ.num_params, circ.num_params + 3, -1):
        try:
            circ.get_param_location(bad)
            ctx.violation(dict(call='get_param_location', symptom='accepts_out_of_range'), case, 'IndexError', 'value', 'out-of-range parameter index accepted')
        except IndexError:
            pass
    if circ.num_params:
        v = [rng.uniform(-3, 3) for _ in range(circ.num_params)]
        Ue = np.array(circ.get_unitary(v).numpy)
        c2 = circ.copy()
        c2.set_params(v)
        if not np.array_equal(np.array(c2.params), np.array(v)):
            ctx.violation(dict(call='set_params', symptom='params_roundtrip'), case, v, list(c2.params), 'params after set_params(v) is not v')
        Us = np.array(c2.get_unitary().numpy)
        if not np.array_equal(Ue, Us):
            ctx.violation(dict(call='get_unitary', symptom='explicit_ne_stored', stream='float'), case, 'equal', float(np.max(np.abs(Ue - Us))), 'explicit-parameter path differs from stored path')
        # oracle at v (v is in iteration order -> product in iteration order)
        U_v, G_v = oracle_unitary_and_grad(spec, v, order)
        if np.max(np.abs(Ue - U_v)) > tol:
            ctx.violation(dict(call='get_unitary', symptom='not_ordered_product', stream='float-explicit'), case, 'Kronecker product', float(np.max(np.abs(Ue - U_v))),
                          'get_unitary(params) differs from the ordered product')
        # statevector, explicit
        s = np.zeros(D, dtype=np.complex128)
        s[rng.randrange(D)] = 1.0
        out = np.array(circ.get_statevector(StateVector(s, rad), v).numpy)
        if np.max(np.abs(out - U_v @ s)) > tol:
            ctx.violation(dict(call='get_statevector', symptom='not_U_times_v', stream='float'), case, 'U v', float(np.max(np.abs(out - U_v @ s))), 'get_statevector differs from U v')
        # gradient: product rule and central differences
        Ug, G = circ.get_unitary_and_grad(v)
        G = np.array(G)
        G1 = np.array(circ.get_grad(v))
        if np.max(np.abs(np.array(Ug.numpy) - U_v)) > tol or G.shape != (len(v), D, D) or not np.array_equal(G, G1):
            ctx.violation(dict(call='get_unitary_and_grad', symptom='unitary_or_shape'), case, 'U, (num_params,D,D)', str(G.shape), 'get_unitary_and_grad returns a wrong unitary/shape')
        else:
            for t in range(len(v)):
                if np.max(np.abs(G[t] - G_v[t])) > 1e-9:
                    ctx.violation(dict(call='get_unitary_and_grad', symptom='not_product_rule', stream='float'), case, 'product rule', float(np.max(np.abs(G[t] - G_v[t]))),
                                  'gradient differs from the product rule')
                    break
                h = 1e-5
                vp, vm = list(v), list(v)
                vp[t] += h
                vm[t] -= h
                fd = (np.array(circ.get_unitary(vp).numpy) - np.array(circ.get_unitary(vm).numpy)) / (2 * h)
                if np.max(np.abs(G[t] - fd)) > 1e-6:
                    ctx.violation(dict(call='get_grad', symptom='not_finite_difference'), case, 'central difference', float(np.max(np.abs(G[t] - fd))),
                                  'gradient differs from central finite differences')
                    break
        # set_param / freeze_param
        i = rng.randrange(circ.num_params)
        c3 = circ.copy()
        x = rng.uniform(-3, 3)
        c3.set_param(i, x)
        exp = list(circ.params)
        exp[i] = x
        if list(c3.params) != exp or c3.get_param(i) != x:
            ctx.violation(dict(call='set_param', symptom='wrong_slot'), case, exp, list(c3.params), 'set_param(i, x) did not set params[i]')
        c4 = circ.copy()
        c4.set_params(v)
        c4.freeze_param(i)
        if list(c4.params) != v[:i] + v[i + 1:]:
            ctx.violation(dict(call='freeze_param', symptom='wrong_slice'), case, v[:i] + v[i + 1:], list(c4.params), 'freeze_param removed/shifted the wrong parameter')
        elif np.max(np.abs(np.array(c4.get_unitary().numpy) - Ue)) > tol:
            ctx.violation(dict(call='freeze_param', symptom='unitary_changed'), case, 'same unitary', 'changed', 'freeze_param changed the unitary')
        elif c4.num_params:
            w = [rng.uniform(-3, 3) for _ in range(c4.num_params)]
            full = w[:i] + [v[i]] + w[i:]
            if np.max(np.abs(np.array(c4.get_unitary(w).numpy) - np.array(circ.get_unitary(full).numpy))) > tol:
                ctx.violation(dict(call='freeze_param', symptom='explicit_after_freeze'), case, 'same unitary', 'different',
                              'explicit parameters after freeze_param address the wrong gates')
            # gradient of the frozen circuit = the other rows
            Gf = np.array(c4.get_grad(w))
            Gfull = np.array(circ.get_grad(full))
            if Gf.shape[0] != len(w) or np.max(np.abs(Gf - np.delete(Gfull, i, axis=0))) > 1e-9:
                ctx.violation(dict(call='freeze_param', symptom='grad_rows'), case, 'rows of the unfrozen parameters', 'different', 'gradient after freeze_param is not the remaining rows')


# ---- restricted iteration vs brute force over the grid -----------------------------------------
def check_iteration(ctx, rng):
    from bqskit.ir.circuit import Circuit
    from bqskit.ir.gates import XGate, CNOTGate, ConstantUnitaryGate
    from bqskit.ir.region import CircuitRegion
    n = rng.randint(1, 6)
    c = Circuit(n)
    ident = {1: XGate(), 2: CNOTGate()}
    if n >= 3:
        from bqskit.ir.gates import CCXGate
        ident[3] = CCXGate()
    nops = rng.randint(0, 10)
    hist = []
    for _ in range(nops):
        a = min(n, rng.choice([1, 1, 2, 2, 3]))
        loc = rng.sample(range(n), a)
        if rng.random() < 0.2 and c.num_cycles > 0:
            try:
                cyi = rng.randrange(c.num_cycles)
                c.insert_gate(cyi, ident[a], loc)
                hist.append(['i', cyi, loc])
                continue
            except Exception:
                pass
        c.append_gate(ident[a], loc)
        hist.append(['a', loc])
    nc = c.num_cycles
    grid = [[c._circuit[cy][q] for q in range(n)] for cy in range(nc)]
    kw = {}
    desc = {}
    if rng.random() < 0.5 and nc > 0:
        kw['start'] = (rng.randint(0, nc), rng.randint(0, n - 1))
        desc['start'] = list(kw['start'])
    end_past = False
    if rng.random() < 0.5 and nc > 0:
        end_past = rng.random() < 0.1          # separate stream: end beyond the last cycle (must be clipped)
        kw['end'] = (rng.randint(nc, nc + 2) if end_past else rng.randint(0, nc - 1), rng.randint(0, n - 1))
        desc['end'] = list(kw['end'])
    mode = rng.choice(['none', 'qudits', 'region'])
    qudits = list(range(n))
    bounds = {q: (0, max(nc, 0)) for q in qudits}
    if mode == 'qudits':
        qudits = rng.sample(range(n), rng.randint(1, n))
        kw['qudits_or_region'] = qudits
        bounds = {q: (0, nc) for q in qudits}
        desc['qudits'] = qudits
    elif mode == 'region' and nc > 0:
        qs = rng.sample(range(n), rng.randint(1, n))
        bounds = {}
        for q in qs:
            lo = rng.randint(0, nc - 1)
            bounds[q] = (lo, rng.randint(lo, nc - 1))
        kw['qudits_or_region'] = CircuitRegion(bounds)
        qudits = list(bounds.keys())
        desc['region'] = {str(q): list(b) for q, b in bounds.items()}
    kw['exclude'] = rng.random() < 0.4
    kw['reverse'] = rng.random() < 0.4
    desc.update(exclude=kw['exclude'], reverse=kw['reverse'])
    case = dict(stream='iteration', n=n, build=hist, grid=[[None if o is None else list(o.location) for o in row] for row in grid], args=desc)
    ctx.case(case, nontrivial=nops > 0 and len(kw) > 2)
    ctx.count('iteration_' + mode + ('_end_past' if end_past else ''))
    if nc == 0:
        # an empty circuit yields nothing in whatever way it is iterated
        try:
            got = list(c.operations_with_cycles(**kw))
        except Exception as e:
            got = 'raises ' + exc_name(e)
        if got != []:
            ctx.violation(dict(call='CircuitIterator', symptom='empty_circuit'), case, [], str(got), 'iterating an empty circuit does not yield an empty sequence')
        return
    try:
        got = [(cy, tuple(op.location)) for cy, op in c.operations_with_cycles(**kw)]
        got2 = [tuple(op.location) for op in c.operations(**kw)]
    except Exception as e:
        ctx.violation(dict(call='CircuitIterator', symptom='end_past_last_cycle_raises' if end_past else 'raises'), case, 'a sequence',
                      exc_name(e) + ': ' + str(e)[:100], 'restricted iteration raised')
        return
    # brute force: grid points p with start <= p <= end (lexicographic), p.qudit requested, p.cycle inside the
    # requested interval of that qudit; visited in lexicographic order (reversed if reverse); each operation once
    # per cycle; with exclude, only operations entirely inside the requested area
    start = tuple(kw.get('start', (0, 0)))
    end = tuple(kw.get('end', (nc - 1, n - 1)))
    pts = [(cy, q) for cy in range(nc) for q in sorted(qudits)
           if start <= (cy, q) <= end and bounds[q][0] <= cy <= bounds[q][1]]
    if kw['reverse']:
        pts = pts[::-1]
    exp = []
    seen = set()
    for cy, q in pts:
        op = grid[cy][q]
        if op is None or (cy, id(op)) in seen:
            continue
        seen.add((cy, id(op)))
        if kw['exclude'] and not all(x in qudits and bounds[x][0] <= cy <= bounds[x][1] for x in op.location):
            continue
        exp.append((cy, tuple(op.location)))
    # operations of one cycle act on disjoint qudits: their relative order is immaterial (the default DAG iterator and
    # the grid iterator order them differently); cycles must come in order
    def canon_seq(seq):
        return [sorted(g) for _, g in itertools.groupby(seq, key=lambda e: e[0])]
    cyc = [cy for cy, _ in got]
    mono = all(a >= b for a, b in zip(cyc, cyc[1:])) if kw['reverse'] else all(a <= b for a, b in zip(cyc, cyc[1:]))
    if not mono or canon_seq(got) != canon_seq(exp) or got2 != [l for _, l in got]:
        ctx.violation(dict(call='CircuitIterator', symptom='wrong_operations'), case, [list(map(str, e)) for e in exp], [list(map(str, e)) for e in got],
                      'restricted iteration does not return exactly the operations inside the requested area')



# =============================================================================== grid iterator vs extracted model (coq/circuit/Iter.v)
ITER_F3 = dict(call='CircuitGridIterator', symptom='end_not_clipped_to_circuit')


class IterHang(BaseException):
    pass


class time_limit:
    """raise IterHang in the main thread when the body runs longer than `sec` seconds (a defective iterator may never
    leave __next__); no-op outside the main thread"""
    def __init__(self, sec):
        self.sec = sec
        self.old = None

    def __enter__(self):
        import signal

        def _alarm(*_):
            raise IterHang()
        try:
            self.old = signal.signal(signal.SIGALRM, _alarm)
            signal.setitimer(signal.ITIMER_REAL, self.sec)
        except ValueError:
            self.old = None
        return self

    def __exit__(self, *a):
        import signal
        if self.old is not None:
            signal.setitimer(signal.ITIMER_REAL, 0)
            signal.signal(signal.SIGALRM, self.old)
        return False


def gen_iter_model_case(rng):
    """circuit (append / insert history) + iterator arguments; start / end are arbitrary integer pairs (outside the grid too),
    regions may reach beyond the last cycle, about 6 % of the qudit lists / regions are invalid (empty, out of range)"""
    n = rng.randint(1, 6)
    nops = 0 if rng.random() < 0.06 else rng.randint(1, 10)
    hist = []
    nc_guess = 0
    for _ in range(nops):
        a = min(n, rng.choice([1, 1, 2, 2, 3]))
        loc = rng.sample(range(n), a)
        if rng.random() < 0.2 and nc_guess > 0:
            hist.append(['i', rng.randrange(nc_guess), loc])
        else:
            hist.append(['a', loc])
        nc_guess += 1
    return dict(stream='iter_model', n=n, build=hist, args=None, argseed=rng.getrandbits(32))


def iter_model_args(rng, n, nc):
    a = {}
    if rng.random() < 0.6:
        a['start'] = [rng.randint(-1, nc + 1), rng.randint(-2, n + 1)]
    if rng.random() < 0.6:
        a['end'] = [rng.randint(-1, nc + 2), rng.randint(-2, n + 1)]
    mode = rng.choice(['none', 'qudits', 'region'])
    if mode == 'qudits':
        r = rng.random()
        if r < 0.03:
            a['qudits'] = []
        elif r < 0.06:
            a['qudits'] = [rng.choice([-1, n, n + 1])] + rng.sample(range(n), rng.randint(0, n))
        else:
            qs = rng.sample(range(n), rng.randint(1, n))
            if rng.random() < 0.1:
                qs.append(rng.choice(qs))           # a repeated qudit
            a['qudits'] = qs
    elif mode == 'region':
        if rng.random() < 0.03:
            a['region'] = []
        else:
            qs = rng.sample(range(n), rng.randint(1, n))
            items = []
            for q in qs:
                top = max(nc - 1, 0) + (rng.randint(1, 2) if rng.random() < 0.1 else 0)     # sometimes beyond the last cycle
                lo = rng.randint(0, top)
                items.append([q, lo, rng.randint(lo, top)])
            a['region'] = items
    a['exclude'] = rng.random() < 0.4
    a['reverse'] = rng.random() < 0.4
    return a


def iter_model_eval(case):
    """build the circuit, drive the real CircuitGridIterator step by step, evaluate the brute-force oracle.
    returns (case with args filled in, model line, real answer, oracle answer, api answer or None)"""
    import random
    from bqskit.ir.circuit import Circuit
    from bqskit.ir.gates import XGate, CNOTGate, CCXGate
    from bqskit.ir.iterator import CircuitGridIterator
    from bqskit.ir.region import CircuitRegion
    n = case['n']
    c = Circuit(n)
    gates = {1: XGate(), 2: CNOTGate(), 3: CCXGate()}
    for h in case['build']:
        if h[0] == 'a':
            c.append_gate(gates[len(h[1])], h[1])
        else:
            try:
                c.insert_gate(min(h[1], max(c.num_cycles - 1, 0)), gates[len(h[2])], h[2])
            except Exception:   # noqa
                c.append_gate(gates[len(h[2])], h[2])
    nc = c.num_cycles
    if case.get('args') is None:
        case = dict(case, args=iter_model_args(random.Random(case['argseed']), n, nc))
    a = case['args']
    # operation identities: one number per (cycle, operation object)
    ids = {}
    rows = []
    for cy in range(nc):
        row = []
        for q in range(n):
            o = c._circuit[cy][q]
            if o is None:
                row.append('N')
            else:
                k = ids.setdefault((cy, id(o)), len(ids))
                row.append('[%d [%s]]' % (k, ' '.join(map(str, o.location))))
        rows.append('[' + ' '.join(row) + ']')
    start = tuple(a.get('start', (0, 0)))
    end = tuple(a['end']) if 'end' in a else None
    if 'qudits' in a:
        qor, mode = list(a['qudits']), '[q [%s]]' % ' '.join(map(str, a['qudits']))
    elif 'region' in a:
        qor = {q: (lo, hi) for q, lo, hi in a['region']}
        mode = '[r [%s]]' % ' '.join('[%d %d %d]' % tuple(t) for t in a['region'])
    else:
        qor, mode = None, '[n]'
    line = 'it %d [%s] [%d %d] %s %s %d %d' % (n, ' '.join(rows), start[0], start[1], 'N' if end is None else '[%d %d]' % end, mode,
                                               int(a['exclude']), int(a['reverse']))
    # ---- the real iterator, one __next__ at a time; the pointer (cycle, qudit) is read after each return
    bound = 8 * (nc + 4) * (n + 6) + 50
    import signal

    def _alarm(*_):
        raise IterHang()
    try:                                    # a loop that never leaves __next__ (main thread only)
        old_handler = signal.signal(signal.SIGALRM, _alarm)
        signal.setitimer(signal.ITIMER_REAL, 6.0)
    except ValueError:
        old_handler = None
    try:
        it = CircuitGridIterator(c, start, end, qor, a['exclude'], a['reverse'], True)
        got = []
        while True:
            if len(got) > bound:
                real = ['ERR', 'Hang']
                break
            try:
                cy, op = next(it)
            except StopIteration:
                real = ['OK', got]
                break
            got.append([int(cy), int(it.qudit), ids.get((cy, id(op)), -1)])
    except (ValueError, IndexError) as e:
        real = ['ERR', 'Value' if isinstance(e, ValueError) else 'Index']
    except IterHang:
        real = ['ERR', 'Hang']
    except Exception as e:   # noqa
        real = ['ERR', exc_name(e)]
    finally:
        if old_handler is not None:
            signal.setitimer(signal.ITIMER_REAL, 0)
            signal.signal(signal.SIGALRM, old_handler)
    # ---- the public API on the same arguments (it picks the DAG iterator when every argument is the default)
    api = None
    default = start == (0, 0) and end is None and qor is None and not a['exclude'] and not a['reverse']
    if not default and real[0] == 'OK':
        try:
            kw = dict(start=start, end=end, qudits_or_region=(CircuitRegion(qor) if isinstance(qor, dict) else qor), exclude=a['exclude'], reverse=a['reverse'])
            l1 = [[int(cy), ids.get((cy, id(op)), -1)] for cy, op in c.operations_with_cycles(**kw)]
            l2 = [id(op) for op in c.operations(**kw)]
            l3 = [id(op) for _, op in c.operations_with_cycles(**kw)]
            api = ['OK', l1 if l2 == l3 else 'operations() and operations_with_cycles() differ']
        except Exception as e:   # noqa
            api = ['ERR', exc_name(e)]
    # ---- brute-force oracle (independent of the pointer arithmetic): the area as a set of grid points, scanned in tuple order
    if qor is None:
        bounds = {q: (0, max(nc - 1, 0)) for q in range(n)}
    elif isinstance(qor, dict):
        bounds = dict(qor)
    else:
        bounds = {q: (0, max(nc - 1, 0)) for q in qor}
    if not bounds or (isinstance(qor, list) and not all(0 <= q < n for q in qor)):
        oracle = ['ERR', 'Value']
    else:
        e_ = end if end is not None else (nc - 1, n - 1)
        pts = [(cy, q) for cy in range(nc) for q in range(n) if q in bounds and start <= (cy, q) <= e_ and bounds[q][0] <= cy <= bounds[q][1]]
        if a['reverse']:
            pts.reverse()
        exp, seen = [], set()
        for cy, q in pts:
            o = c._circuit[cy][q]
            if o is None or (cy, id(o)) in seen:
                continue
            seen.add((cy, id(o)))
            if a['exclude'] and not all(x in bounds and bounds[x][0] <= cy <= bounds[x][1] for x in o.location):
                continue
            exp.append([cy, q, ids[(cy, id(o))]])
        oracle = ['OK', exp]
    return case, line, real, oracle, api


def parse_iter_answer(s):
    v = parse_val(s) if not s.startswith('EXN') and s != 'BADCMD' else None
    if not isinstance(v, list) or not v:
        return ['ERR', 'model:' + s[:80]]
    if v[0] == 'OK':
        return ['OK', [list(map(int, e)) for e in v[1]]]
    return ['ERR', str(v[1])]


def check_iter_model_batch(ctx, cases, report=True):
    """cases -> number of disagreements; real iterator == extracted model, real iterator == brute-force oracle, public API == class"""
    evals = []
    hangs = 0
    for case in cases:
        if hangs >= 3:                      # every further case would cost the full time limit
            ctx.count('iter_model_not_run_after_3_hangs')
            continue
        try:
            evals.append(iter_model_eval(case))
            hangs += evals[-1][2] == ['ERR', 'Hang']
        except Exception as e:   # noqa
            ctx.violation(dict(call='CircuitGridIterator', symptom='harness_raises', exception=exc_name(e)), case, 'no exception', str(e)[:200],
                          'building the circuit / driving the iterator raised')
    if not evals:
        return
    try:
        outs = vf.run_model('citer', [e[1] for e in evals])
    except Exception as e:   # noqa
        ctx.broken_obligation('extracted iterator model (citer) failed', str(e))
        return
    if len(outs) != len(evals):
        ctx.broken_obligation('extracted iterator model (citer): wrong number of answers', f'{len(outs)} for {len(evals)}')
        return
    for (case, line, real, oracle, api), out in zip(evals, outs):
        model = parse_iter_answer(out)
        a = case['args']
        kind = 'region' if 'region' in a else 'qudits' if 'qudits' in a else 'none'
        ctx.case(case, nontrivial=bool(case['build']) and real[0] == 'OK' and len(real[1]) > 0)
        ctx.count('iter_model_' + kind + ('_rev' if a['reverse'] else '') + ('_excl' if a['exclude'] else ''))
        ctx.count('iter_model_answer_' + (real[0] if real[0] == 'OK' else real[1]))
        if model == ['ERR', 'Fuel'] or model[1:] and str(model[1]).startswith('model:'):
            ctx.broken_obligation('extracted iterator model ran out of fuel / failed', line + ' -> ' + out[:200])
            continue
        if model == ['ERR', 'Index']:
            # the model reproduces the code's IndexError (finding C06-F3: end is clipped to the region, not to the circuit);
            # a repaired implementation returns what the oracle expects
            if real == ['ERR', 'Index']:
                ctx.count('iter_model_F3_inputs')
                ctx.violation(ITER_F3, case, oracle, real, 'an end point / region beyond the last cycle (or any end point on a circuit without cycles) '
                              'raises IndexError instead of being clipped to the circuit')
            elif real != oracle:
                ctx.violation(dict(call='CircuitGridIterator', symptom='wrong_operations'), case, oracle, real,
                              'restricted iteration does not return exactly the operations inside the requested area, in grid order')
            continue
        if real != model:
            ctx.violation(dict(call='CircuitGridIterator', symptom='differs_from_model'), case, model, real,
                          'the real CircuitGridIterator and the extracted Coq model (circuit/Iter.v) disagree on (cycle, pointer qudit, operation) sequence')
        if real != oracle:
            ctx.violation(dict(call='CircuitGridIterator', symptom='wrong_operations'), case, oracle, real,
                          'restricted iteration does not return exactly the operations inside the requested area, once each, in grid order')
        if api is not None and api != ['OK', [[e[0], e[2]] for e in real[1]]]:
            ctx.violation(dict(call='Circuit.operations_with_cycles', symptom='differs_from_grid_iterator'), case, [[e[0], e[2]] for e in real[1]], api,
                          'Circuit.operations / operations_with_cycles do not return what CircuitGridIterator yields for the same arguments')


def replay_iter_model(ctx, case):
    check_iter_model_batch(ctx, [case])

# =============================================================================== shrinking of failing cases
class Probe:
    """records the signatures a case produces, without reporting anything"""
    def __init__(self, seed=0):
        self.sigs = []
        self.seed = seed

    def case(self, *a, **k):
        pass

    def count(self, *a, **k):
        pass

    def sample(self, *a, **k):
        pass

    def violation(self, sig, *a, **k):
        self.sigs.append(vf.canon(sig))
        return True

    def broken_obligation(self, *a, **k):
        self.sigs.append('broken')


class SyncRun(Run):
    def ask(self, line, cb):
        try:
            out = vf.run_model('tensor', [line])
            cb(out[0] if out else 'EXN no answer')
        except Exception as e:   # noqa
            self.ctx.broken_obligation('model', str(e))


def case_signatures(case):
    pr = Probe()
    try:
        replay_case(pr, SyncRun(pr), case)
    except Exception:   # noqa
        pr.sigs.append('harness-exception')
    return pr.sigs


def remove_op(case, t):
    spec, extra = case['spec'], dict(case.get('extra', {}))
    new_spec = dict(radixes=spec['radixes'], ops=[o for i, o in enumerate(spec['ops']) if i != t])
    expl = extra.get('explicit')
    if expl is not None and len(expl) == spec_num_params(spec):
        try:
            order = spec_order(dict(spec))
            pi, offs = 0, {}
            for u in order:
                offs[u] = (pi, op_np(spec['ops'][u]))
                pi += offs[u][1]
            a, k = offs[t]
            extra['explicit'] = expl[:a] + expl[a + k:]
        except Exception:   # noqa
            extra.pop('explicit', None)
    c = dict(case)
    c['spec'], c['extra'] = strip_derived(new_spec), extra
    return c


def shrink_case(case, sig, budget=40):
    """greedy: drop operations (then the state / explicit vector) while the same signature is still produced"""
    if not isinstance(case, dict) or case.get('stream') not in ('exact', 'float') or 'spec' not in case:
        return case
    want = vf.canon(sig)
    if want not in case_signatures(case):
        return case           # not reproducible in isolation (depends on the stream position): keep as found
    cur = case
    progress = True
    while progress and budget > 0:
        progress = False
        for t in range(len(cur['spec']['ops']) - 1, -1, -1):
            if budget <= 0:
                break
            cand = remove_op(cur, t) if cur.get('stream') == 'exact' else dict(cur, spec=dict(radixes=cur['spec']['radixes'], ops=[o for i, o in enumerate(cur['spec']['ops']) if i != t]))
            budget -= 1
            if want in case_signatures(cand):
                cur, progress = cand, True
                break
    if cur.get('stream') == 'exact':
        for key in ('state', 'explicit'):
            if key in cur.get('extra', {}) and budget > 0:
                cand = dict(cur, extra={k: v for k, v in cur['extra'].items() if k != key})
                budget -= 1
                if want in case_signatures(cand):
                    cur = cand
    return cur


# =============================================================================== entry points
def gen_bounded_spec(rng, rad, nops, depth, allow_param, unitary_only):
    for _ in range(40):
        spec = dict(radixes=rad, ops=gen_ops(rng, rad, nops, depth, allow_param, unitary_only))
        if spec_norm(spec) ** 2 * 64 < 2 ** 46:
            return spec
        nops = max(1, nops - 1)
    return dict(radixes=rad, ops=gen_ops(rng, rad, nops, 0, False, True))


def gen_exact_case(rng, maxd):
    rad = gen_radixes(rng, maxd)
    unitary_only = rng.random() < 0.35
    spec = gen_bounded_spec(rng, rad, rng.randint(0, 7), 2, True, unitary_only)
    k = spec_num_params(spec)
    extra = dict(unitary_only=unitary_only)
    r = rng.random()
    if k and r < 0.6:
        extra['explicit'] = [rng.randint(-2, 2) for _ in range(k)]
    elif r < 0.68:
        extra['explicit'] = [rng.randint(-2, 2) for _ in range(k + rng.choice([1, 2]))]   # malformed: wrong length
    D = prod(rad)
    if rng.random() < 0.7:
        if rng.random() < 0.5:
            v = np.zeros(D, dtype=np.complex128)
            v[rng.randrange(D)] = 1
        else:
            v = rand_smallint(rng, D)[0]
        extra['state'] = gi_flat(v)
    return spec, extra


def run_exact_case(run, rng, spec, extra):
    ctx = run.ctx
    case = dict(stream='exact', spec=strip_derived(spec), extra=extra)
    expl = extra.get('explicit')
    if expl is not None and len(expl) != spec_num_params(spec):
        # malformed: wrong-length vector must be rejected by every entry point
        circ = build_circuit(spec)
        ctx.case(case, nontrivial=True)
        ctx.count('exact_malformed_params')
        for nm, f in (('get_unitary', lambda: circ.get_unitary([float(x) for x in expl])),
                      ('get_unitary_and_grad', lambda: circ.get_unitary_and_grad([float(x) for x in expl])),
                      ('set_params', lambda: circ.set_params([float(x) for x in expl]))):
            try:
                f()
                ctx.violation(dict(call=nm, symptom='accepts_wrong_length'), case, 'ValueError', 'accepted', 'parameter vector of the wrong length accepted')
            except ValueError:
                pass
        if prod(spec['radixes']) <= MAXD_MODEL:
            mc = model_circuit(circ)
            run.ask(f'circ {fmt(mc)} {fmt([int(x) for x in expl])} []', lambda ans: (
                ctx.violation(dict(call='check_parameters', kind='model-mismatch'), case, ans[:80], 'ValueError', 'model accepts a wrong-length vector',
                              kind='correspondence', corr='Sim.check_parameters') if not ans.startswith('[ERR none ERR ERR') else None))
        return
    guarded(ctx, 'exact', case, lambda: check_exact_circuit(run, spec, extra))
    guarded(ctx, 'exact', case, lambda: check_order_is_program_order(ctx, build_circuit(spec), spec, case))


def run(ctx: vf.Ctx):
    import time
    tm = {}
    t0 = time.time()
    ctx.uses_translators = set()
    ctx.build(**BUILD)
    tm['build_incl_lock_wait'] = round(time.time() - t0, 1)
    warnings.simplefilter('ignore')
    from bqskit.ir.circuit import Circuit  # noqa: F401
    np.seterr(all='ignore')
    ctx.rule = ('exact stream: random circuits, width 1-6, radixes 2-4 (dimension <= 64), 0-7 operations of arity 1-3 on random '
                '(permuted, non-adjacent) locations drawn from exact library gates, random monomial matrices with entries in {0,+-1,+-i}, '
                'small Gaussian-integer matrices (check_arguments=False), affine parameterised gates U(p)=A0+sum p_t A_t, nested CircuitGates '
                '(depth <= 2); per circuit: get_unitary (stored and explicit), get_statevector, get_unitary_and_grad, params, '
                'get_param_location/get_param for every index, compared == with the extracted Coq model and with the Kronecker-product oracle; '
                'builder stream: single apply_right/apply_left(inverse)/eval_apply_right/StateVector.apply on random integer tensors (+ malformed '
                'locations); edit stream: set_param/set_params/freeze_param histories; float stream: library parameterised gates vs Kronecker '
                'oracle (1e-10), product rule (1e-9) and central differences (1e-6); iteration stream: start/end/qudits/region/exclude/reverse vs '
                'brute-force grid filter; iter_model stream: circuits of width 1-6 built by 0-10 appends/inserts (6 % without any cycle), '
                'CircuitGridIterator driven one __next__ at a time with start/end anywhere in [-1,nc+2]x[-2,n+1], whole circuit / qudit list '
                '(repeated, ~6 % empty or out of range) / region (10 % of the intervals beyond the last cycle, 3 % empty), exclude, reverse; the '
                '(cycle, pointer qudit, operation) sequence or the exception class compared == with the extracted model of iterator.py '
                '(coq/circuit/Iter.v) and with an ORDERED brute-force filter over the grid; Circuit.operations/operations_with_cycles compared '
                'with the class. non-trivial = at least one operation; distinct by canonical case text')
    ctx.assumptions += [
        'numpy transpose/reshape(C order)/matmul/argsort behave as stated at the top of coq/lib/Tensor.v',
        'float arithmetic on Gaussian integers below 2^50 is exact (IEEE-754 double), so == comparisons are meaningful',
        'the iteration order handed to the model is read from the implementation (operations_with_cycles); that it is a program order is checked '
        'per case against the append order (and is the subject of C04/C05)',
        'gate oracles (gate.get_unitary/get_grad) are arbitrary functions in the theorems; unitarity (U U^dagger = 1) is a hypothesis of the gradient theorem',
        'iterator theorem: the grid invariant (an operation is stored at every qudit of its location, C04/C05) is a hypothesis; qudit keys of a '
        'caller-supplied region lie on the circuit; the theorem is partial correctness (an iteration that finishes), termination is validated by the run',
    ]
    ctx.trusted = ['Coq 8.16.1 kernel', 'ExtrOcamlBasic extraction, OCaml 4.13.1, coq/extract/tensor_driver.ml, coq/extract/citer_driver.ml',
                   'numpy semantics of transpose/reshape/matmul/argsort as transcribed in coq/lib/Tensor.v',
                   'harness/props/c06.py Kronecker oracle (np.kron, explicit permutation matrices)', 'IEEE-754 exactness on small integers']
    rng = ctx.rng
    run_ = Run(ctx)

    # ---- corpus first
    cdir = vf.ROOT / 'corpus' / 'C06'
    for f in sorted(cdir.glob('*.json')) if cdir.exists() else []:
        data = json.loads(f.read_text())
        try:
            with time_limit(60.0):
                replay_case(ctx, run_, data['case'] if 'case' in data else data)
        except IterHang:
            ctx.violation(dict(call='corpus', symptom='hangs'), data['case'] if 'case' in data else data, 'an answer', 'no answer within 60 s',
                          f'corpus case {f.name} does not terminate')
        ctx.count('corpus')
    run_.flush()

    # ---- directed finding probe: raw-vector get_statevector on mixed radixes
    probe_statevector_radixes(ctx)

    t0 = time.time()
    # ---- exact stream
    for _ in range(ctx.n(300, 6000)):
        spec, extra = gen_exact_case(rng, 64 if rng.random() < 0.9 else 144)
        run_exact_case(run_, rng, spec, extra)
        if len(ctx.samples) < 2 and len(spec['ops']) >= 3:
            ctx.sample(dict(radixes=spec['radixes'], ops=[(o['k'], o['loc']) for o in spec['ops']], extra={k: v for k, v in extra.items() if k != 'state'}))
    run_.flush()
    tm['exact'] = round(time.time() - t0, 1)
    t0 = time.time()
    # ---- builder stream
    for i in range(ctx.n(400, 5000)):
        guarded(ctx, 'builder', dict(stream='builder', index=i, seed=ctx.seed), lambda: check_builder(run_, rng, malformed=(i % 7 == 6)))
    run_.flush()
    tm['builder'] = round(time.time() - t0, 1)
    t0 = time.time()
    # ---- parameter edit histories
    for _ in range(ctx.n(160, 3000)):
        rad = gen_radixes(rng, 36)
        spec = gen_bounded_spec(rng, rad, rng.randint(1, 6), 1, True, False)
        guarded(ctx, 'param_edits', dict(stream='param_edits', spec=strip_derived(spec)), lambda: check_param_edits(run_, rng, spec))
    run_.flush()
    tm['edits'] = round(time.time() - t0, 1)
    t0 = time.time()
    # ---- float stream
    for _ in range(ctx.n(120, 2500)):
        fspec = gen_real_spec(rng)
        guarded(ctx, 'float', dict(stream='float', spec=strip_derived(fspec)), lambda: check_float_circuit(ctx, rng, fspec))
        guarded(ctx, 'param_isolation', dict(stream='param_isolation', spec=strip_derived(fspec)), lambda: check_param_isolation(ctx, rng, fspec))
    tm['float'] = round(time.time() - t0, 1)
    t0 = time.time()
    # ---- iteration stream
    import signal

    def _alarm(*_):
        raise IterHang()
    for i in range(ctx.n(1500, 30000)):
        # a defective iterator may never leave __next__: 20 s limit per case, then the stream stops
        old_handler = signal.signal(signal.SIGALRM, _alarm)
        signal.setitimer(signal.ITIMER_REAL, 20.0)
        try:
            guarded(ctx, 'iteration', dict(stream='iteration', index=i, seed=ctx.seed), lambda: check_iteration(ctx, rng))
        except IterHang:
            ctx.violation(dict(call='CircuitIterator', symptom='hangs'), dict(stream='iteration', index=i, seed=ctx.seed), 'a finite sequence',
                          'no answer within 20 s', 'restricted iteration does not terminate')
            break
        finally:
            signal.setitimer(signal.ITIMER_REAL, 0)
            signal.signal(signal.SIGALRM, old_handler)
    tm['iteration'] = round(time.time() - t0, 1)
    t0 = time.time()
    # ---- grid iterator against the extracted model of iterator.py (coq/circuit/Iter.v) and the ordered brute-force oracle
    check_iter_model_batch(ctx, [gen_iter_model_case(rng) for _ in range(ctx.n(2500, 60000))])
    tm['iter_model'] = round(time.time() - t0, 1)
    # ---- shrink what failed (first case of each signature) before it is written to the replay file
    t0 = time.time()
    for v in ctx.violations[:12]:
        try:
            small = shrink_case(v['case'], v['signature'])
            if small is not v['case']:
                v['case'] = small
                ctx.count('shrunk_cases')
        except Exception:   # noqa
            pass
    tm['shrink'] = round(time.time() - t0, 1)
    ctx.cov['timings_s'] = tm
    ctx.cov['model_functions_with_theorems'] = ['apply_right', 'apply_left', 'eval_apply_right', 'sv_apply', 'get_unitary', 'get_statevector',
                                                'get_unitary_and_grad', 'params', 'set_params', 'get_param_location', 'get_param', 'set_param', 'freeze_param',
                                                'CircuitGridIterator.__init__', 'increment_iter', 'decrement_iter', 'step', '__next__']
    ctx.cov['correspondence_only'] = ['termination and IndexError-freedom of the iterator model (partial-correctness theorem only)',
                                      'CircuitIterator dispatch to CircuitDagIterator for all-default arguments (C04/C05)']
    ctx.cov['oracle_only'] = ['float-valued library gates (Kronecker oracle, finite differences)']
    ctx.cov['uncovered'] = ['UnitaryBuilder.calc_env_matrix (qubit-only code, used by QFactor; out of the property text)',
                            'eval_apply_left (unused by Circuit)']


def probe_statevector_radixes(ctx):
    """Circuit.get_statevector(raw vector) builds StateVector(in_state) without the circuit's radixes;
    for a dimension that is a power of two the radixes are guessed as qubits."""
    from bqskit.ir.circuit import Circuit
    from bqskit.ir.gates import XGate
    c = Circuit(2, [4, 2])
    c.append_gate(XGate(), [1])
    v = np.zeros(8)
    v[0] = 1
    exp = np.array(c.get_unitary().numpy) @ v
    try:
        got = np.array(c.get_statevector(v).numpy)
    except Exception as e:
        got = None
    ctx.case(dict(stream='probe', what='statevector_raw_vector_mixed_radix'), nontrivial=True)
    if got is None or not np.array_equal(got, exp):
        ctx.violation(dict(call='get_statevector', symptom='raw_vector_radixes_guessed'),
                      dict(radixes=[4, 2], ops=[['XGate', [1]]], in_state='e_0 as a plain array'),
                      [float(x) for x in exp.real], None if got is None else [float(x) for x in got.real],
                      'get_statevector on a plain vector ignores the circuit radixes (guesses qubits): X on qudit 1 of radixes [4,2] is applied to the wrong tensor factor')


def replay_case(ctx, run_, case):
    case = strip_derived(case)
    st = case.get('stream')
    if st == 'exact':
        import random
        run_exact_case(run_, random.Random(0), case['spec'], case.get('extra', {}))
    elif st == 'float':
        import random
        check_float_circuit(ctx, random.Random(0), case['spec'])
    elif st == 'param_edits':
        replay_edits(ctx, run_, case)
    elif st == 'builder':
        replay_builder(ctx, run_, case)
    elif st == 'probe':
        probe_statevector_radixes(ctx)
    elif st == 'iter_end_past':
        replay_end_past(ctx, case)
    elif st == 'iter_model':
        replay_iter_model(ctx, case)
    else:
        ctx.count('corpus_skipped_' + str(st))


def replay_end_past(ctx, case):
    """directed witness of C06-F2: an `end` beyond the last cycle is clipped, not an IndexError"""
    from bqskit.ir.circuit import Circuit
    import bqskit.ir.gates as G
    c = Circuit(case['n'])
    for nm, loc in case['ops']:
        c.append_gate(getattr(G, nm)(), loc)
    ctx.case(case, nontrivial=True)
    for q in case['queries']:
        kw = {}
        if 'end' in q:
            kw['end'] = tuple(q['end'])
        if 'qudits' in q:
            kw['qudits_or_region'] = q['qudits']
        if q.get('reverse'):
            kw['reverse'] = True
        inrange = dict(kw)
        inrange['end'] = (c.num_cycles - 1, kw['end'][1] if kw['end'][0] < c.num_cycles else c.num_qudits - 1)
        try:
            got = [(cy, tuple(op.location)) for cy, op in c.operations_with_cycles(**kw)]
            exp = [(cy, tuple(op.location)) for cy, op in c.operations_with_cycles(**inrange)]
        except Exception as e:   # noqa
            ctx.violation(dict(call='CircuitIterator', symptom='end_past_last_cycle_raises'), dict(case, query=q), 'clipped sequence',
                          exc_name(e) + ': ' + str(e)[:100], 'restricted iteration raised')
            continue
        if got != exp:
            ctx.violation(dict(call='CircuitIterator', symptom='wrong_operations'), dict(case, query=q), [list(map(str, e)) for e in exp],
                          [list(map(str, e)) for e in got], 'an end beyond the last cycle is not equivalent to the last point of the circuit')


def replay_edits(ctx, run_, case):
    class Fixed:
        """replays the recorded edit list through check_param_edits' code path"""
    circ = build_circuit(case['spec'])
    before = None
    for e in case['edits']:
        try:
            if e[0] == 'set':
                circ.set_param(e[1], float(e[2]))
            elif e[0] == 'setall':
                circ.set_params([float(x) for x in e[1]])
            else:
                U0 = np.array(circ.get_unitary().numpy)
                P0 = list(circ.params)
                circ.freeze_param(e[1])
                if not np.array_equal(U0, np.array(circ.get_unitary().numpy)):
                    ctx.violation(dict(call='freeze_param', symptom='unitary_changed'), case, 'same unitary', 'changed', 'freeze_param changed the unitary')
                if list(circ.params) != P0[:e[1]] + P0[e[1] + 1:]:
                    ctx.violation(dict(call='freeze_param', symptom='wrong_slice'), case, P0[:e[1]] + P0[e[1] + 1:], list(circ.params), 'freeze_param removed/shifted the wrong parameter')
        except (IndexError, ValueError):
            pass
    ctx.case(case, nontrivial=True)


def replay_builder(ctx, run_, case):
    from bqskit.qis.unitary.unitarybuilder import UnitaryBuilder
    from bqskit.qis.unitary.unitarymatrix import UnitaryMatrix
    from bqskit.qis.state.state import StateVector
    rad, loc, urad, which, inv = case['radixes'], case['loc'], case['urad'], case['op'], case['inverse']
    if case.get('malformed'):
        return
    D, ld = prod(rad), prod(urad)
    U, T, v = from_flat(case['U'], (ld, ld)), from_flat(case['T'], (D, D)), from_flat(case['v'], (D,))
    um = UnitaryMatrix(U, urad, False)
    if which == 'sv':
        s = StateVector(v, rad, False)
        s.apply(um, loc, inv)
        got = np.array(s.numpy)
    else:
        b = UnitaryBuilder(len(rad), rad)
        b.tensor = T.copy().reshape(tuple(rad) * 2)
        if which == 'ar':
            b.apply_right(um, loc, inv)
            got = np.array(b.get_unitary().numpy)
        elif which == 'al':
            b.apply_left(um, loc, inv)
            got = np.array(b.get_unitary().numpy)
        else:
            got = np.array(b.eval_apply_right(U, loc))
    Ue = np.conj(U).T if (inv and which != 'ear') else U
    E = kron_embed(rad, loc, Ue)
    exp = E @ v if which == 'sv' else (T @ E if which == 'al' else E @ T)
    ctx.case(case, nontrivial=True)
    if not np.array_equal(got, exp):
        ctx.violation(dict(call={'ar': 'apply_right', 'al': 'apply_left', 'ear': 'eval_apply_right', 'sv': 'StateVector.apply'}[which],
                           symptom='not_embed_product'), case, 'embed(U) on the proper side', 'different', 'tensor contraction differs from multiplication by the embedded matrix')


def replay(ctx, data):
    warnings.simplefilter('ignore')
    from bqskit.ir.circuit import Circuit  # noqa: F401
    run_ = Run(ctx)
    case = data.get('case', {})
    if isinstance(case, dict) and case.get('stream') in ('exact', 'float', 'param_edits', 'builder', 'probe', 'iter_end_past', 'iter_model'):
        replay_case(ctx, run_, case)
        run_.flush()
    elif isinstance(case, dict) and case.get('stream') == 'iteration':
        replay_iteration(ctx, case)
    elif isinstance(case, dict) and case.get('in_state'):
        probe_statevector_radixes(ctx)
    else:
        ctx.broken_obligation('replay: unknown case format', str(case)[:300])


def replay_iteration(ctx, case):
    """rebuild a circuit with the recorded grid (one gate per recorded location, cycle by cycle) and re-ask"""
    from bqskit.ir.circuit import Circuit
    from bqskit.ir.gates import XGate, CNOTGate, CCXGate
    from bqskit.ir.region import CircuitRegion
    n = case['n']
    c = Circuit(n)
    gates = {1: XGate(), 2: CNOTGate(), 3: CCXGate()}
    if 'build' in case:
        for h in case['build']:
            if h[0] == 'a':
                c.append_gate(gates[len(h[1])], h[1])
            else:
                c.insert_gate(h[1], gates[len(h[2])], h[2])
    else:
        for cy, row in enumerate(case['grid']):
            seen = set()
            for loc in row:
                if loc is not None and tuple(loc) not in seen:
                    seen.add(tuple(loc))
                    c.append_gate(gates[len(loc)], loc)
    grid = [[None if o is None else list(o.location) for o in row] for row in c._circuit]
    if grid != case['grid']:
        ctx.broken_obligation('replay: recorded grid cannot be rebuilt by appending', str(case['grid'])[:300])
        return
    a = case['args']
    kw = dict(exclude=a.get('exclude', False), reverse=a.get('reverse', False))
    if 'start' in a:
        kw['start'] = tuple(a['start'])
    if 'end' in a:
        kw['end'] = tuple(a['end'])
    qudits = list(range(n))
    nc = c.num_cycles
    bounds = {q: (0, nc) for q in qudits}
    if 'qudits' in a:
        qudits = a['qudits']
        kw['qudits_or_region'] = qudits
        bounds = {q: (0, nc) for q in qudits}
    if 'region' in a:
        bounds = {int(q): tuple(b) for q, b in a['region'].items()}
        kw['qudits_or_region'] = CircuitRegion(bounds)
        qudits = list(bounds)
    ctx.case(case, nontrivial=True)
    try:
        got = [(cy, tuple(op.location)) for cy, op in c.operations_with_cycles(**kw)]
    except Exception as e:   # noqa
        ctx.violation(dict(call='CircuitIterator', symptom='raises'), case, 'a sequence', exc_name(e) + ': ' + str(e)[:100], 'restricted iteration raised')
        return
    start = tuple(kw.get('start', (0, 0)))
    end = tuple(kw.get('end', (nc - 1, n - 1)))
    pts = [(cy, q) for cy in range(nc) for q in sorted(qudits) if start <= (cy, q) <= end and bounds[q][0] <= cy <= bounds[q][1]]
    if kw['reverse']:
        pts = pts[::-1]
    exp, seen = [], set()
    for cy, q in pts:
        op = c._circuit[cy][q]
        if op is None or (cy, id(op)) in seen:
            continue
        seen.add((cy, id(op)))
        if kw['exclude'] and not all(x in qudits and bounds[x][0] <= cy <= bounds[x][1] for x in op.location):
            continue
        exp.append((cy, tuple(op.location)))

    def canon_seq(seq):
        return [sorted(g) for _, g in itertools.groupby(seq, key=lambda e: e[0])]
    if canon_seq(got) != canon_seq(exp):
        ctx.violation(dict(call='CircuitIterator', symptom='wrong_operations'), case, [list(map(str, e)) for e in exp], [list(map(str, e)) for e in got],
                      'restricted iteration does not return exactly the operations inside the requested area')
