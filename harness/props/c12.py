"""C12 - cancelling work removes it everywhere and disturbs nothing else.

Correspondence: the extracted Coq model (coq/rt/CancelM.v) and REAL Worker / DetachedServer objects
(harness/rtsim_cancel.py) execute the same event sequence (random FIFO-respecting schedules, client requests at
random times, scheduler choices replayed from the implementation); labels and the canonical tables of every node
and channel are compared after every event.
Property oracle: evaluated on the real run only, from the harness' own record of who submitted what.
"""
from __future__ import annotations

import json
import multiprocessing
import os
import random
import traceback
import warnings

import vf

BUILD = dict(extracted=['cancel'], translators=set())

D8_SIG = dict(symptom='cancelled_task_left_in_tasks', cause='submit_handled_after_cancel')
D14_SIG = dict(call='_process_task_completion', symptom='owned_mailbox_skipped')
D15_SIG = dict(call='handle_error', symptom='error_of_cancelled_task_forwarded')
D4_SIG = dict(call='handle_cancel_comp_task', symptom='raises_for_finished_or_unknown_id')


# ------------------------------------------------------------------------------------------------ generation
def gen_body(rng, kids, malformed, style=None, wide=False):
    """A script over the child programs `kids`.  Valid scripts never await/next a future after cancelling or
    awaiting it and never cancel twice."""
    style = style or rng.choice(['await_all', 'pardo', 'mixed', 'mixed', 'leave', 'cancel_first'])
    if style == 'pardo':
        k = rng.randint(3, 5) if wide else rng.randint(2, 4)
        body = [['m'] + [rng.choice(kids) for _ in range(k)], ['n', 0], ['c', 0]]
        if rng.random() < 0.3:
            body.insert(1, ['s', rng.choice(kids)])
            body.insert(2, ['a', 1])
        return body
    nf = rng.randint(1, 3)
    create, acts = [], []
    for f in range(nf):
        if rng.random() < (0.2 if wide else 0.5):
            create.append(['s', rng.choice(kids)])
        else:
            create.append(['m'] + [rng.choice(kids) for _ in range(rng.randint(3, 5) if wide else rng.randint(1, 4))])
        seq = []
        if style == 'await_all':
            fate = 'a'
        elif style == 'leave':
            fate = rng.choice(['', '', 'a'])
        elif style == 'cancel_first':
            fate = 'c' if f == 0 else rng.choice(['a', 'a', ''])
        else:
            fate = rng.choice(['a', 'a', 'c', 'c', ''])
            for _ in range(rng.choice([0, 0, 1, 2])):
                seq.append(['n', f])
        if fate:
            seq.append([fate, f])
        acts.append(seq)
    body = []
    # creations first or interleaved with the actions of earlier futures
    pending = [list(s) for s in acts]
    avail = []
    ci = 0
    while ci < nf or any(pending[f] for f in avail):
        options = []
        if ci < nf:
            options += ['create'] * 2
        options += [f for f in avail if pending[f]]
        o = rng.choice(options)
        if o == 'create':
            body.append(create[ci])
            avail.append(ci)
            ci += 1
        else:
            body.append(pending[o].pop(0))
    if malformed:
        junk = rng.choice(['await_after_cancel', 'cancel_twice', 'cancel_after_await', 'next_after_await',
                           'bad_index', 'empty_map', 'unknown_prog'])
        f = rng.randrange(nf)
        if junk == 'await_after_cancel':
            body += [['c', f], ['a', f]] if ['c', f] not in body and ['a', f] not in body else [['a', f]]
        elif junk == 'cancel_twice':
            body += [['c', f], ['c', f]]
        elif junk == 'cancel_after_await':
            body += [['c', f]]
        elif junk == 'next_after_await':
            body += [['n', f]]
        elif junk == 'bad_index':
            body.insert(rng.randrange(len(body) + 1), [rng.choice(['a', 'c', 'n']), nf + rng.randint(0, 2)])
        elif junk == 'empty_map':
            body.insert(rng.randrange(len(body) + 1), ['m'])
        else:
            body.insert(rng.randrange(len(body) + 1), ['s', 99])
    return body


def gen_case(rng, idx, malformed=False, wide=False):
    nw = rng.choice([1, 2, 2, 3, 3, 4])
    widths = [rng.randint(1, 2), rng.randint(1, 3), rng.randint(1, 3), rng.randint(1, 2)]
    depth = rng.choice([2, 3, 3, 4])
    widths = widths[:depth]
    levels, n = [], 0
    for wd in widths:
        levels.append(list(range(n, n + wd)))
        n += wd
    progs = [None] * n
    for li, lv in enumerate(levels):
        for p in lv:
            if li == len(levels) - 1 or (li > 0 and rng.random() < 0.25):
                progs[p] = []
            else:
                progs[p] = gen_body(rng, levels[li + 1], malformed and rng.random() < 0.5, wide=wide)
    roots = levels[0]
    ncl = rng.choice([1, 1, 2, 2, 3])
    plans, tid = [], 0
    for c in range(ncl):
        plan = [['connect']]
        ids = []
        for _ in range(rng.choice([1, 1, 2])):
            plan.append(['submit', tid, rng.choice(roots)])
            ids.append(tid)
            tid += 1
        tail = []
        for i in ids:
            r = rng.random()
            if r < 0.55:
                tail.append(['request', i])
            elif r < 0.8:
                tail.append(['cancel', i])
            elif r < 0.9:
                tail += [['request', i], ['cancel', i]]
            if malformed and rng.random() < 0.2:
                tail.append(['request', i])
        for _ in range(rng.choice([0, 0, 0, 1, 2])):
            # cancel of anything: own id again / after delivery, another client's id, an id nobody submitted
            tail.append(['cancel', rng.choice(ids + [rng.randrange(0, tid + 2), 90 + rng.randrange(5)])])
        rng.shuffle(tail)
        if rng.random() < 0.35:
            tail.insert(rng.randrange(len(tail) + 1), ['disconnect'])
        elif rng.random() < 0.3:
            tail.append(['disconnect'])
        plans.append(plan + tail)
    return dict(idx=idx, nw=nw, progs=progs, plans=plans, seed=rng.randrange(1 << 30),
                pc=rng.choice([0.03, 0.1, 0.3]), malformed=malformed,
                weights={f'{k}{w}': rng.choice([0.15, 1, 1, 1, 4]) for k in ('down', 'up', 'step') for w in range(nw)})


def directed_cases():
    """Small hand-made scenarios: the D8 witness, ParallelDo-style first-finisher, completion with two open futures."""
    cs = []
    # D8: root submits a child and awaits; client cancels while the SUBMIT is still on its way up
    cs.append(dict(idx='d8', nw=1, progs=[[['s', 1], ['a', 0]], []], plans=[], seed=1, pc=0, malformed=False, weights={},
                   events=[['cl', 0, 'connect'], ['cl', 0, 'submit', 0, 0], ['down', 0], ['step', 0],
                           ['cl', 0, 'cancel', 0], ['down', 0], ['up', 0], ['down', 0], ['step', 0],
                           ['up', 0]]))
    # ParallelDo pick_first on 3 workers
    cs.append(dict(idx='pardo', nw=3, progs=[[['m', 1, 1, 2], ['n', 0], ['c', 0]], [], [['s', 1], ['a', 0]]],
                   plans=[[['connect'], ['submit', 0, 0], ['request', 0]]], seed=2, pc=0.3, malformed=False, weights={}))
    # completion with two unfinished futures
    cs.append(dict(idx='two_open', nw=2, progs=[[['s', 1], ['s', 1]], [['s', 2], ['a', 0]], []],
                   plans=[[['connect'], ['submit', 0, 0], ['request', 0]]], seed=3, pc=0.3, malformed=False, weights={}))
    return cs


# ------------------------------------------------------------------------------------------------ oracle
class Oracle:
    """Evaluates C12 on the real run from the harness' own bookkeeping (who submitted what, which CANCELs were issued
    and handled where); it does not read the model."""

    def __init__(self, sim, case):
        self.sim, self.case = sim, case
        self.findings = []              # (signature, expected, observed, what)
        self.cancelled = set()          # spec-level cancelled addresses (explicit, by completion, by client)
        self.issued = set()             # addresses a CANCEL message was really issued for
        self.box_cancelled = set()      # (enc worker, mailbox) cancelled explicitly
        self.handled = {w._id: set() for w in sim.workers}     # CANCEL addresses handled per worker (by worker id)
        self.arrived_after = set()      # (worker index, addr) tasks handed to a worker after a covering CANCEL
        self.done = {}                  # addr -> count
        self.consumed = set()           # (enc worker, mailbox) awaited to completion
        self.errors = []                # (comp id, kind)
        self.errored_tasks = set()
        self.comp_of_id = {}            # client task id -> server mailbox id
        self.owner_of_id = {}
        self.comp_cancelled = {}        # client task id -> True
        self.delivered = {}             # client task id -> list of values
        self.requested = set()
        self.disconnected = set()
        self.acked_cancel = set()
        self.pending_completion = None
        self.stats = dict(runs_of_dead=0, obs=0, cancels=0, discards=0, overtakes=0, client_cancels=0, disconnects=0,
                          drops=0, skips=0, errs=0, cancel_before_start=0, cancel_while_delayed=0,
                          cancel_while_awaiting=0, cancel_after_partial=0, cancel_after_completion=0,
                          cancel_while_ready=0)
        sim.hook = self.hook

    def report(self, sig, expected, observed, what):
        self.findings.append((sig, expected, observed, what))

    # ancestry by the harness' own record
    def ancestors(self, a):
        out = []
        while a is not None:
            out.append(a)
            a = self.sim.parent.get(a)
        return out

    def dead(self, a, cset=None):
        cset = self.cancelled if cset is None else cset
        return any(x in cset for x in self.ancestors(a))

    def hook(self, kind, *args):
        if kind == 'obs':
            w, a, mb, nx, vals = args
            self.stats['obs'] += 1
            if (w, mb) in self.box_cancelled:
                self.report(dict(symptom='value_of_cancelled_future_delivered'), 'no delivery after cancel',
                            dict(task=a, mailbox=mb, values=vals), 'await/next returned values of a cancelled future')
            for slot, v in vals:
                child = (w, mb, slot)
                if self.sim.prog_of.get(child) != v:
                    self.report(dict(symptom='wrong_value'), self.sim.prog_of.get(child), v,
                                f'task {a} received a wrong value in slot {slot} of mailbox {mb}')
                if not self.dead(a) and self.dead(child):
                    self.report(dict(symptom='value_of_cancelled_task_delivered'), 'none', dict(task=a, child=child),
                                'a live task received the value of cancelled work')
            if not nx:
                self.consumed.add((w, mb))
        elif kind == 'cancel':
            w, a, mb, n = args
            self.stats['cancels'] += 1
            self.box_cancelled.add((w, mb))
            kids = self.sim.children.get((w, mb), [])
            for c in kids:
                self.cancelled.add(c)
                self.classify_cancel_point(c)
        elif kind == 'done':
            w, a, v = args
            self.done[a] = self.done.get(a, 0) + 1
            if self.done[a] > 1:
                self.report(dict(symptom='completed_twice'), 1, self.done[a], f'task {a} completed twice')
            if v != self.sim.prog_of.get(a):
                self.report(dict(symptom='wrong_value'), self.sim.prog_of.get(a), v, f'task {a} returned a wrong value')
            # task completion cancels its unfinished children: everything it still owns
            self.pending_completion = (w, a)

    def classify_cancel_point(self, c):
        """Where is child c when its CANCEL is issued? (coverage of the cancel points named by the property)"""
        sim = self.sim
        if self.done.get(c):
            self.stats['cancel_after_completion'] += 1
            return
        for w in sim.workers:
            for a, t in w._tasks.items():
                if tuple(enc(a)) == c:
                    st = sim.tstate.get(a)
                    if st is None or st.pc == 0:
                        self.stats['cancel_while_ready'] += 1
                    elif t.desired_box_id is not None:
                        box = w._mailboxes.get(t.desired_box_id)
                        if box is not None and box.num_results > 0:
                            self.stats['cancel_after_partial'] += 1
                        else:
                            self.stats['cancel_while_awaiting'] += 1
                    else:
                        self.stats['cancel_while_ready'] += 1
                    return
            for t in w._delayed_tasks:
                if tuple(enc(t.return_address)) == c:
                    self.stats['cancel_while_delayed'] += 1
                    return
        self.stats['cancel_before_start'] += 1

    def after(self, ev, labels, exc, extra):
        sim = self.sim
        for a in extra.get('issued', []):
            self.issued.add(tuple(a))
        if exc is not None:
            sig = dict(symptom='handler_raises', event=ev[0] if ev[0] != 'cl' else 'cl_' + ev[2], exc=type(exc).__name__)
            self.report(sig, 'no exception', repr(exc), 'a runtime handler raised: ' + ''.join(
                traceback.format_exception(type(exc), exc, exc.__traceback__))[-1500:])
            return
        if ev[0] == 'step':
            k = ev[1]
            w = sim.wmap[k]
            comp = self.pending_completion
            self.pending_completion = None
            for lab in labels:
                if lab[0] == 'run':
                    a = tuple(lab[2][0])
                    bad = [c for c in self.handled[k] if c in self.ancestors(a)]
                    if bad:
                        self.stats['runs_of_dead'] += 1
                        self.report(dict(symptom='descendant_run_after_cancel_handled'), 'not run',
                                    dict(worker=k, task=a, cancel=bad[0]),
                                    f'worker {k} stepped task {a} after it had handled CANCEL{bad[0]}')
                elif lab[0] == 'skip':
                    self.stats['skips'] += 1
                    a = tuple(lab[2])
                    if a in sim.prog_of and not self.dead(a) and not self.done.get(a):
                        self.report(dict(symptom='live_task_discarded'), 'run', dict(worker=k, task=a),
                                    'a task that was never cancelled was discarded from the ready queue')
                elif lab[0] == 'err':
                    self.stats['errs'] += 1
                    self.errored_tasks.add(tuple(lab[2]))
            if comp is not None:
                cw, a = comp
                # futures the task created and neither awaited nor cancelled: completion must cancel them (or, if
                # all their results were already in, just drop the mailbox)
                for (ow, mb), owner in sim.owner.items():
                    if owner != a or ow != cw:
                        continue
                    if (ow, mb) in self.consumed or (ow, mb) in self.box_cancelled:
                        continue
                    kids = sim.children.get((ow, mb), [])
                    if all(self.done.get(c) for c in kids) and mb not in w._mailboxes:
                        self.consumed.add((ow, mb))
                        continue
                    for c in kids:
                        self.cancelled.add(c)
                    if mb not in w._mailboxes and not set(kids) <= self.issued:
                        self.report(dict(call='_process_task_completion', symptom='cancel_not_sent'), sorted(kids),
                                    sorted(self.issued & set(kids)), f'task {a} completed; mailbox {mb} dropped without CANCEL for every child')
                    if mb in w._mailboxes:
                        self.report(dict(D14_SIG), 'mailbox dropped and CANCEL sent for every unfinished child',
                                    dict(worker=cw - 1, task=a, mailbox=mb, issued=sorted(self.issued & set(kids))),
                                    f'task {a} completed, its un-awaited future (mailbox {mb}) was neither dropped nor '
                                    'cancelled: owned_mailboxes is mutated by Worker.cancel while '
                                    '_process_task_completion iterates over it')
        elif ev[0] == 'down':
            k = ev[1]
            for lab in labels:
                if lab[0] == 'discard':
                    self.stats['discards'] += 1
                elif lab[0] == 'drop':
                    self.stats['drops'] += 1
                    a = tuple(lab[2][0])
                    if not self.dead(a):
                        self.report(dict(symptom='live_task_dropped'), 'kept', dict(worker=k, task=a),
                                    'a task that was never cancelled was removed by _handle_cancel')
            msg = extra.get('msg')
            if msg is not None and msg[0] == 'C':
                self.handled[k].add(tuple(msg[1]))
            elif msg is not None and msg[0] in ('B', 'S'):
                ts = msg[1] if msg[0] == 'B' else [msg[1]]
                for t in ts:
                    a = tuple(t[0])
                    if any(c in self.handled[k] for c in self.ancestors(a)):
                        self.arrived_after.add((k, a))
                        self.stats['overtakes'] += 1
        elif ev[0] == 'cl':
            c, what = ev[1], ev[2]
            if what == 'submit':
                mb = sim.server.mailbox_counter - 1
                self.comp_of_id[ev[3]] = mb
                self.owner_of_id[ev[3]] = c
            elif what == 'request':
                unknown = ev[3] in self.comp_cancelled or self.owner_of_id.get(ev[3]) != c or ev[3] in self.delivered
                self.requested.add(ev[3])
                if unknown:
                    self.disconnected.add(c)     # 'Unknown task.' -> the server disconnects the client
                    for i, o in self.owner_of_id.items():
                        if o == c and i not in self.delivered:
                            self.comp_cancelled[i] = True
                            self.cancelled.add((0, self.comp_of_id[i], 0))
            elif what == 'cancel':
                tid = ev[3]
                effective = (tid in self.comp_of_id and self.owner_of_id[tid] == c and tid not in self.comp_cancelled
                             and tid not in self.delivered)
                if effective:
                    self.stats['client_cancels'] += 1
                    self.comp_cancelled[tid] = True
                    self.cancelled.add((0, self.comp_of_id[tid], 0))
                    self.classify_cancel_point((0, self.comp_of_id[tid], 0))
                else:
                    self.stats['noop_cancels'] = self.stats.get('noop_cancels', 0) + 1
                    if extra.get('issued'):
                        self.report(dict(symptom='foreign_or_dead_cancel_had_effect'), 'acknowledged only', extra['issued'],
                                    f'client {c} named task {tid}, which is not one of its live tasks, and CANCELs were issued')
                if not any(lab[0] == 'cli' and lab[1] == c and lab[2] == ['A'] for lab in labels):
                    self.report(dict(symptom='cancel_not_acknowledged'), 'CANCEL acknowledgement', labels,
                                f'client {c} would block for ever in Compiler.cancel({tid})')
            elif what == 'disconnect':
                self.stats['disconnects'] += 1
                self.disconnected.add(c)
                for i, o in self.owner_of_id.items():
                    if o == c and i not in self.delivered and i not in self.comp_cancelled:
                        self.comp_cancelled[i] = True
                        self.cancelled.add((0, self.comp_of_id[i], 0))
        # everything the server sent to clients in this event
        for lab in labels:
            if lab[0] != 'cli':
                continue
            ci, m = lab[1], lab[2]
            if m[0] == 'R':
                # which task id?  the one being requested / whose RESULT the server is handling in this event
                tid = None
                if ev[0] == 'cl' and ev[2] == 'request':
                    tid = ev[3]
                elif ev[0] == 'up' and extra.get('msg') is not None and extra['msg'][0] == 'R' and extra['msg'][1][0] == 0:
                    ids = [i for i, mb in self.comp_of_id.items() if mb == extra['msg'][1][1]]
                    tid = ids[0] if ids else None
                if tid is None or self.owner_of_id.get(tid) != ci or tid not in self.requested:
                    self.report(dict(symptom='unrequested_result'), 'none', dict(client=ci, msg=m, task=tid),
                                'a RESULT was sent to a client that did not ask for it')
                    continue
                self.delivered.setdefault(tid, []).append(m[1])
                if tid in self.comp_cancelled:
                    self.report(dict(symptom='result_of_cancelled_compilation_delivered'), 'none', dict(task=tid, value=m[1]),
                                'the client received the result of a compilation task it had cancelled')
                if m[1] != sim.prog_of.get((0, self.comp_of_id[tid], 0)):
                    self.report(dict(symptom='wrong_value'), sim.prog_of.get((0, self.comp_of_id[tid], 0)), m[1],
                                f'client {ci} received a wrong result for task {tid}')
            elif m[0] == 'E' and m[1] != 0:
                pass
        if ev[0] == 'up' and extra.get('msg') is not None and extra['msg'][0] == 'E':
            comp = extra['msg'][1]
            self.errors.append((comp, extra['msg'][2]))
            ids = [i for i, mb in self.comp_of_id.items() if mb == comp]
            if ids and ids[0] in self.comp_cancelled and any(lab[0] == 'cli' and lab[2][0] == 'E' for lab in labels):
                self.report(dict(D15_SIG), 'errors of cancelled compilation tasks are discarded',
                            dict(task=ids[0], kind=extra['msg'][2]),
                            'the ERROR of a compilation task was forwarded to the client after the client had cancelled '
                            'it (handle_cancel_comp_task leaves mailbox_to_task_dict[mailbox_id])')

    def at_quiescence(self):
        sim = self.sim
        s = sim.server
        for w in sim.workers:
            k = w._id
            for a, t in w._tasks.items():
                ea = tuple(enc(a))
                if self.dead(ea) and not self.dead(ea, self.issued):
                    self.report(dict(D14_SIG, effect='child_never_cancelled'), 'no entry', dict(worker=k, task=ea),
                                f'task {ea} belongs to work whose owner completed, but no CANCEL was ever issued for it')
                elif self.dead(ea):
                    if (k, ea) in self.arrived_after:
                        self.report(dict(D8_SIG), 'no entry', dict(worker=k, task=ea),
                                    f'worker {k} keeps cancelled task {ea} in _tasks for ever: its SUBMIT was handled after '
                                    'the CANCEL of an ancestor (regression of /repo 5dfab15: the skipped task must be forgotten)')
                    else:
                        self.report(dict(symptom='cancelled_task_left_in_tasks', cause='other'), 'no entry',
                                    dict(worker=k, task=ea), f'worker {k} still holds cancelled task {ea} at quiescence')
            for t in w._delayed_tasks:
                ea = tuple(enc(t.return_address))
                if self.dead(ea):
                    self.report(dict(symptom='cancelled_task_left_in_delayed'), 'no entry', dict(worker=k, task=ea),
                                f'worker {k} still holds delayed cancelled task {ea}')
            for a in list(w._ready_task_ids.queue):
                self.report(dict(symptom='queue_entry_left'), 'empty', dict(worker=k, addr=enc(a)), 'ready queue not empty')
            for mb in w._mailboxes:
                owner = sim.owner.get((k + 1, mb))
                if (k + 1, mb) in self.box_cancelled:
                    self.report(dict(symptom='mailbox_of_cancelled_future_left'), 'no mailbox', dict(worker=k, mailbox=mb),
                                'the mailbox of a cancelled future is still present')
                elif owner is not None and self.done.get(owner):
                    self.report(dict(D14_SIG), 'no mailbox', dict(worker=k, mailbox=mb, owner=owner),
                                f'mailbox {mb} of worker {k} outlives its owner {owner} (completed) for ever')
                elif owner is not None and self.dead(owner) and not self.dead(owner, self.issued):
                    self.report(dict(D14_SIG, effect='child_never_cancelled'), 'no mailbox', dict(worker=k, mailbox=mb, owner=owner),
                                f'mailbox {mb} belongs to work whose owner completed, but no CANCEL was ever issued for it')
                elif owner is not None and self.dead(owner):
                    self.report(dict(symptom='mailbox_of_cancelled_task_left'), 'no mailbox',
                                dict(worker=k, mailbox=mb, owner=owner), 'a mailbox owned by cancelled work is still present')
        # server tables
        ci = sim._client_index
        for tid, mb in self.comp_of_id.items():
            if tid in self.comp_cancelled:
                if mb in s.mailboxes:
                    self.report(dict(symptom='server_mailbox_left'), 'no mailbox', dict(task=tid), 'server keeps the mailbox of a cancelled compilation task')
                for conn, ids in s.clients.items():
                    if tid in ids:
                        self.report(dict(symptom='server_client_entry_left'), 'absent', dict(task=tid), 'server keeps a cancelled task id in clients[conn]')
                if tid in s.tasks or mb in s.mailbox_to_task_dict:
                    self.report(dict(symptom='server_task_entry_left'), 'absent', dict(task=tid, in_tasks=tid in s.tasks,
                                in_m2t=mb in s.mailbox_to_task_dict),
                                'server keeps tasks / mailbox_to_task_dict entries of a cancelled compilation task')
        for c in self.disconnected:
            conn = sim.clients[c]
            left = dict(clients=conn in s.clients, tasks=[t for t, (mb, cc) in s.tasks.items() if cc is conn],
                        m2t=[mb for mb, t in s.mailbox_to_task_dict.items() if self.owner_of_id.get(t) == c],
                        mailboxes=[mb for t, mb in self.comp_of_id.items() if self.owner_of_id[t] == c and mb in s.mailboxes])
            if left['clients'] or left['tasks'] or left['m2t'] or left['mailboxes']:
                self.report(dict(symptom='server_tables_after_disconnect'), 'nothing', left,
                            f'server tables still hold entries of disconnected client {c}')
        # non-cancelled work completes, with the right values
        blocked_comps = set()
        for a in self.errored_tasks:
            blocked_comps.add(self.ancestors(a)[-1])
        for a, p in sim.prog_of.items():
            if self.dead(a) or self.ancestors(a)[-1] in blocked_comps:
                continue
            if not self.done.get(a):
                self.report(dict(symptom='live_task_never_completed'), 'completed', dict(task=a, prog=p),
                            f'task {a} was never cancelled but did not complete')
        for tid, mb in self.comp_of_id.items():
            if tid in self.comp_cancelled or (0, mb, 0) in blocked_comps or self.owner_of_id[tid] in self.disconnected:
                continue
            if tid in self.requested and self.delivered.get(tid) != [sim.prog_of[(0, mb, 0)]]:
                self.report(dict(symptom='result_not_delivered'), [sim.prog_of[(0, mb, 0)]], self.delivered.get(tid),
                            f'client did not receive exactly the result of task {tid}')


def enc(a):
    return [a.worker_id + 1, a.mailbox_index, a.mailbox_slot]


def split_top(s):
    """'[labels] [state]' -> (labels text, state text)"""
    d = 0
    for i, ch in enumerate(s):
        if ch == '[':
            d += 1
        elif ch == ']':
            d -= 1
            if d == 0:
                return s[:i + 1], s[i + 2:]
    return s, ''


# ------------------------------------------------------------------------------------------------ one case
def model_line(ev, extra):
    f = vf_fmt
    if ev[0] == 'down':
        return f'e down {ev[1]}'
    if ev[0] == 'step':
        return f'e step {ev[1]}'
    if ev[0] == 'up':
        return f'e up {ev[1]} {f(extra.get("asg", []))}'
    c, what = ev[1], ev[2]
    if what == 'connect':
        return f'e cl {c} connect'
    if what == 'submit':
        return f'e cl {c} submit {ev[3]} {ev[4]} {f(extra.get("asg", []))}'
    if what == 'request':
        return f'e cl {c} request {ev[3]} {f(extra.get("order", []))}'
    if what == 'cancel':
        return f'e cl {c} cancel {ev[3]}'
    return f'e cl {c} disconnect {f(extra.get("order", []))}'


def vf_fmt(x):
    from rtsim_cancel import fmt
    return fmt(x)


def run_case(case):
    """Run one scenario on the real objects.  Returns the model lines, the real observations and the oracle's
    findings.  If case['events'] is present that exact event sequence is executed (replay / directed cases)."""
    import rtsim_cancel as R
    rng = random.Random(case['seed'])
    random.seed(case['seed'])            # ServerBase.assign_tasks uses the global generator
    warnings.simplefilter('ignore')      # "coroutine was never awaited" of tasks that are never run
    sim = R.RealSys(case['nw'], case['progs'])
    out = dict(idx=case['idx'], lines=['reset %d %s %d %d' % (case['nw'], R.fmt(case['progs']), 1 if case.get('fx') else 0, 1 if case.get('f8') else 0)], real=[], events=[],
               findings=[], quiescent=False, error=None)
    try:
        orc = Oracle(sim, case)
        issued = set()
        plans = [list(p) for p in case.get('plans', [])]
        fixed = case.get('events')
        cap = case.get('cap', 500)
        n = 0
        while n < cap:
            if fixed is not None:
                if n >= len(fixed):
                    break
                ev = tuple(fixed[n])
            else:
                sysev = sim.enabled()
                clev = []
                for c, plan in enumerate(plans):
                    while plan:
                        act = plan[0]
                        ok = True
                        if act[0] == 'cancel':
                            # any id may be named at any time by a connected client (own live task: cancelled;
                            # anything else: only acknowledged)
                            ok = c not in orc.disconnected
                        elif act[0] in ('request', 'submit', 'disconnect'):
                            ok = c not in orc.disconnected
                            if act[0] == 'request' and not case['malformed']:
                                ok = ok and act[1] not in orc.comp_cancelled and act[1] not in orc.requested
                            if act[0] == 'request' and act[1] in orc.requested and act[1] not in orc.delivered:
                                ok = False      # a client blocks in result(); it cannot ask twice
                        if ok:
                            break
                        plan.pop(0)
                    if plan:
                        clev.append(('cl', c) + tuple(plan[0]))
                if not sysev and not clev:
                    break
                if clev and (not sysev or rng.random() < case['pc']):
                    ev = rng.choice(clev)
                    plans[ev[1]].pop(0)
                else:
                    wts = [case['weights'].get(f'{e[0]}{e[1]}', 1) for e in sysev]
                    ev = rng.choices(sysev, wts)[0]
            pre_msg = None
            if ev[0] == 'down':
                pre_msg = sim.cmsg_w(sim.down[ev[1]].q[0]) if sim.down[ev[1]].q else None
            elif ev[0] == 'up':
                q = sim.workers[ev[1]]._conn.q
                pre_msg = sim.cmsg_w(q[0]) if q else None
            labels, exc, extra = sim.do(ev)
            extra['msg'] = pre_msg
            for a in extra.get('issued', []):
                issued.add(tuple(a))
            orc.after(ev, labels, exc, extra)
            out['events'].append(list(ev))
            out['lines'].append(model_line(ev, extra))
            out['real'].append('none' if exc is not None else R.fmt(labels) + ' ' + sim.canon(issued))
            n += 1
            if exc is not None:
                break
        else:
            out['capped'] = True
        if not out.get('capped') and not sim.enabled() and all(r != 'none' for r in out['real']):
            # nothing is enabled: channels empty, every worker blocked on an empty queue
            out['quiescent'] = True
            if fixed is None or case.get('check_quiescence', True):
                orc.at_quiescence()
        out['findings'] = orc.findings
        out['stats'] = orc.stats
        out['n_tasks'] = len(sim.prog_of)
    except BaseException:
        out['error'] = traceback.format_exc()
    finally:
        sim.close()
    return out


# ------------------------------------------------------------------------------------------------ variant probe
def probe_completion_variant():
    """Which completion loop does the implementation have?  A task that returns with two un-awaited futures either
    cancels both (fixes/D14.patch: the model's fx = 1) or only the first (D14, /repo as it is: fx = 0).  The Coq
    theorems hold for both variants; any third behaviour shows up as a correspondence mismatch."""
    import rtsim_cancel as R
    sim = R.RealSys(1, [[['s', 1], ['s', 1]], []])
    try:
        for ev in (('cl', 0, 'connect'), ('cl', 0, 'submit', 0, 0), ('down', 0), ('step', 0)):
            sim.do(ev)
        w = sim.workers[0]
        ncancel = sum(1 for m, _ in w._conn.q if m == R.M.CANCEL)
        return ncancel == 2 and not w._mailboxes
    finally:
        sim.close()


def probe_skip_variant():
    """Does _get_next_ready_task forget a task it discards because of a cancelled breadcrumb (/repo 5dfab15: the
    model's f8 = 1) or leave it in _tasks (before: f8 = 0)?  Probed with the D8 scenario."""
    import rtsim_cancel as R
    sim = R.RealSys(1, [[['s', 1], ['a', 0]], []])
    try:
        for ev in (('cl', 0, 'connect'), ('cl', 0, 'submit', 0, 0), ('down', 0), ('step', 0), ('cl', 0, 'cancel', 0),
                   ('down', 0), ('up', 0), ('down', 0), ('step', 0)):
            sim.do(ev)
        return not sim.workers[0]._tasks
    finally:
        sim.close()


# ------------------------------------------------------------------------------------------------ exhaustive schedules
def enum_schedules(base, limit):
    """All FIFO-respecting schedules of a small scenario (thorough tier): depth-first over the enabled events of the
    real system, re-executing the prefix for every node.  Client plans are consumed in order, at any time."""
    import rtsim_cancel as R
    warnings.simplefilter('ignore')
    leaves, stack = [], [[]]
    while stack and len(leaves) < limit:
        prefix = stack.pop()
        random.seed(base['seed'])
        sim = R.RealSys(base['nw'], base['progs'])
        try:
            pos = [0] * len(base['plans'])
            bad = False
            for ev in prefix:
                if ev[0] == 'cl':
                    pos[ev[1]] += 1
                _, exc, _ = sim.do(tuple(ev))
                if exc is not None:
                    bad = True
                    break
            nxt = [] if bad else [list(e) for e in sim.enabled()]
            if not bad:
                for c, plan in enumerate(base['plans']):
                    if pos[c] < len(plan):
                        nxt.append(['cl', c] + list(plan[pos[c]]))
        finally:
            sim.close()
        if not nxt or len(prefix) >= base.get('cap', 60):
            leaves.append(prefix)
        else:
            for ev in nxt:
                stack.append(prefix + [ev])
    return [dict(base, idx=f"{base['idx']}#{i}", events=evs, plans=[]) for i, evs in enumerate(leaves)]


def exhaustive_bases():
    return [
        dict(idx='ex_d8', nw=1, progs=[[['s', 1], ['a', 0]], []], plans=[[['connect'], ['submit', 0, 0], ['cancel', 0]]],
             seed=11, pc=0, malformed=False, weights={}, cap=40),
        dict(idx='ex_cancel_child', nw=2, progs=[[['s', 1], ['c', 0]], []], plans=[[['connect'], ['submit', 0, 0], ['request', 0]]],
             seed=12, pc=0, malformed=False, weights={}, cap=40),
        dict(idx='ex_two_open', nw=1, progs=[[['s', 1], ['s', 1]], []], plans=[[['connect'], ['submit', 0, 0], ['request', 0]]],
             seed=13, pc=0, malformed=False, weights={}, cap=40),
    ]


# ------------------------------------------------------------------------------------------------ manager topologies
def gen_tree_case(rng, idx):
    """2-3 managers x 1-2 real workers under the real server; scripts map more children than a manager has idle
    workers, so children spill to the other manager(s) before they are cancelled."""
    case = gen_case(rng, idx, malformed=(rng.random() < 0.1), wide=True)
    nm, nwm = rng.choice([(2, 1), (2, 1), (2, 2), (3, 1), (3, 2)])
    case['tree'] = [nm, nwm]
    case['idx'] = f't{idx}'
    kinds = [('mdown', i) for i in range(nm)] + [('up', i) for i in range(nm)]
    case['weights'] = {f'{k}{i}': rng.choice([0.15, 1, 1, 1, 4]) for k, i in kinds}
    case['wweights'] = {k: rng.choice([0.3, 1, 1, 3]) for k in ('down', 'mup', 'step')}
    return case


def tree_directed():
    # the seeded C12-D shape: root on manager 0 submits a child that spills to manager 1, the child spawns, root cancels
    return [dict(idx='t_spill', tree=[2, 1], nw=2, progs=[[['m', 1, 1, 1], ['n', 0], ['c', 0]], [['s', 2], ['a', 0]], []],
                 plans=[[['connect'], ['submit', 0, 0], ['request', 0]]], seed=21, pc=0.2, malformed=False, weights={}, wweights={}),
            dict(idx='t_spill3', tree=[3, 1], nw=3, progs=[[['m', 1, 1, 1, 1], ['n', 0], ['c', 0]], [['m', 2, 2], ['a', 0]], []],
                 plans=[[['connect'], ['submit', 0, 0], ['request', 0]]], seed=22, pc=0.2, malformed=False, weights={}, wweights={})]


def run_case_tree(case):
    """One scenario on real DetachedServer + Managers + Workers.  Oracle on the real run; the CANCEL routing of every
    manager / server handler is recorded for the correspondence with the Coq function route_cancel."""
    import rtsim_cancel as R
    rng = random.Random(case['seed'])
    random.seed(case['seed'])
    warnings.simplefilter('ignore')
    nm, nwm = case['tree']
    sim = R.TreeSys(nm, nwm, case['progs'])
    out = dict(idx=case['idx'], lines=[], real=[], events=[], findings=[], quiescent=False, error=None, tree=True, routes=[])
    try:
        orc = Oracle(sim, case)
        plans = [list(p) for p in case.get('plans', [])]
        fixed = case.get('events')
        cap = case.get('cap', 900)
        n = 0
        while n < cap:
            if fixed is not None:
                if n >= len(fixed):
                    break
                ev = tuple(fixed[n])
            else:
                sysev = sim.enabled()
                clev = []
                for c, plan in enumerate(plans):
                    while plan:
                        act = plan[0]
                        ok = c not in orc.disconnected
                        if act[0] == 'request' and not case['malformed']:
                            ok = ok and act[1] not in orc.comp_cancelled and act[1] not in orc.requested
                        if act[0] == 'request' and act[1] in orc.requested and act[1] not in orc.delivered:
                            ok = False
                        if ok:
                            break
                        plan.pop(0)
                    if plan:
                        clev.append(('cl', c) + tuple(plan[0]))
                if not sysev and not clev:
                    break
                if clev and (not sysev or rng.random() < case['pc']):
                    ev = rng.choice(clev)
                    plans[ev[1]].pop(0)
                else:
                    wts = [case['weights'].get(f'{e[0]}{e[1]}', case.get('wweights', {}).get(e[0], 1)) for e in sysev]
                    ev = rng.choices(sysev, wts)[0]
            labels, exc, extra = sim.do(ev)
            orc.after(ev, labels, exc, extra)
            out['events'].append(list(ev))
            if 'route' in extra:
                out['routes'].append(sim.routes[-1])
            n += 1
            if exc is not None:
                break
        else:
            out['capped'] = True
        if not out.get('capped') and not sim.enabled() and not any(f[0].get('symptom') == 'handler_raises' for f in orc.findings):
            out['quiescent'] = True
            if sim.in_flight():
                orc.report(dict(symptom='messages_left_in_flight'), 0, sim.in_flight(), 'nothing enabled but channels are not empty')
            orc.at_quiescence()
            # the broadcast reached everybody: every worker has handled every CANCEL that was issued
            for w in sim.workers:
                missing = sorted(orc.issued - orc.handled[w._id])
                if missing:
                    orc.report(dict(symptom='cancel_not_delivered_to_worker', topology='managers'), 'every worker handles every issued CANCEL',
                               dict(worker=w._id, manager=sim.mgr_of[w._id][0], missing=missing[:4]),
                               f'worker {w._id} (manager {sim.mgr_of[w._id][0]}) never received CANCEL{missing[0]}: the cancel was not '
                               'propagated to the root and broadcast down every link')
        out['findings'] = orc.findings
        out['stats'] = orc.stats
        out['n_tasks'] = len(sim.prog_of)
        spilled = sum(1 for a, p in sim.parent.items() if p is not None)
        out['stats']['tree_cases'] = 1
    except BaseException:
        out['error'] = traceback.format_exc()
    finally:
        sim.close()
    return out


# ------------------------------------------------------------------------------------------------ D4 probe
def d4_probe():
    """Client cancel for a finished / already cancelled / unknown id (DetachedServer.handle_cancel_comp_task)."""
    import rtsim_cancel as R
    res = []
    for name, evs in [
        ('cancel_after_result', [['cl', 0, 'connect'], ['cl', 0, 'submit', 0, 0], ['down', 0], ['step', 0], ['up', 0],
                                 ['cl', 0, 'request', 0], ['cl', 0, 'cancel', 0]]),
        ('cancel_twice', [['cl', 0, 'connect'], ['cl', 0, 'submit', 0, 0], ['cl', 0, 'cancel', 0], ['cl', 0, 'cancel', 0]]),
        ('cancel_unknown', [['cl', 0, 'connect'], ['cl', 0, 'cancel', 7]]),
    ]:
        sim = R.RealSys(1, [[]])
        try:
            exc = None
            for ev in evs:
                _, exc, _ = sim.do(tuple(ev))
            s = sim.server
            res.append((name, evs, type(exc).__name__ if exc is not None else None, len(s.mailboxes)))
        finally:
            sim.close()
    return res


# ------------------------------------------------------------------------------------------------ entry points
def compare_and_report(ctx, cases, outs, model_out):
    """Diff the model's answers with the real observations; report oracle findings."""
    pos = 0
    nmis = 0
    for case, out in zip(cases, outs):
        key = (case['idx'], case['nw'], vf.canon(case['progs']), vf.canon(case.get('plans')), case['seed'])
        if out['error']:
            ctx.broken_obligation('C12 co-simulation machinery raised', out['error'])
            continue
        nlines = len(out['lines'])
        mlines = model_out[pos:pos + nlines]
        pos += nlines
        st = out.get('stats', {})
        nontrivial = (st.get('cancels', 0) + st.get('client_cancels', 0) + st.get('disconnects', 0)) > 0
        ctx.case(key, nontrivial=nontrivial)
        ctx.count('workers=%d' % case['nw'])
        ctx.count('malformed' if case.get('malformed') else 'valid')
        ctx.count('quiescent' if out['quiescent'] else ('capped' if out.get('capped') else 'stopped'))
        for k, v in st.items():
            ctx.count('oracle.' + k, v)
        ctx.count('events', len(out['events']))
        ctx.count('tasks', out.get('n_tasks', 0))
        replay_case = dict(case, events=out['events'], plans=[])
        if out.get('tree'):
            ctx.count('topology.managers=%dx%d' % tuple(case['tree']))
            ctx.count('tree.cancel_routings', len(out['routes']))
            for (kind, direction, nemp, dests), ml in zip(out['routes'], mlines):
                want = '[' + ' '.join(str(d) for d in dests) + ']'
                if ml != want:
                    nmis += 1
                    ctx.violation(dict(kind='model-mismatch', event='cancel_routing', node=kind, direction=direction), replay_case, ml, want,
                                  f'{kind} handling CANCEL from {direction}: Coq route_cancel says {ml}, the implementation sent it to {want}',
                                  kind='correspondence', corr='coq/rt/CancelTree.v route_cancel vs bqskit/runtime/{manager,detached,base}.py')
                    break
            for sig, expected, observed, what in out['findings']:
                ctx.violation(sig, replay_case, expected, observed, what)
            if len(ctx.samples) < 6 and nontrivial and not any('tree' in str(x) for x in ctx.samples):
                ctx.sample(dict(tree=case['tree'], progs=case['progs'], n_events=len(out['events']), stats={k: v for k, v in st.items() if v}))
            continue
        # --- correspondence
        if len(mlines) != nlines or not mlines or not mlines[0].startswith('ok'):
            ctx.broken_obligation('correspondence cancel model: wrong number of answers', f'{len(mlines)} vs {nlines}')
            continue
        for i, (ml, rl) in enumerate(zip(mlines[1:], out['real'])):
            if ml.startswith('ok '):
                flags, rest = ml[3:12], ml[13:]
                if flags[1] == '1':
                    ctx.count('model.overtaken_events')
            else:
                flags, rest = None, ml
            if rest != rl:
                nmis += 1
                part = 'raises' if (rest == 'none') != (rl == 'none') else ('labels' if split_top(rest)[0] != split_top(rl)[0] else 'state')
                ev = out['events'][i]
                ctx.violation(dict(kind='model-mismatch', event=ev[0] if ev[0] != 'cl' else 'cl_' + ev[2], part=part),
                              dict(replay_case, events=out['events'][:i + 1]), rest[:4000], rl[:4000],
                              f'Coq model and real runtime disagree at event {i} {ev} ({part})',
                              kind='correspondence', corr='coq/rt/CancelM.v vs bqskit/runtime/{worker,detached,base}.py')
                break
        else:
            last = mlines[-1]
            if out['quiescent'] and last.startswith('ok '):
                fl = last[3:12].strip('[]').split()
                ctx.count('model.final_quiescent' if fl[1] == '1' else 'model.final_not_quiescent')
                ctx.count('model.final_clean' if fl[2] == '1' else 'model.final_unclean')
                ctx.count('model.final_no_orphans' if fl[3] == '1' else 'model.final_orphans')
                if fl[1] != '1':
                    ctx.violation(dict(kind='model-mismatch', part='quiescent'), replay_case, 'quiescent', last[:200],
                                  'real system is quiescent, model is not', kind='correspondence')
                leaks = any(f[0].get('symptom', '').startswith(('cancelled_task_left', 'mailbox_of_cancelled')) for f in out['findings'])
                d8 = any(f[0] == D8_SIG for f in out['findings'])
                if ((fl[2] == '0' and not leaks) or (fl[2] == '1' and d8)) and not any(f[0] == D14_SIG for f in out['findings']):
                    ctx.violation(dict(kind='model-mismatch', part='clean'), replay_case, f'clean={fl[2]}', f'oracle leaks={leaks}',
                                  "model's `clean` predicate and the oracle's leak check disagree at quiescence", kind='correspondence')
        # --- oracle findings
        for sig, expected, observed, what in out['findings']:
            ctx.violation(sig, replay_case, expected, observed, what)
        if len(ctx.samples) < 4 and nontrivial:
            ctx.sample(dict(nw=case['nw'], progs=case['progs'], n_events=len(out['events']), stats={k: v for k, v in st.items() if v}))
    return nmis


def run_chunk(cases):
    """Real runs of a chunk of cases + the extracted model on the same event lines (one model process per chunk)."""
    outs = [run_case_tree(c) if c.get('tree') else run_case(c) for c in cases]
    lines = []
    for o in outs:
        if not o['error']:
            if o.get('tree'):
                o['lines'] = ['route %s %s %d' % (k, d, n) for k, d, n, _ in o['routes']]
            lines += o['lines']
    try:
        model_out = vf.run_model('cancel', lines) if lines else []
    except Exception:
        model_out = []
        for o in outs:
            o['error'] = o['error'] or ('model process failed: ' + traceback.format_exc())
    return outs, model_out


def run_all(ctx, cases):
    procs = int(os.environ.get('VERIF_PROCS', '6'))
    size = max(1, min(40, len(cases) // (procs * 2) or 1))
    chunks = [cases[i:i + size] for i in range(0, len(cases), size)]
    if procs > 1 and len(chunks) > 1:
        import rtsim_cancel  # noqa: F401  import bqskit once, before forking (the import dominates otherwise)
        with multiprocessing.get_context('fork').Pool(procs) as pool:
            res = pool.map(run_chunk, chunks, chunksize=1)
    else:
        res = [run_chunk(c) for c in chunks]
    outs, model_out = [], []
    for o, m in res:
        outs += o
        model_out += m
    return outs, model_out


def run(ctx: vf.Ctx):
    ctx.uses_translators = set()
    ctx.build(**BUILD)
    ctx.rule = ('flat: random task-tree scripts (depth<=3, fan-out<=4; submit/map/await/next/cancel, ParallelDo-style first-finisher, '
                'futures left open at completion) on 1-4 real workers + real DetachedServer, 1-3 clients with '
                'submit/request/cancel/disconnect at random times, random FIFO-respecting delivery orders with skewed channel '
                'weights; ~15% malformed scripts (await/cancel after cancel, bad indices). non-trivial = at least one cancel '
                '(task, client or disconnect) happened; distinct by scenario + seed. managers: the same generator with wide maps (3-5 children, '
                'more than a manager has idle workers, so children spill to other managers) on server -> 2-3 managers -> 1-2 workers')
    ctx.assumptions += [
        'handlers are atomic: one event = one call of recv_incoming body / _try_step_next_ready_task / server handle_message '
        '(the two threads of a worker are interleaved at handler granularity, not statement granularity)',
        'channels are FIFO per direction per link (multiprocessing.Connection)',
        'manager topologies (2-3 real Managers x 1-2 real Workers under the real server): property oracle on the real run + '
        'correspondence of every CANCEL routing decision with coq/rt/CancelTree.v route_cancel; the full table-level model is flat',
        'the random assignment of schedule_tasks and python set iteration order are replayed from the implementation',
    ]
    ctx.trusted = ['Coq 8.16.1 kernel + vm_compute', 'ExtrOcamlBasic extraction, OCaml 4.13.1, coq/extract/cancel_driver.ml',
                   'harness/rtsim_cancel.py (fake connections, recording wrappers, script interpreter)',
                   'harness/props/c12.py oracle (own ancestry record)']
    fx = probe_completion_variant()
    f8 = probe_skip_variant()
    ctx.cov['skip_variant'] = 'skipped task forgotten (f8=1, /repo 5dfab15)' if f8 else 'skipped task left in _tasks (f8=0, D8)'
    ctx.cov['completion_loop_variant'] = 'fixes/D14.patch (fx=1)' if fx else '/repo as released, D14 present (fx=0)'
    cases = []
    cdir = vf.ROOT / 'corpus' / 'C12'
    for f in sorted(cdir.glob('*.json')) if cdir.exists() else []:
        d = json.loads(f.read_text())
        d['idx'] = 'corpus:' + f.stem
        cases.append(d)
    cases += directed_cases()
    rng = ctx.rng
    n = ctx.n(400, 20000)
    for i in range(n):
        cases.append(gen_case(rng, i, malformed=(rng.random() < 0.15)))
    cases += tree_directed()
    for i in range(ctx.n(120, 6000)):
        cases.append(gen_tree_case(rng, i))
    if not ctx.quick():
        nex, complete = 0, {}
        for b, lim in zip(exhaustive_bases(), [40000, 6000, 6000]):
            ex = enum_schedules(b, lim)
            nex += len(ex)
            complete[b['idx']] = dict(schedules=len(ex), all_interleavings=len(ex) < lim)
            cases += ex
        ctx.cov['exhaustive_schedules'] = nex
        ctx.cov['exhaustive_scenarios'] = complete
    for c in cases:
        c['fx'] = fx
        c['f8'] = f8
    outs, model_out = run_all(ctx, cases)
    nmis = compare_and_report(ctx, cases, outs, model_out)
    ctx.cov['model_events'] = sum(len(o['events']) for o in outs)
    ctx.cov['correspondence_mismatches'] = nmis
    # D4 probe (oracle only)
    for name, evs, exc, nbox in d4_probe():
        ctx.case(('d4', name))
        if exc is not None:
            ctx.violation(dict(D4_SIG, state=name), dict(probe=name, events=evs), 'CANCEL acknowledged or ignored', exc,
                          f'DetachedServer.handle_cancel_comp_task raises {exc} for {name}; the server loop shuts the runtime down (regression of the D4 fix, /repo 1a66c34)')
    ctx.cov['theorem_scope'] = ('worker + flat-topology server transition system, all schedules; CANCEL propagation through '
                                'arbitrary trees of managers (C12_cancel_reaches_every_worker); task placement through managers '
                                'and the statement-level thread interleaving are not modelled')


def replay(ctx, data):
    case = data['case']
    if 'probe' in case:
        for name, evs, exc, nbox in d4_probe():
            if name == case['probe'] and exc is not None:
                ctx.violation(dict(D4_SIG, state=name), case, 'no exception', exc, 'still raises')
        return
    case = dict(case)
    case.setdefault('idx', 'replay')
    case['fx'] = probe_completion_variant()
    case['f8'] = probe_skip_variant()
    outs, model_out = run_all(ctx, [case])
    compare_and_report(ctx, [case], outs, model_out)
