"""C13 - task failures reach their client; no client request takes the server down.

Co-simulation: a real DetachedServer (built with __new__ + fake connections, every event goes
through the real DetachedServer.handle_message) against the extracted Coq model coq/rt/ServerM.v,
answers + canonical tables compared after every event.  Two models exist: `current` (the code with
defect D4) and `fixed` (fixes/D4.patch); the module detects at run time which of them the
implementation corresponds to.  Property oracle: the five-state per-task specification, written
here in Python independently of the Coq development, evaluated on the implementation's answers.
Also: the real Compiler client methods against the same in-process server, and real Worker objects
for the path of an exception raised at depth d of a task tree.
"""
from __future__ import annotations

import itertools
import json
import queue
import uuid
from pathlib import Path

import vf

BUILD = dict(extracted=['server', 'errtree', 'client'], translators=set())

K_CONNECT, K_DISCONNECT, K_SUBMIT, K_REQUEST, K_STATUS, K_CANCEL, K_RESULT, K_ERROR, K_LOG = range(9)
KNAMES = ['connect', 'disconnect', 'submit', 'request', 'status', 'cancel', 'result', 'error', 'log']

SIG_CRASH = {'call': 'handle_status/handle_cancel_comp_task', 'symptom': 'server-crash-on-finished-or-unknown-id'}
SIG_FCANCEL = {'call': 'handle_cancel_comp_task', 'symptom': 'cancel-of-foreign-task-honoured'}
SIG_FSTATUS = {'call': 'handle_status', 'symptom': 'status-of-foreign-task-exposed'}


# --------------------------------------------------------------------------
# implementation side
# --------------------------------------------------------------------------
class FakeConn:
    def __init__(self, name, idx):
        self.name, self.idx, self.closed, self.sent = name, idx, False, []

    def send(self, m):
        self.sent.append(m)

    def close(self):
        self.closed = True

    def __repr__(self):
        return f'<{self.name}>'


class FakeSel:
    def unregister(self, c):
        pass

    def register(self, *a):
        pass

    def close(self):
        pass


class FakeTask:   # stands for a CompilationTask: only the attributes the server reads
    def __init__(self, t):
        self.task_id = uuid.UUID(int=t)
        self.logging_level = 0
        self.max_logging_depth = -1


class EmptyLike:
    """a result object that is falsy but not None (len 0), like an operation-free Circuit"""

    def __init__(self, v):
        self.v = v

    def __len__(self):
        return 0


def res_payload(v):
    """result tag -> payload.  Tags 0-5 are falsy-but-not-None values (ServerMailbox.ready must test `is not None`),
    6.. are ordinary truthy tuples."""
    if v == 0:
        return 0
    if v == 1:
        return ''
    if v == 2:
        return ()
    if v == 3:
        return []
    if v == 4:
        return EmptyLike(4)
    if v == 5:
        from bqskit.ir.circuit import Circuit
        return Circuit(1)               # no operations: len() == 0
    return ('res', v)


def res_tag(p):
    from bqskit.ir.circuit import Circuit
    if isinstance(p, tuple) and p[:1] == ('res',):
        return p[1]
    if isinstance(p, EmptyLike):
        return p.v
    if isinstance(p, Circuit) and p.num_operations == 0:
        return 5
    if isinstance(p, bool):
        return 'BAD'
    if isinstance(p, int) and p == 0:
        return 0
    if p == '' and isinstance(p, str):
        return 1
    if p == () and isinstance(p, tuple):
        return 2
    if p == [] and isinstance(p, list):
        return 3
    return 'BAD'


NW = 2   # employees of the server under test


class Impl:
    """The real DetachedServer with harness-owned connections; ServerBase.run's
    `except Exception` is emulated: an exception escaping handle_message = crash."""

    def __init__(self):
        from bqskit.runtime.detached import DetachedServer
        from bqskit.runtime.base import RuntimeEmployee
        s = DetachedServer.__new__(DetachedServer)
        s.lower_id_bound, s.upper_id_bound, s.running = 0, 2 ** 30, True
        s.sel = FakeSel()
        s.employees, s.conn_to_employee_dict = [], {}
        s.outgoing = queue.Queue()
        s.clients, s.tasks, s.mailbox_to_task_dict, s.mailboxes, s.mailbox_counter = {}, {}, {}, {}, 0
        self.wconns = []
        for i in range(NW):
            c = FakeConn(f'w{i}', -1 - i)
            e = RuntimeEmployee(i, c, 1)
            s.employees.append(e)
            s.conn_to_employee_dict[c] = e
            self.wconns.append(c)
        s.step_size, s.total_workers, s.num_idle_workers = 1, NW, NW
        self.s = s
        self.conns = {}
        self.up = True
        self.exc = None

    def conn(self, c):
        if c not in self.conns:
            self.conns[c] = FakeConn(f'client{c}', c)
        return self.conns[c]

    def apply(self, ev):
        from bqskit.runtime.message import RuntimeMessage as M
        from bqskit.runtime.direction import MessageDirection as D
        from bqskit.runtime.result import RuntimeResult
        from bqskit.runtime.address import RuntimeAddress
        if not self.up:
            return [], None
        s = self.s
        k = ev[0]
        try:
            if k == K_CONNECT:      # DetachedServer.listen
                conn = self.conn(ev[1])
                s.clients[conn] = set()
                s.sel.register(conn, 1, D.CLIENT)
            elif k == K_DISCONNECT:
                s.handle_message(M.DISCONNECT, D.CLIENT, self.conn(ev[1]), None)
            elif k == K_SUBMIT:
                s.handle_message(M.SUBMIT, D.CLIENT, self.conn(ev[1]), FakeTask(ev[2]))
            elif k == K_REQUEST:
                s.handle_message(M.REQUEST, D.CLIENT, self.conn(ev[1]), uuid.UUID(int=ev[2]))
            elif k == K_STATUS:
                s.handle_message(M.STATUS, D.CLIENT, self.conn(ev[1]), uuid.UUID(int=ev[2]))
            elif k == K_CANCEL:
                s.handle_message(M.CANCEL, D.CLIENT, self.conn(ev[1]), uuid.UUID(int=ev[2]))
            elif k == K_RESULT:
                r = RuntimeResult(RuntimeAddress(-1, ev[1], 0), res_payload(ev[2]), 0)
                s.handle_message(M.RESULT, D.BELOW, self.wconns[0], r)
            elif k == K_ERROR:
                s.handle_message(M.ERROR, D.BELOW, self.wconns[0], (ev[1], f'E{ev[2]}'))
            elif k == K_LOG:
                s.handle_message(M.LOG, D.BELOW, self.wconns[0], (ev[1], b'L%d' % ev[2]))
            else:
                raise ValueError(ev)
        except Exception as e:  # noqa: what ServerBase.run catches
            self.up = False
            self.exc = f'{type(e).__name__}: {e}'
            return self.drain() + [('crash',)], None
        return self.drain(), self.tables()

    def drain(self):
        from bqskit.runtime.message import RuntimeMessage as M
        from bqskit.compiler.status import CompilationStatus
        raw = []
        while True:
            try:
                raw.append(self.s.outgoing.get_nowait())
            except queue.Empty:
                break
        outs, i = [], 0
        while i < len(raw):
            conn, msg, p = raw[i]
            if conn.idx < 0:       # to an employee
                if msg == M.SUBMIT_BATCH:
                    for t in p:
                        ok = (t.return_address == (-1, t.comp_task_id, 0) and t.breadcrumbs == ())
                        outs.append(('sched', t.comp_task_id) if ok else ('sched', 'BAD'))
                    i += 1
                elif msg == M.CANCEL:
                    grp = raw[i:i + NW]
                    ok = (len(grp) == NW and [g[0].idx for g in grp] == [-1 - j for j in range(NW)]
                          and all(g[1] == M.CANCEL and g[2] == p for g in grp)
                          and p[0] == -1 and p[2] == 0)
                    outs.append(('bcast', p[1]) if ok else ('bcast', 'BAD'))
                    i += NW if ok else 1
                else:
                    outs.append(('to-employee', msg.name))
                    i += 1
                continue
            c = conn.idx
            if msg == M.RESULT:
                outs.append(('result', c, res_tag(p)))
            elif msg == M.STATUS:
                outs.append(('status', c, int(p)) if isinstance(p, CompilationStatus) else ('status', c, 'BAD'))
            elif msg == M.CANCEL:
                outs.append(('cancel', c) if p is None else ('cancel', c, 'BAD'))
            elif msg == M.ERROR:
                if p == 'Unknown task.':
                    outs.append(('errunknown', c))
                elif isinstance(p, str) and p[:1] == 'E' and p[1:].isdigit():
                    outs.append(('error', c, int(p[1:])))
                else:
                    outs.append(('error', c, 'BAD'))
            elif msg == M.LOG:
                outs.append(('log', c, int(p[1:])) if isinstance(p, bytes) and p[:1] == b'L' else ('log', c, 'BAD'))
            else:
                outs.append(('other', c, msg.name))
            i += 1
        return outs

    def tables(self):
        s = self.s
        return [
            sorted([c.idx, sorted(t.int for t in ts)] for c, ts in s.clients.items()),
            sorted([t.int, mb, c.idx] for t, (mb, c) in s.tasks.items()),
            sorted([mb, t.int] for mb, t in s.mailbox_to_task_dict.items()),
            sorted([mb, -1 if b.result is None else res_tag(b.result), int(b.client_waiting)] for mb, b in s.mailboxes.items()),
            s.mailbox_counter,
            sorted(c.idx for c in self.conns.values() if c.closed),
            1,
        ]


def sort_bcast_runs(outs):
    """handle_disconnect cancels a *set* of ids: the order of the CANCEL broadcasts inside one event is
    set-iteration order.  Canonical form: every maximal run of bcast outputs sorted."""
    res, run = [], []
    for o in outs:
        if o[0] == 'bcast':
            run.append(o)
        else:
            res += sorted(run, key=str)
            run = []
            res.append(o)
    return res + sorted(run, key=str)


def run_impl(hist):
    im = Impl()
    obs = []
    for ev in hist:
        o, t = im.apply(ev)
        obs.append((sort_bcast_runs(o), t))
    return obs, im.exc


# --------------------------------------------------------------------------
# the specification, in Python (independent of the Coq text)
# --------------------------------------------------------------------------
class Spec:
    """Per task id: unknown -> running -> done -> delivered, running|done -> cancelled.
    Answers: status own running/done -> RUNNING/DONE, anything else UNKNOWN; cancel -> always acknowledged,
    effective only on an own running/done task; result (REQUEST) own done -> the value, own running -> the value
    when it arrives, anything else -> 'Unknown task.' and the requesting client is dropped (its tasks forgotten);
    ERROR/LOG for a known compilation -> forwarded to the submitting connection."""

    dc = False          # True: a cancelled task is forgotten at once (fixes/C13-D15.patch); late ERROR/LOG dropped

    def __init__(self):
        self.task = {}      # id -> dict(owner, mb, st, val, waiting)
        self.by_mb = {}
        self.conn = {}      # c -> 'connected' | 'closed'
        self.count = 0

    def wf(self, ev):
        k = ev[0]
        if k == K_CONNECT:
            return ev[1] not in self.conn
        if k in (K_DISCONNECT, K_REQUEST, K_STATUS, K_CANCEL):
            return self.conn.get(ev[1]) == 'connected'
        if k == K_SUBMIT:
            return self.conn.get(ev[1]) == 'connected' and ev[2] not in self.task
        return True

    def own_open(self, c, t):
        r = self.task.get(t)
        return r is not None and r['owner'] == c and r['st'] in ('running', 'done')

    def drop(self, c):
        self.conn[c] = 'closed'
        for t in [t for t, r in self.task.items() if r['owner'] == c]:
            del self.by_mb[self.task[t]['mb']]
            del self.task[t]

    def step(self, ev):
        k = ev[0]
        if k == K_CONNECT:
            self.conn[ev[1]] = 'connected'
            return []
        if k == K_DISCONNECT:
            self.drop(ev[1])
            return []
        if k == K_SUBMIT:
            c, t = ev[1], ev[2]
            self.task[t] = dict(owner=c, mb=self.count, st='running', val=None, waiting=False)
            self.by_mb[self.count] = t
            self.count += 1
            return []
        if k == K_REQUEST:
            c, t = ev[1], ev[2]
            if not self.own_open(c, t):
                self.drop(c)
                return [('errunknown', c)]
            r = self.task[t]
            if r['st'] == 'done':
                r['st'] = 'delivered'
                return [('result', c, r['val'])]
            r['waiting'] = True
            return []
        if k == K_STATUS:
            c, t = ev[1], ev[2]
            if not self.own_open(c, t):
                return [('status', c, 0)]
            return [('status', c, 2 if self.task[t]['st'] == 'done' else 1)]
        if k == K_CANCEL:
            c, t = ev[1], ev[2]
            if self.own_open(c, t):
                if Spec.dc:
                    del self.by_mb[self.task[t]['mb']]
                    del self.task[t]
                else:
                    self.task[t]['st'] = 'cancelled'
            return [('cancel', c)]
        if k == K_RESULT:
            t = self.by_mb.get(ev[1])
            if t is None:
                return []
            r = self.task[t]
            if r['st'] == 'running':
                if r['waiting']:
                    r['st'] = 'delivered'
                    return [('result', r['owner'], ev[2])]
                r['st'], r['val'] = 'done', ev[2]
            elif r['st'] == 'done':
                r['val'] = ev[2]
            return []
        if k in (K_ERROR, K_LOG):
            t = self.by_mb.get(ev[1])
            if t is None:
                return []
            return [('error' if k == K_ERROR else 'log', self.task[t]['owner'], ev[2])]
        raise ValueError(ev)

    def state_of(self, t):
        r = self.task.get(t)
        return 'unknown' if r is None else r['st']


def answers(outs):
    return [o for o in outs if o[0] not in ('sched', 'bcast')]


# --------------------------------------------------------------------------
# model side
# --------------------------------------------------------------------------
def fmt_hist(hist):
    return '[' + ' '.join('[' + ' '.join(str(x) for x in ev) + ']' for ev in hist) + ']'


def parse_v(s):
    toks = s.replace('[', ' [ ').replace(']', ' ] ').split()
    pos = 0

    def go():
        nonlocal pos
        out = []
        while pos < len(toks):
            t = toks[pos]
            pos += 1
            if t == '[':
                out.append(go())
            elif t == ']':
                return out
            else:
                try:
                    out.append(int(t))
                except ValueError:
                    out.append(t)
        return out
    return go()[0]


MODES = {'current': 0, 'fixed': 1, 'fixed-drop': 2}


def model_runs(hists, fx):
    lines = [f'run {fx} {fmt_hist(h)}' for h in hists]
    res = []
    for h, ln in zip(hists, vf.run_model('server', lines)):
        if ln.startswith('EXN') or ln == 'BADCMD':
            raise RuntimeError(f'model driver: {ln}')
        v = parse_v(ln)
        obs = []
        for outs, tab in v:
            outs = [tuple(o) for o in outs]
            up = tab[6]
            obs.append((sort_bcast_runs(outs), tab if up else None))
        res.append(obs)
    return res


def model_specs(hists):
    lines = [f'spec {int(Spec.dc)} {fmt_hist(h)}' for h in hists]
    res = []
    for ln in vf.run_model('server', lines):
        v = parse_v(ln)
        res.append((v[0], [[tuple(o) for o in outs] for outs in v[1]]))
    return res


# --------------------------------------------------------------------------
# comparison of one history
# --------------------------------------------------------------------------
def norm(x):
    return json.loads(json.dumps(x))


def classify(hist, i, spec_before, exp, got):
    """Signature of a property violation at event i (spec_before = Spec state before the event)."""
    ev = hist[i]
    k = ev[0]
    crashed = ('crash',) in got
    if k in (K_STATUS, K_CANCEL, K_REQUEST):
        c, t = ev[1], ev[2]
        r = spec_before.task.get(t)
        cls = ('unknown' if r is None else ('own-' if r['owner'] == c else 'foreign-') + r['st'])
        if crashed and k in (K_STATUS, K_CANCEL) and not spec_before.own_open(c, t) and \
                (r is None or r['st'] in ('delivered', 'cancelled')):
            return dict(SIG_CRASH), cls
        if k == K_CANCEL and not crashed and r is not None and r['owner'] != c and r['st'] in ('running', 'done'):
            return dict(SIG_FCANCEL), cls
        if k == K_STATUS and not crashed and r is not None and r['owner'] != c and r['st'] in ('running', 'done') \
                and got[:1] == [('status', c, 0)] and len(got) == 2:
            return dict(SIG_FSTATUS), cls
        return {'call': 'handle_' + KNAMES[k], 'id_state': cls, 'symptom': 'crash' if crashed else 'wrong-answer'}, cls
    return {'call': 'handle_' + KNAMES[k], 'symptom': 'crash' if crashed else 'wrong-answer'}, '-'


def tables_broken(tab):
    """invariant of the server tables, evaluated on the implementation alone (no model): every
    mailbox_to_task_dict entry points to a tasks entry with that mailbox; every mailbox is in
    mailbox_to_task_dict; every open id of a client is in tasks with that connection and has a mailbox."""
    clients, tasks, m2t, boxes = tab[0], tab[1], tab[2], tab[3]
    tk = {t: (mb, c) for t, mb, c in tasks}
    for mb, t in m2t:
        if t not in tk or tk[t][0] != mb:
            return f'mailbox_to_task_dict[{mb}] = {t} has no matching tasks entry'
    mm = {mb for mb, _ in m2t}
    for b in boxes:
        if b[0] not in mm:
            return f'mailbox {b[0]} is not in mailbox_to_task_dict'
    bx = {b[0] for b in boxes}
    conns = {c for c, _ in clients}
    for c, ts in clients:
        for t in ts:
            if t not in tk or tk[t][1] != c or tk[t][0] not in bx:
                return f'open id {t} of client {c} has no tasks entry / mailbox'
    for t, (mb, c) in tk.items():
        if c not in conns:
            return f'tasks[{t}] belongs to connection {c} which is not registered'
    return None


def find_violations(hist, impl_obs, impl_exc, model_obs, mode, tag):
    """model correspondence (vs the model of `mode`) + property oracle; returns the violations of one history"""
    out = []
    wf_all = True
    sp0 = Spec()
    for i, ev in enumerate(hist):
        if not sp0.wf(ev):
            wf_all = False
            break
        sp0.step(ev)
        tab = impl_obs[i][1]
        if tab is None:
            break
        bad = tables_broken(tab)
        if bad:
            out.append(dict(
                sig={'call': 'handle_' + KNAMES[ev[0]], 'symptom': 'tables-inconsistent'},
                case=dict(history=hist[:i + 1], tag=tag), exp='tables invariant (C13_tables_inv)', obs=dict(tables=tab, broken=bad),
                what=f'after {KNAMES[ev[0]]}: {bad} - a later ERROR / LOG / RESULT for it raises KeyError in the server loop',
                kind='input', corr=None))
            break
    # (1) correspondence
    for i, ((io, it), (mo, mt)) in enumerate(zip(impl_obs, model_obs)):
        if norm(io) != norm(mo) or norm(it) != norm(mt):
            out.append(dict(
                sig={'call': 'handle_' + KNAMES[hist[i][0]], 'kind': 'model-mismatch', 'model': mode},
                case=dict(history=hist[:i + 1], tag=tag), exp=dict(outs=mo, tables=mt),
                obs=dict(outs=io, tables=it, exc=impl_exc if ('crash',) in io else None),
                what=f'DetachedServer and the Coq model ({mode}) disagree at event {i} ({KNAMES[hist[i][0]]})',
                kind='correspondence', corr='coq/rt/ServerM.v vs bqskit/runtime/detached.py'))
            break
    # (2) property oracle on the implementation's own answers
    sp = Spec()
    for i, ev in enumerate(hist):
        if not sp.wf(ev):
            break               # malformed stream: correspondence only
        exp = sp.step(ev)
        got = answers(impl_obs[i][0])
        if norm(got) != norm(exp):
            before = Spec()
            for e2 in hist[:i]:
                before.step(e2)
            sig, cls = classify(hist, i, before, exp, got)
            out.append(dict(
                sig=sig, case=dict(history=hist[:i + 1], tag=tag), exp=exp,
                obs=dict(answers=got, exc=impl_exc if ('crash',) in got else None),
                what=f'{KNAMES[ev[0]]} on a task id in state {cls}: expected answers {exp}, server produced {got}'
                     + (f' and raised {impl_exc} (server loop shuts the runtime down)' if ('crash',) in got else ''),
                kind='input', corr=None))
            break
        if impl_obs[i][1] is None:
            break
    return out


def shrink(v, mode, tag, budget=250):
    """greedy one-event deletion keeping the same signature"""
    fx = MODES[mode]
    cur = v
    changed = True
    while changed and budget > 0:
        changed = False
        h = cur['case']['history']
        for j in reversed(range(len(h) - 1)):
            if budget <= 0:
                break
            budget -= 1
            cand = h[:j] + h[j + 1:]
            io, exc = run_impl(cand)
            mo = model_runs([cand], fx)[0]
            hit = next((x for x in find_violations(cand, io, exc, mo, mode, tag) if x['sig'] == cur['sig']), None)
            if hit is not None and len(hit['case']['history']) < len(h):
                cur, changed = hit, True
                break
    return cur


def check_history(ctx, hist, impl_obs, impl_exc, model_obs, mode, tag):
    """Returns True when clean."""
    vs = find_violations(hist, impl_obs, impl_exc, model_obs, mode, tag)
    for v in vs:
        new = ctx._match_known(v['sig']) is None and all(x['signature'] != v['sig'] for x in ctx.violations)
        if new:
            v = shrink(v, mode, tag)
        ctx.violation(v['sig'], v['case'], v['exp'], v['obs'], v['what'], kind=v['kind'], corr=v['corr'])
    return not vs


# --------------------------------------------------------------------------
# in-process runtime: real DetachedServer + real Manager(s) + real Workers + real Compiler clients
# --------------------------------------------------------------------------
import collections


class StopLoop(BaseException):
    """ends Worker.recv_incoming after exactly one message (it only catches Exception)"""


class WouldBlock(BaseException):
    """the worker main loop would block on its empty ready queue"""


class ReadyQueue(queue.Queue):
    def get(self, block=True, timeout=None):
        if block and self.empty():
            raise WouldBlock()
        return super().get(block, timeout)


class End:
    """one end of a duplex link; send() queues towards the peer's owner"""

    def __init__(self, name, owner):
        self.name, self.owner, self.closed = name, owner, False
        self.q = collections.deque()      # messages sent through this end, not yet delivered to the peer
        self.peer = None
        self.inbox = collections.deque()  # used by client ends and by the one-shot worker recv
        self.on_empty = None

    def send(self, m):
        if self.closed:
            raise OSError('handle is closed')
        self.q.append(m)

    def close(self):
        self.closed = True

    def poll(self, timeout=0.0):
        return bool(self.inbox)

    def recv(self):
        if not self.inbox and self.on_empty is not None:
            self.on_empty()
        if not self.inbox:
            raise EOFError('nothing to receive (peer gone or would block for ever)')
        return self.inbox.popleft()

    def __repr__(self):
        return f'<{self.name}>'


def link(name_a, owner_a, name_b, owner_b):
    a, b = End(name_a, owner_a), End(name_b, owner_b)
    a.peer, b.peer = b, a
    return a, b


async def tree_node(spec):
    """task body used by the error-forwarding scenarios; spec = dict(kids, mode, exc, when, ret)"""
    from bqskit.runtime import get_runtime
    rt = get_runtime()
    if spec['exc'] is not None and spec['when'] == 'before':
        raise (RuntimeError if spec['exc'][0] == 'R' else ValueError)(spec['exc'])
    vals = []
    if spec['kids']:
        if spec['mode'] == 'map':
            vals = await rt.map(tree_node, spec['kids'])
        elif spec['mode'] == 'maps':
            # one map call per child: the 2nd, 3rd ... call gets a fresh worker mailbox id each time
            for k in spec['kids']:
                vals += await rt.map(tree_node, [k])
        else:
            futs = [rt.submit(tree_node, k) for k in spec['kids']]
            for f in futs:
                vals.append(await f)
    if spec['exc'] is not None:
        raise (RuntimeError if spec['exc'][0] == 'R' else ValueError)(spec['exc'])
    return [spec['ret'], list(vals)]


def tree_value(spec):
    return [spec['ret'], [tree_value(k) for k in spec['kids']]]


def make_tree_pass(spec):
    from bqskit.compiler.basepass import BasePass

    class TreePass(BasePass):
        def __init__(self, spec):
            self.spec = spec

        async def run(self, circuit, data):
            data['tree'] = await tree_node(self.spec)
    return TreePass(spec)


class Net:
    """Topology: server -> workers (flat) or server -> managers -> workers.  Single threaded; the harness picks
    which FIFO link delivers next / which worker steps next from ctx.rng (all delivery orders are possible)."""

    def __init__(self, rng, n_managers, workers_per):
        import threading
        from bqskit.runtime.detached import DetachedServer
        from bqskit.runtime.manager import Manager
        from bqskit.runtime.worker import Worker
        from bqskit.runtime.base import RuntimeEmployee
        self.rng = rng
        self.crashed = None
        self.ends = []          # every End, for delivery choice
        srv = DetachedServer.__new__(DetachedServer)
        srv.lower_id_bound, srv.upper_id_bound, srv.running = 0, 2 ** 30, True
        srv.sel = FakeSel()
        srv.employees, srv.conn_to_employee_dict = [], {}
        srv.outgoing = queue.Queue()
        srv.clients, srv.tasks, srv.mailbox_to_task_dict, srv.mailboxes, srv.mailbox_counter = {}, {}, {}, {}, 0
        self.srv = srv
        self.nodes = {'server': srv}
        self.workers, self.managers = [], []

        def mk_worker(wid, boss_end_name, boss):
            w = Worker.__new__(Worker)
            up, down = link(f'w{wid}.up', f'w{wid}', boss_end_name, boss)
            w._id, w._conn = wid, up
            w._tasks, w._delayed_tasks, w._ready_task_ids = {}, [], ReadyQueue()
            w._cancelled_task_ids, w._active_task, w._running = set(), None, True
            w._mailboxes, w._mailbox_counter, w._cache = {}, 0, {}
            w.most_recent_read_submit, w.read_receipt_mutex = None, threading.Lock()
            self.nodes[f'w{wid}'] = w
            self.workers.append(w)
            self.ends += [up, down]
            return down

        if n_managers == 0:
            for i in range(workers_per):
                down = mk_worker(i, f'server.w{i}', 'server')
                e = RuntimeEmployee(i, down, 1)
                srv.employees.append(e)
                srv.conn_to_employee_dict[down] = e
            srv.step_size, srv.total_workers = 1, workers_per
        else:
            for j in range(n_managers):
                m = Manager.__new__(Manager)
                up, down = link(f'm{j}.up', f'm{j}', f'server.m{j}', 'server')
                m.upstream = up
                m.lower_id_bound, m.upper_id_bound, m.running = j * workers_per, (j + 1) * workers_per, True
                m.sel = FakeSel()
                m.employees, m.conn_to_employee_dict = [], {}
                m.outgoing = queue.Queue()
                for i in range(workers_per):
                    wid = j * workers_per + i
                    wdown = mk_worker(wid, f'm{j}.w{wid}', f'm{j}')
                    e = RuntimeEmployee(wid, wdown, 1)
                    m.employees.append(e)
                    m.conn_to_employee_dict[wdown] = e
                m.step_size, m.total_workers, m.num_idle_workers = 1, workers_per, workers_per
                m.last_num_idle_sent_up, m.most_recent_read_submit = workers_per, None
                self.nodes[f'm{j}'] = m
                self.managers.append(m)
                self.ends += [up, down]
                e = RuntimeEmployee(j, down, workers_per, is_manager=True)
                srv.employees.append(e)
                srv.conn_to_employee_dict[down] = e
            srv.step_size, srv.total_workers = workers_per, n_managers * workers_per
        srv.num_idle_workers = srv.total_workers
        self.client_ends = []

    def add_client(self, name):
        cend, send = link(f'{name}', name, f'server.{name}', 'server')
        self.ends += [cend, send]
        self.client_ends.append(cend)
        self.srv.clients[send] = set()          # DetachedServer.listen
        return cend, send

    def drop_client(self, cend):
        """the client closed its socket: after everything it already sent, the server reads EOF on that connection
        (ServerBase.run: EOFError -> handle_disconnect) unless the server closed it first"""
        from bqskit.runtime.message import RuntimeMessage as M
        cend.closed = True
        if not cend.peer.closed:
            cend.q.append((M.DISCONNECT, None))

    def close(self):
        for w in self.workers:
            for t in list(w._tasks.values()) + list(w._delayed_tasks):
                try:
                    if t.coro is not None:
                        t.coro.close()
                except Exception:  # noqa
                    pass

    # ---- scheduling ------------------------------------------------------
    def flush(self):
        for n in [self.srv] + self.managers:
            while True:
                try:
                    item = n.outgoing.get_nowait()
                except queue.Empty:
                    break
                end, msg, payload = item
                if not end.closed:              # send_outgoing skips closed connections
                    end.q.append((msg, payload))

    def enabled(self):
        self.flush()
        acts = [('deliver', e) for e in self.ends if e.q]
        acts += [('step', w) for w in self.workers if (not w._ready_task_ids.empty()) or w._delayed_tasks]
        return acts

    def deliver(self, end):
        from bqskit.runtime.direction import MessageDirection as D
        import bqskit.runtime.worker as wmod
        msg, payload = end.q.popleft()
        dst = end.peer
        node = self.nodes.get(dst.owner)
        if node is None:                         # a client
            dst.inbox.append((msg, payload))
            return
        try:
            if dst.owner == 'server':
                is_client = dst.name.startswith('server.client')
                if is_client and dst.closed:
                    return                       # the server already dropped this connection (unregistered)
                node.handle_message(msg, D.CLIENT if is_client else D.BELOW, dst, payload)
            elif dst.owner.startswith('m'):
                node.handle_message(msg, D.ABOVE if dst is node.upstream else D.BELOW, dst, payload)
            else:                                # worker: the real recv_incoming, for exactly one message
                dst.inbox.append((msg, payload))

                def stop():
                    raise StopLoop()
                dst.on_empty = stop
                wmod._worker = node
                try:
                    node.recv_incoming()
                except StopLoop:
                    pass
        except Exception as e:  # noqa: an exception in a node's message loop = that node goes down
            import traceback
            self.crashed = (dst.owner, f'{type(e).__name__}: {e}', traceback.format_exc()[-600:])

    def step(self, w):
        import bqskit.runtime.worker as wmod
        wmod._worker = w
        try:
            w._try_step_next_ready_task()
        except WouldBlock:
            w._active_task = None       # only cancelled entries were queued: the loop goes idle (WAITING sent)
        except Exception as e:  # noqa
            import traceback
            self.crashed = (f'w{w._id}', f'{type(e).__name__}: {e}', traceback.format_exc()[-600:])

    def run(self, limit=20000, until=None, hook=None):
        n = 0
        while self.crashed is None and n < limit:
            if until is not None and until():
                return True
            acts = self.enabled()
            if not acts:
                return until is None
            kind, x = self.rng.choice(acts)
            (self.deliver if kind == 'deliver' else self.step)(x)
            if hook is not None:
                hook()
            n += 1
        return False


class det_uuids:
    """CompilationTask draws uuid4(): make the ids (and with them set iteration orders) reproducible"""

    def __enter__(self):
        import bqskit.compiler.task as ctask
        self.mod, self.old = ctask, ctask.uuid
        counter = itertools.count(1000)
        import types
        self.mod.uuid = types.SimpleNamespace(uuid4=lambda: uuid.UUID(int=next(counter)), UUID=uuid.UUID)
        return self

    def __exit__(self, *a):
        self.mod.uuid = self.old


def make_compiler(cend):
    """a real bqskit.compiler.Compiler whose connection is the client end of an in-process link"""
    from bqskit.compiler.compiler import Compiler
    c = Compiler.__new__(Compiler)
    c.p = None
    c.conn = cend
    return c


def gen_tree(rng, depth, exc, raise_depth):
    """a task tree of the given depth; the node on the leftmost..random path at raise_depth raises `exc`"""
    def build(d, on_path):
        kids = []
        if d < depth:
            nk = rng.randint(1, 3)
            pk = (rng.choice([nk - 1, rng.randrange(nk)]) if on_path else -1)   # favour a later (2nd/3rd) child
            kids = [build(d + 1, on_path and i == pk) for i in range(nk)]
        mine = exc if (on_path and d == raise_depth) else None
        return dict(kids=kids, mode=rng.choice(['map', 'submit', 'maps', 'maps']), exc=mine,
                    when=rng.choice(['before', 'after']), ret=rng.randint(0, 99))
    return build(0, exc is not None)


def scenario_rng(ctx, kind, idx):
    import random
    random.seed(f'{ctx.seed}-{kind}-{idx}-global')   # ServerBase.assign_tasks draws from the global generator
    return random.Random(f'{ctx.seed}-{kind}-{idx}')


def error_scenario(ctx, idx):
    """two clients submit a task tree each through the real Compiler; in one of them a task at depth d raises.
    Expect: that client's result() raises RuntimeError carrying the message and drops its connection; the other
    client gets the value of its own tree; no node of the runtime goes down."""
    from bqskit.ir.circuit import Circuit
    rng = scenario_rng(ctx, 'err', idx)
    nm = rng.choice([0, 0, 1, 2])
    wp = rng.randint(1, 3)
    net = Net(rng, nm, wp)
    rd = rng.randint(0, 3)
    depth = rng.randint(rd, 3)
    exc = rng.choice(['R', 'V']) + f'-boom-{idx}-{rng.randint(0, 10 ** 6)}'
    bad = rng.randrange(2)
    trees = [gen_tree(rng, depth if i == bad else rng.randint(0, 2), exc if i == bad else None, rd) for i in range(2)]
    case = dict(kind='error-forwarding', managers=nm, workers_per=wp, depth=depth, raise_depth=rd, bad_client=bad,
                trees=trees, seed_index=idx)
    comps, ids, outcome = [], [], [None, None]
    for i in range(2):
        cend, send = net.add_client(f'client{i}')
        comp = make_compiler(cend)
        cend.on_empty = (lambda ce=cend: net.run(until=lambda: bool(ce.inbox)))
        comps.append(comp)
    for i in rng.sample(range(2), 2):
        ids.append((i, comps[i].submit(Circuit(1), [make_tree_pass(trees[i])], request_data=True)))
    ids = dict(ids)
    order = rng.sample(range(2), 2)
    for i in order:
        try:
            r = comps[i].result(ids[i])
            outcome[i] = ('result', r[1]['tree'] if isinstance(r, tuple) else 'NOT-A-TUPLE')
        except RuntimeError as e:
            cause = e.__cause__
            outcome[i] = ('raised', str(e), str(cause) if cause is not None else '', comps[i].conn is None)
            net.drop_client(net.client_ends[i])
        except Exception as e:  # noqa
            outcome[i] = ('other-exception', f'{type(e).__name__}: {e}')
    net.run()   # to quiescence
    net.close()
    ctx.case(('err', idx, nm, wp, depth, rd, bad), nontrivial=depth > 0)
    ctx.count(f'error_scenarios_depth{rd}')
    ctx.count('error_topology_' + ('flat' if nm == 0 else f'{nm}managers'))
    good = 1 - bad
    exp = {bad: 'RuntimeError carrying ' + exc, good: ('result', tree_value(trees[good]))}
    ob = outcome[bad]
    ok_bad = (ob is not None and ob[0] == 'raised' and (exc in ob[1] or exc in ob[2]) and ob[3])
    ok_good = outcome[good] == ('result', tree_value(trees[good]))
    late = [m for m in net.client_ends[bad].inbox if int(m[0]) == 6]    # RuntimeMessage.RESULT after the error
    left = [t for t, (mb, c) in net.srv.tasks.items() if c is net.client_ends[bad].peer]
    if net.crashed is not None or not ok_bad or not ok_good or late or left:
        sym = ('node-crash' if net.crashed is not None else 'error-not-raised-at-client' if not ok_bad
               else 'other-client-disturbed' if not ok_good else 'result-after-error' if late else 'tables-not-cleaned')
        ctx.violation({'call': 'error-forwarding', 'symptom': sym}, case, exp,
                      dict(outcome=outcome, crashed=net.crashed, late_results=len(late), leftover_tasks=len(left)),
                      f'task raising at depth {rd} (topology: {nm} managers x {wp} workers): {sym}')
        return False
    return True


def client_scenario(ctx, idx, avoid_d4=False):
    """random API calls of 1-3 real Compiler objects on the in-process runtime (flat, one worker) whose tasks are
    trivial trees; return values / exceptions checked against the python specification; the event history seen
    by the server is recorded and replayed through the co-simulation."""
    from bqskit.ir.circuit import Circuit
    from bqskit.compiler.status import CompilationStatus
    rng = scenario_rng(ctx, 'client', idx)
    net = Net(rng, 0, 1)
    nc = rng.randint(1, 3)
    comps, ends = [], []
    for i in range(nc):
        cend, send = net.add_client(f'client{i}')
        comp = make_compiler(cend)
        cend.on_empty = (lambda ce=cend: net.run(until=lambda: bool(ce.inbox)))
        comps.append(comp)
        ends.append(cend)
    tids = []       # (uuid, owner, tree, state) state in running/delivered/cancelled as the *client* knows
    log = []
    alive = [True] * nc
    stray = {}      # client -> 'status' / 'cancel': a defect-D4 answer it did not ask for may sit in its pipe
    for step in range(rng.randint(3, 14)):
        live = [i for i in range(nc) if alive[i]]
        if not live:
            break
        i = rng.choice(live)
        op = rng.choice(['submit', 'submit', 'status', 'status', 'result', 'cancel', 'run'])
        if op == 'run':
            net.run(limit=rng.randint(1, 40))
            continue
        if op == 'submit' or not tids:
            tree = gen_tree(rng, rng.randint(0, 1), None, 0)
            want_data = rng.random() < 0.5      # False: the result is the bare output Circuit - no operations, so falsy
            try:
                t = comps[i].submit(Circuit(1), [make_tree_pass(tree)], request_data=want_data)
            except Exception as e:  # noqa
                log.append(('submit', i, None, 'EXC', f'{type(e).__name__}: {e}'))
                alive[i] = False
                continue
            tids.append([t, i, tree, 'open', want_data])
            log.append(('submit', i, len(tids) - 1, 'ok', None))
            continue
        y = rng.random()
        own = [k for k, r in enumerate(tids) if r[1] == i]
        oth = [k for k, r in enumerate(tids) if r[1] != i]
        if y < 0.6 and own:
            k = rng.choice(own)
            tid = tids[k][0]
        elif y < 0.85 and oth:
            k = rng.choice(oth)
            tid = tids[k][0]
        else:
            k, tid = None, uuid.UUID(int=12345)
        if avoid_d4 and op in ('status', 'cancel'):
            cand = [k2 for k2 in own if tids[k2][3] == 'open']
            if not cand:
                continue
            k = rng.choice(cand)
            tid = tids[k][0]
        rec = tids[k] if k is not None else None
        mine_open = rec is not None and rec[1] == i and rec[3] == 'open'
        if rec is not None and rec[1] != i and rec[3] == 'open':
            if op == 'status':
                stray[i] = 'status'
            elif op == 'cancel':
                stray[rec[1]] = 'cancel'
        try:
            if op == 'status':
                r = comps[i].status(tid)
                got = ('status', int(r), isinstance(r, CompilationStatus))
            elif op == 'cancel':
                got = ('cancel', comps[i].cancel(tid))
            else:
                r = comps[i].result(tid)
                got = ('result', r[1]['tree'] if isinstance(r, tuple) else
                       ('empty-circuit' if isinstance(r, Circuit) and r.num_operations == 0 else 'BAD'))
        except RuntimeError as e:
            got = ('raised', str(e.__cause__ or e))
            alive[i] = False
            net.drop_client(ends[i])
            for r2 in tids:
                if r2[1] == i:
                    r2[3] = 'gone'
        # expectation from the specification, at client level
        if op == 'status':
            if mine_open:
                ok = got[0] == 'status' and got[1] in (1, 2) and got[2]
                exp = 'RUNNING or DONE'
            else:
                ok = got == ('status', 0, True)
                exp = 'UNKNOWN'
        elif op == 'cancel':
            ok = got == ('cancel', True)
            exp = 'True'
            if mine_open:
                rec[3] = 'cancelled'
        else:
            if mine_open:
                exp = ('result', tree_value(rec[2]) if rec[4] else 'empty-circuit')
                ok = got == exp
                rec[3] = 'delivered'
            else:
                # 'Unknown task.' is queued and the connection closed in the same handler: send_outgoing skips
                # closed connections, so the client sees either that text or EOF - a RuntimeError in both cases
                ok = got[0] == 'raised'
                exp = 'RuntimeError (Unknown task. / connection closed)'
        log.append((op, i, k, 'ok' if ok else 'BAD', got))
        if ok and op == 'status' and stray.get(i) == 'status' and net.crashed is None:
            # status() on a foreign open id: was it answered exactly once?
            net.run()
            if ends[i].inbox:
                extra = [(int(m), str(p)) for m, p in ends[i].inbox]
                ctx.violation(dict(SIG_FSTATUS), dict(kind='client-api', log=[list(map(str, l)) for l in log], seed_index=idx, avoid_d4=avoid_d4),
                              'one STATUS answer (UNKNOWN)', dict(got=got, further_messages_in_the_pipe=extra),
                              f'Compiler.status on another client\'s open task: answered UNKNOWN and then again {extra}; the next '
                              'call of this client reads the stale answer or raises "Unexpected message type"')
                ctx.case(('client', idx), nontrivial=True)
                net.close()
                return False
            stray.pop(i, None)
        if not ok or net.crashed is not None:
            idstate = 'unknown' if rec is None else ('own-' if rec[1] == i else 'foreign-') + rec[3]
            crashed = net.crashed is not None
            if crashed and op in ('status', 'cancel') and not mine_open and (rec is None or rec[3] in ('delivered', 'cancelled', 'gone')):
                sig = dict(SIG_CRASH)
            elif op == 'cancel' and rec is not None and rec[1] != i and rec[3] == 'open':
                sig = dict(SIG_FCANCEL)
            elif op == 'status' and rec is not None and rec[1] != i and rec[3] == 'open':
                sig = dict(SIG_FSTATUS)
            elif stray.get(i) == 'status' and got == ('raised', 'Unexpected message type: 9.'):
                sig = dict(SIG_FSTATUS)      # the second STATUS answer of an earlier foreign status() call
            elif stray.get(i) == 'cancel' and got == ('raised', 'Unexpected message type: 11.'):
                sig = dict(SIG_FCANCEL)      # the CANCEL acknowledgement of another client's cancel()
            else:
                sig = {'call': 'Compiler.' + op, 'id_state': idstate, 'symptom': 'crash' if crashed else 'wrong-answer'}
            ctx.violation(sig, dict(kind='client-api', log=[list(map(str, l)) for l in log], seed_index=idx, avoid_d4=avoid_d4), exp,
                          dict(got=got, crashed=net.crashed),
                          f'Compiler.{op} on a task id in state {idstate}: expected {exp}, got {got}'
                          + (f'; runtime node down: {net.crashed[:2]}' if crashed else ''))
            ctx.case(('client', idx), nontrivial=True)
            net.close()
            return False
    net.run()
    net.close()
    if net.crashed is not None:
        ctx.violation({'call': 'runtime-node', 'symptom': 'crash-at-quiescence'}, dict(kind='client-api', log=[list(map(str, l)) for l in log], seed_index=idx, avoid_d4=avoid_d4),
                      'no node goes down', dict(crashed=net.crashed), f'runtime node down: {net.crashed[:2]}')
        return False
    ctx.case(('client', idx), nontrivial=len(tids) > 0)
    ctx.count('client_api_scenarios')
    return True


# --------------------------------------------------------------------------
# generators
# --------------------------------------------------------------------------
WITNESSES = {
    'status-after-result': [[0, 0], [2, 0, 0], [6, 0, 7], [3, 0, 0], [4, 0, 0]],
    'cancel-after-result': [[0, 0], [2, 0, 0], [6, 0, 7], [3, 0, 0], [5, 0, 0]],
    'cancel-twice': [[0, 0], [2, 0, 0], [5, 0, 0], [5, 0, 0]],
    'status-after-cancel': [[0, 0], [2, 0, 0], [5, 0, 0], [4, 0, 0]],
    'status-unknown': [[0, 0], [4, 0, 9]],
    'cancel-unknown': [[0, 0], [5, 0, 9]],
    'foreign-cancel': [[0, 0], [0, 1], [2, 0, 0], [5, 1, 0], [4, 0, 0]],
    'foreign-status': [[0, 0], [0, 1], [2, 0, 0], [4, 1, 0]],
    'other-client-survives': [[0, 0], [0, 1], [2, 1, 5], [2, 0, 0], [6, 1, 3], [3, 0, 0], [4, 0, 0], [6, 0, 4], [3, 1, 5]],
    'error-after-cancel': [[0, 0], [2, 0, 0], [2, 0, 1], [5, 0, 0], [7, 0, 5], [8, 0, 1], [7, 1, 2], [1, 0]],
}


def gen_history(rng, length, avoid_d4=False, malformed=False):
    sp = Spec()
    hist = []
    nclients = rng.randint(1, 3)
    submitted = {c: [] for c in range(nclients)}    # every id a client ever submitted
    next_id = [0]
    nconn = [0]

    def emit(ev):
        hist.append(list(ev))
        if sp.wf(ev):
            sp.step(ev)

    def connect():
        c = nconn[0]
        nconn[0] += 1
        submitted.setdefault(c, [])
        emit((K_CONNECT, c))

    for _ in range(rng.randint(1, nclients)):
        connect()
    while len(hist) < length:
        live = [c for c, v in sp.conn.items() if v == 'connected']
        if not live:
            if nconn[0] >= 6:
                break
            connect()
            continue
        c = rng.choice(live)
        x = rng.random()
        if malformed and x < 0.12:
            y = rng.random()
            if y < 0.3:
                emit((rng.choice([K_REQUEST, K_STATUS, K_CANCEL, K_SUBMIT]), 7, rng.randint(0, 3)))
            elif y < 0.6 and next_id[0] > 0:
                emit((K_SUBMIT, c, rng.randrange(next_id[0])))       # duplicate id
            elif y < 0.8:
                emit((K_CONNECT, c))                                   # connect twice
            else:
                emit((K_DISCONNECT, 8))
            continue
        if x < 0.22:
            t = next_id[0]
            next_id[0] += 1
            submitted[c].append(t)
            emit((K_SUBMIT, c, t))
        elif x < 0.62:
            k = rng.choice([K_STATUS, K_STATUS, K_REQUEST, K_CANCEL, K_CANCEL])
            y = rng.random()
            own = submitted[c]
            others = [t for c2, ts in submitted.items() if c2 != c for t in ts]
            if avoid_d4 and k != K_REQUEST:
                cand = [t for t in own if sp.own_open(c, t)]
                if not cand:
                    continue
                t = rng.choice(cand)
            elif y < 0.6 and own:
                t = rng.choice(own)
            elif y < 0.85 and others:
                t = rng.choice(others)
            else:
                t = rng.choice([40, 41, next_id[0] + 1])
            if k == K_REQUEST and not sp.own_open(c, t) and rng.random() < 0.6:
                continue        # a bad REQUEST drops the client: keep them rarer
            emit((k, c, t))
        elif x < 0.82:
            known = list(sp.by_mb)
            if known and rng.random() < 0.85:
                mb = rng.choice(known)
            else:
                mb = rng.randrange(sp.count + 2)
            emit((K_RESULT, mb, rng.randint(0, 9)))
        elif x < 0.92:
            mb = rng.randrange(sp.count + 2)
            emit((rng.choice([K_ERROR, K_ERROR, K_LOG]), mb, rng.randint(0, 9)))
        elif x < 0.96:
            emit((K_DISCONNECT, c))
        elif nconn[0] < 6:
            connect()
    return hist


def exhaustive(depth):
    """client 0 acts; client 1 owns task 10 (mailbox 0).  Letters: submit a fresh id; status/result/cancel on
    {own = client 0's latest id, other's = 10, unknown = 77}; RESULT from below for client 0's latest mailbox and
    for the other client's mailbox."""
    prefix = [[K_CONNECT, 0], [K_CONNECT, 1], [K_SUBMIT, 1, 10]]
    letters = ['S'] + [(k, w) for k in (K_STATUS, K_REQUEST, K_CANCEL) for w in ('own', 'other', 'unknown')] + ['R0', 'R1']
    for n in range(1, depth + 1):
        for word in itertools.product(letters, repeat=n):
            hist = [list(e) for e in prefix]
            sp = Spec()
            for e in hist:
                sp.step(e)
            last, nxt, mb_last, count = None, 0, None, 1
            ok = True
            for a in word:
                if a == 'S':
                    ev = [K_SUBMIT, 0, nxt]
                    last, mb_last = nxt, count
                    nxt += 1
                    count += 1
                elif a == 'R0':
                    ev = [K_RESULT, mb_last if mb_last is not None else 5, 3]
                elif a == 'R1':
                    ev = [K_RESULT, 0, 4]
                else:
                    k, w = a
                    t = {'own': last if last is not None else 0, 'other': 10, 'unknown': 77}[w]
                    ev = [k, 0, t]
                if not sp.wf(ev):      # client 0 was dropped by a bad REQUEST: nothing more can arrive from it
                    ok = False
                    break
                sp.step(ev)
                hist.append(ev)
            if ok:
                yield hist


def run_loop_witness(ctx, mode):
    """The witness through the REAL ServerBase.run loop (scripted selector): what an exception in a handler does to
    the whole runtime.  Client 1's work must survive client 0's status() on a finished id."""
    import types
    import bqskit.runtime.detached as det
    from bqskit.runtime.message import RuntimeMessage as M
    from bqskit.runtime.direction import MessageDirection as D
    from bqskit.runtime.result import RuntimeResult
    from bqskit.runtime.address import RuntimeAddress
    im = Impl()
    srv = im.s
    c0, c1, w0 = im.conn(0), im.conn(1), im.wconns[0]
    script = [
        (c1, D.CLIENT, (M.SUBMIT, FakeTask(5))), (c0, D.CLIENT, (M.SUBMIT, FakeTask(0))),
        (w0, D.BELOW, (M.RESULT, RuntimeResult(RuntimeAddress(-1, 1, 0), ('res', 3), 0))),
        (c0, D.CLIENT, (M.REQUEST, uuid.UUID(int=0))),
        (c0, D.CLIENT, (M.STATUS, uuid.UUID(int=0))),          # D4: finished id
        (w0, D.BELOW, (M.RESULT, RuntimeResult(RuntimeAddress(-1, 0, 0), ('res', 4), 0))),
        (c1, D.CLIENT, (M.REQUEST, uuid.UUID(int=5))),
    ]
    for c in (c0, c1):
        srv.clients[c] = set()

    class Sel(FakeSel):
        def select(self):
            if not script:
                return [(types.SimpleNamespace(fileobj=None, data=D.SIGNAL), 1)]
            conn, d, m = script.pop(0)
            conn.recv = (lambda m=m: m)
            return [(types.SimpleNamespace(fileobj=conn, data=d), 1)]
    srv.sel = Sel()
    srv.outgoing_thread = types.SimpleNamespace(is_alive=lambda: False)
    old_time, old_level = det.time, det._logger.level
    det.time = types.SimpleNamespace(sleep=lambda x: None)
    det._logger.setLevel(100)
    import logging
    base_logger = logging.getLogger('bqskit.runtime.base')
    old_base = base_logger.level
    base_logger.setLevel(100)
    try:
        srv.run()
    finally:
        det.time = old_time
        det._logger.setLevel(old_level)
        base_logger.setLevel(old_base)
    queued = []
    while True:
        try:
            queued.append(srv.outgoing.get_nowait())
        except queue.Empty:
            break
    got_result = [p for c, m, p in queued if c is c1 and m == M.RESULT]
    sys_errors = {c.idx: [p for m, p in c.sent if m == M.ERROR] for c in (c0, c1)}
    shutdown_sent = all(any(m == M.SHUTDOWN for m, _ in w.sent) for w in im.wconns)
    events_left = len(script)
    ctx.case(('run-loop-witness',), nontrivial=True)
    ctx.count('run_loop_witness')
    obs = dict(client1_got_result=bool(got_result), events_not_processed=events_left,
               system_error_sent_to={k: [e[-90:] for e in v] for k, v in sys_errors.items() if v},
               employees_told_to_shut_down=shutdown_sent)
    ctx.cov['run_loop_witness'] = obs
    if got_result != [('res', 4)] or events_left or any(sys_errors.values()):
        ctx.violation(dict(SIG_CRASH) if events_left and any('KeyError' in e for v in sys_errors.values() for e in v) else
                      {'call': 'ServerBase.run', 'symptom': 'witness-not-served'},
                      dict(kind='run-loop', script='submit(c1,5) submit(c0,0) RESULT(mb1) result(c0,0) status(c0,0) RESULT(mb0) result(c1,5)'),
                      'client 1 receives RESULT 4; no system error', obs,
                      'status() of client 0 on a finished id raises KeyError inside ServerBase.run: every client is sent a system '
                      'error, all employees are shut down, and client 1 never gets the result of its finished compilation')


# --------------------------------------------------------------------------
# the REAL ServerBase.send_outgoing loop, in a thread
# --------------------------------------------------------------------------
class WireConn:
    """behaves like multiprocessing.connection.Connection for the sender: send() on a connection this process
    closed raises OSError('handle is closed'); when the peer is gone it raises ConnectionResetError / EOFError"""

    def __init__(self, name, idx):
        self.name, self.idx, self.closed, self.peer_gone = name, idx, False, False
        self.got = []                  # what was actually written
        self.attempts_when_closed = 0
        self.on_send = None

    def send(self, m):
        if self.closed:
            self.attempts_when_closed += 1
            raise OSError('handle is closed')
        if self.peer_gone:
            raise (ConnectionResetError if self.idx % 2 else EOFError)('peer is gone')
        self.got.append(m)
        if self.on_send is not None:
            self.on_send()

    def close(self):
        self.closed = True

    def __repr__(self):
        return f'<{self.name}>'


class HeldQueue(queue.Queue):
    """self.outgoing of the server under test.  Messages put by the main thread while a handler runs are released
    to the sender only when the handler has returned (so `queued, then connection closed in the same handler` is
    deterministic); messages put by the sender thread itself (handle_disconnect -> broadcast) go straight in."""

    def __init__(self):
        super().__init__()
        self.hold, self.pending, self.log = False, [], []
        self.main = None

    def put(self, item, block=True, timeout=None):
        import threading
        if isinstance(item, tuple) and len(item) == 3 and not getattr(item[0], 'is_sync', False):
            self.log.append(item)
        if self.hold and threading.current_thread() is self.main:
            self.pending.append(item)
        else:
            super().put(item, block, timeout)

    def release(self):
        for it in self.pending:
            super().put(it)
        self.pending = []


class SenderRig:
    """an Impl whose outgoing queue is consumed by the real send_outgoing in its own thread"""

    def __init__(self):
        import threading
        self.im = Impl()
        s = self.im.s
        self.im.conns = {}
        self.im.conn = self.conn
        for e in s.employees:           # employees get wire connections too
            w = WireConn(e.conn.name, e.conn.idx)
            del s.conn_to_employee_dict[e.conn]
            e.conn = w
            s.conn_to_employee_dict[w] = e
        self.im.wconns = [e.conn for e in s.employees]
        self.q = HeldQueue()
        self.q.main = threading.current_thread()
        s.outgoing = self.q
        self.sync_conn = WireConn('sync', 999)
        self.sync_conn.is_sync = True
        self.sync_ev = threading.Event()
        self.sync_conn.on_send = self.sync_ev.set
        self.died = []
        self.th = threading.Thread(target=self._body, daemon=True)
        self.th.start()

    def _body(self):
        try:
            self.im.s.send_outgoing()
        except BaseException as e:  # noqa: the thread would die with this exception
            self.died.append(f'{type(e).__name__}: {e}')

    def conn(self, c):
        if c not in self.im.conns:
            self.im.conns[c] = WireConn(f'client{c}', c)
        return self.im.conns[c]

    def sync(self, timeout=3.0):
        """wait until the sender has consumed everything queued so far; False if it cannot (thread dead)"""
        from bqskit.runtime.message import RuntimeMessage as M
        import time
        self.sync_ev.clear()
        queue.Queue.put(self.q, (self.sync_conn, M.LOG, None))
        t0 = time.time()
        while time.time() - t0 < timeout:
            if self.sync_ev.wait(0.01):
                return True
            if not self.th.is_alive():
                return False
        return False

    def apply(self, ev):
        self.q.hold = True
        try:
            s = self.im.s
            k = ev[0]
            self.im.apply(ev) if k != 'gone' else None
            if k == 'gone':
                self.conn(ev[1]).peer_gone = True
        finally:
            self.q.hold = False
            self.q.release()
        return self.sync()

    def stop(self):
        s = self.im.s
        s.running = False
        queue.Queue.put(self.q, b'\0')
        self.th.join(1.0)


def drain_noop(self):
    return []


def sender_history(ctx, hist, tag):
    """run a request history with the real sender thread.  Oracle: (a) what a connection received is the in-order
    subsequence of what was queued for it, (b) no write is attempted on a closed connection, (c) a connection that is
    open at the end received everything queued for it, (d) the thread is alive and a new client is still answered."""
    from bqskit.runtime.message import RuntimeMessage as M
    rig = SenderRig()
    rig.im.drain = lambda: []          # the sender consumes the queue; Impl must not
    ok_sync = True
    used = []
    for ev in hist:
        used.append(ev)
        if ev[0] != 'gone' and not rig.im.up:
            break
        if not rig.apply(ev):
            ok_sync = False
            break
    # (d) a fresh client must still be served
    probe_answered = False
    if rig.im.up:
        pc = 90
        for ev in ([K_CONNECT, pc], [K_SUBMIT, pc, 900], [K_STATUS, pc, 900]):
            rig.apply(ev)
        probe_answered = any(m == M.STATUS for m, _ in rig.conn(pc).got)
        sched = [m for w in rig.im.wconns for m, _ in w.got if m == M.SUBMIT_BATCH]
    alive = rig.th.is_alive() and not rig.died
    problems = []
    if not alive:
        problems.append(f'sender thread dead: {rig.died}')
    if rig.im.up and not probe_answered:
        problems.append('a new client is not answered any more')
    per = {}
    for c, m, p in rig.q.log:
        per.setdefault(c, []).append((m, p))
    for c, puts in per.items():
        got = list(c.got)
        if c.attempts_when_closed:
            problems.append(f'{c.attempts_when_closed} write(s) attempted on closed connection {c.name}')
        it = iter(puts)
        if not all(any(g[0] == q[0] and g[1] is q[1] for q in it) for g in got):
            problems.append(f'{c.name}: received messages are not an in-order subsequence of the queued ones')
        if not c.closed and not c.peer_gone and len(got) != len(puts):
            problems.append(f'{c.name} is open but received {len(got)} of {len(puts)} queued messages')
    rig.stop()
    key = ('sender', tag, tuple(map(tuple, hist)))
    ctx.case(key, nontrivial=any(c.closed or c.peer_gone for c in per))
    ctx.count('sender_histories')
    if any(c.closed and per.get(c) for c in per):
        ctx.count('sender_histories_with_message_for_closed_conn')
    if problems:
        ctx.violation({'call': 'ServerBase.send_outgoing', 'symptom': 'sender-thread-dead' if not alive else 'message-lost-or-misdelivered'},
                      dict(kind='sender', history=used, tag=tag), 'sender alive; every message for an open connection written in order; none to a closed one; later clients answered',
                      dict(problems=problems[:6]),
                      'real ServerBase.send_outgoing thread: ' + '; '.join(problems[:3]))
        return False
    return True


def gen_sender_history(rng):
    """a request history + peer-gone marks; events of a client whose peer is gone are dropped"""
    h = gen_history(rng, rng.randint(6, 24))
    out, gone = [], set()
    for ev in h:
        if ev[0] in (K_SUBMIT, K_REQUEST, K_STATUS, K_CANCEL, K_DISCONNECT, K_CONNECT) and ev[1] in gone:
            continue
        out.append(ev)
        if ev[0] == K_SUBMIT and rng.random() < 0.12:
            out.append(['gone', ev[1]])
            gone.add(ev[1])
    return out


def gen_sender_queue(rng):
    n = rng.randint(2, 5)
    states = [rng.choice([0, 0, 1, 2]) for _ in range(n)]
    msgs = [[rng.randrange(n), rng.randint(0, 9)] for _ in range(rng.randint(1, 14))]
    return states, msgs


def sender_queue_cases(ctx, cases):
    """pure queue: connections in given states (0 open, 1 closed by the server, 2 peer gone), a list of messages;
    the real send_outgoing thread is compared with the extracted model send_all (coq/rt/ServerSend.v)"""
    from bqskit.runtime.message import RuntimeMessage as M
    obs, lines = [], []
    for states, msgs in cases:
        n = len(states)
        rig = SenderRig()
        s = rig.im.s
        for c, stt in enumerate(states):
            w = rig.conn(c)
            s.clients[w] = set()
            if stt == 1:
                s.handle_disconnect(w)          # closed by the server
            elif stt == 2:
                w.peer_gone = True
        rig.q.hold = True
        for c, m in msgs:
            s.outgoing.put((rig.conn(c), M.LOG, m))
        rig.q.hold = False
        rig.q.release()
        synced = rig.sync()
        alive = rig.th.is_alive() and not rig.died
        per = {c: [p for _, p in rig.conn(c).got] for c in range(n)}
        dropped = sorted(c for c in range(n) if states[c] == 2 and rig.conn(c).closed)
        rig.stop()
        obs.append((int(alive and synced), per, dropped, rig.died))
        lines.append(f"sender 1 [{' '.join(map(str, states))}] {fmt_hist(msgs)}")
    outs = vf.run_model('server', lines) if lines else []
    nok = 0
    for (states, msgs), (alive, per, dropped, died), ln in zip(cases, obs, outs):
        mv = parse_v(ln)
        n = len(states)
        m_alive, m_sent, m_dropped = mv[0], mv[1], sorted(mv[2])
        m_per = {c: [m for cc, m in m_sent if cc == c] for c in range(n)}
        ctx.case(('senderq', tuple(states), tuple(map(tuple, msgs))), nontrivial=any(states))
        ctx.count('sender_queue_cases')
        if (alive, per, dropped) != (m_alive, m_per, m_dropped):
            ctx.violation({'call': 'ServerBase.send_outgoing', 'symptom': 'sender-thread-dead' if not alive else 'model-mismatch'},
                          dict(kind='sender-queue', states=states, msgs=msgs), dict(alive=m_alive, sent=m_per, disconnected=m_dropped),
                          dict(alive=alive, sent=per, disconnected=dropped, died=died),
                          f'real send_outgoing vs model send_all (connection states {states}: 0 open, 1 closed by the server, 2 peer gone)',
                          kind='correspondence' if alive else 'input', corr='coq/rt/ServerSend.v vs bqskit/runtime/base.py send_outgoing')
        else:
            nok += 1
    return nok


SENDER_CORPUS = {
    'unknown-task-then-close': [[0, 0], [0, 1], [2, 1, 1], [3, 0, 7], [6, 0, 4], [3, 1, 1], [4, 1, 1]],
    'log-queued-for-leaving-client': [[0, 0], [0, 1], [2, 0, 0], [2, 1, 1], [8, 0, 1], [1, 0], [7, 0, 2], [6, 1, 3], [3, 1, 1]],
    'peer-gone-with-result-queued': [[0, 0], [0, 1], [2, 0, 0], [2, 1, 1], [3, 0, 0], ['gone', 0], [6, 0, 2], [6, 1, 5], [3, 1, 1]],
}


def detect_mode(ctx):
    """which model does the implementation correspond to?  The witnesses are compared with all three; ties go to
    the most repaired variant.  Also selects the matching variant of the specification (Spec.dc)."""
    hs = list(WITNESSES.values())
    impl = [run_impl(h) for h in hs]
    agree = {}
    for mode, fx in MODES.items():
        ms = model_runs(hs, fx)
        agree[mode] = sum(norm(i[0]) == norm(m) for i, m in zip(impl, ms))
    ctx.cov['witness_agreement'] = dict(agree, of=len(hs))
    mode = max(['current', 'fixed', 'fixed-drop'], key=lambda m: (agree[m], MODES[m]))
    # late ERROR for a cancelled task: which variant of the specification applies is read off the implementation
    probe = run_impl(WITNESSES['error-after-cancel'])[0]
    Spec.dc = (probe[4][0] == [] and probe[4][1] is not None)
    ctx.cov['spec_variant'] = 'cancelled task forgotten (late ERROR/LOG dropped)' if Spec.dc else \
        'cancelled task remembered until disconnect (late ERROR/LOG forwarded)'
    return mode


def run_batch(ctx, hists, mode, tag, oracle_expected_clean=None):
    fx = MODES[mode]
    models = model_runs(hists, fx)
    nclean = 0
    for h, mo in zip(hists, models):
        io, exc = run_impl(h)
        key = (tag, tuple(map(tuple, h)))
        nontrivial = any(e[0] in (K_SUBMIT,) for e in h) and len(h) >= 3
        ctx.case(key, nontrivial=nontrivial)
        for e in h:
            ctx.count('ev_' + KNAMES[e[0]])
        if check_history(ctx, h, io, exc, mo, mode, tag):
            nclean += 1
        if any(t is None for _, t in io):
            ctx.count('histories_ending_in_crash')
    return nclean


def spec_cross_check(ctx, hists):
    """the Python oracle and the Coq specification (extracted) must be the same machine"""
    ms = model_specs(hists)
    for h, (wf, outs) in zip(hists, ms):
        sp = Spec()
        ok = True
        mine = []
        for ev in h:
            if not sp.wf(ev):
                ok = False
                break
            mine.append(sp.step(ev))
        if ok != bool(wf) or (ok and norm(mine) != norm(outs)):
            ctx.broken_obligation('python specification oracle differs from the Coq specification sstep',
                                  json.dumps(dict(history=h, python=[ok, mine], coq=[wf, outs]), default=str))
            return False
    return True


INHERITED = ['handle_message', 'handle_new_comp_task', 'handle_request', 'handle_status', 'handle_cancel_comp_task',
             'handle_result', 'handle_error', 'handle_log', 'handle_system_error', 'handle_shutdown', '_get_new_mailbox_id',
             'run', 'send_outgoing', 'schedule_tasks', 'send_result_down', 'broadcast']


def attached_inherits(ctx):
    """AttachedServer differs from DetachedServer only in __init__ and handle_disconnect (= shutdown: the single
    client owns the runtime): every handler of the model is the very same function object (fail-closed)."""
    from bqskit.runtime.attached import AttachedServer
    from bqskit.runtime.detached import DetachedServer
    own = sorted(k for k, v in vars(AttachedServer).items() if callable(v))
    bad = [n for n in INHERITED if getattr(AttachedServer, n, None) is not getattr(DetachedServer, n, 0)]
    ctx.cov['attached_overrides'] = own
    if AttachedServer.__mro__[1] is not DetachedServer or bad or own != ['__init__', 'handle_disconnect']:
        ctx.broken_obligation('AttachedServer no longer inherits the handlers modelled by rt/ServerM.v',
                              f'overridden or missing: {bad}; own methods: {own}; bases: {AttachedServer.__mro__[1:3]}')


def run(ctx: vf.Ctx):
    ctx.uses_translators = set()
    t_b = __import__('time').time()
    ctx.build(**BUILD)
    ctx.cov['t_build_incl_lock_wait_s'] = round(__import__('time').time() - t_b, 1)
    ctx.rule = ('request histories on a real DetachedServer (handle_message) vs the extracted Coq model, answers + '
                'canonical tables compared after every event; random histories of length <=30 with 1-3 (up to 6 '
                'successive) clients, ids own/foreign/unknown in every state, RESULT/ERROR/LOG from below interleaved; '
                'a D4-avoiding stream; a malformed stream (unregistered connection, duplicate id, double connect); '
                'exhaustive words of length <=%d over {submit,status,result,cancel}x{own,other,unknown}+RESULT; '
                'non-trivial = history with a submit and >=3 events, distinct by event list' % ctx.n(4, 5))
    ctx.assumptions += [
        'results are not None (CompilationTask.run returns a Circuit or a tuple); ServerMailbox.ready tests `is not None`',
        'employee bookkeeping of handle_result/schedule_tasks (num_tasks, idle counts) belongs to C15 and is not compared',
        'the outgoing thread is replaced by inspection of self.outgoing; a message queued for a connection closed in the '
        'same handler (Unknown task. before handle_disconnect) may in reality be skipped by send_outgoing',
        'non-tuple ERROR payloads (internal runtime errors from below) are outside the model: they shut the runtime down by design',
    ]
    ctx.trusted = ['Coq 8.16.1 kernel + vm_compute', 'ExtrOcamlBasic extraction, OCaml 4.13.1, coq/extract/server_driver.ml',
                   'harness/props/c13.py (fake connections, canonicalisation, python specification oracle)']
    if not ctx.extract_ok.get('server'):
        return
    mode = detect_mode(ctx)
    ctx.cov['impl_mode'] = mode
    rng = ctx.rng

    run_loop_witness(ctx, mode)

    corpus = []
    cdir = vf.ROOT / 'corpus' / 'C13'
    for f in sorted(cdir.glob('*.json')) if cdir.exists() else []:
        corpus.append(json.loads(f.read_text())['history'])
    corpus += [h for h in WITNESSES.values() if h not in corpus]
    run_batch(ctx, corpus, mode, 'corpus')
    ctx.count('corpus', len(corpus))

    gen = [gen_history(rng, rng.randint(4, 30)) for _ in range(ctx.n(2500, 40000))]
    gen_safe = [gen_history(rng, rng.randint(8, 30), avoid_d4=True) for _ in range(ctx.n(2500, 40000))]
    gen_bad = [gen_history(rng, rng.randint(4, 20), malformed=True) for _ in range(ctx.n(800, 12000))]
    ctx.count('random', len(gen))
    ctx.count('random_d4_avoiding', len(gen_safe))
    ctx.count('malformed', len(gen_bad))
    for h in gen[:2] + gen_safe[:1]:
        ctx.sample(dict(history=h))
    spec_cross_check(ctx, corpus + gen[:500] + gen_safe[:500])
    run_batch(ctx, gen, mode, 'random')
    clean_safe = run_batch(ctx, gen_safe, mode, 'random-d4-avoiding')
    run_batch(ctx, gen_bad, mode, 'malformed')
    ex = list(exhaustive(ctx.n(4, 5)))
    ctx.count('exhaustive', len(ex))
    run_batch(ctx, ex, mode, 'exhaustive')
    ctx.cov['d4_avoiding_histories_clean'] = clean_safe

    # extension: ERROR / LOG through a tree of real Manager objects vs rt/ErrTree.v; the client side vs rt/ClientM.v;
    # AttachedServer inherits every handler of the model
    import sys as _sys
    import c13_tree
    import c13_client
    t_x = __import__('time').time()
    if ctx.extract_ok.get('errtree'):
        c13_tree.run_tree(ctx, mode, _sys.modules[__name__])
    if ctx.extract_ok.get('client'):
        ctx.cov['client_mode'] = c13_client.run_client(ctx)
    attached_inherits(ctx)
    ctx.cov['t_extension_s'] = round(__import__('time').time() - t_x, 1)

    # the real sender thread
    import logging as _lg
    _lg.getLogger('bqskit').setLevel(_lg.CRITICAL)
    t_s = __import__('time').time()
    ok_s = sum(sender_history(ctx, h, 'corpus') for h in SENDER_CORPUS.values())
    ok_s += sum(sender_history(ctx, gen_sender_history(rng), 'random') for _ in range(ctx.n(150, 1500)))
    ok_q = sender_queue_cases(ctx, [([1, 0], [[0, 4], [1, 9]])] + [gen_sender_queue(rng) for _ in range(ctx.n(80, 800))])
    ctx.cov['sender_histories_ok'] = ok_s
    ctx.cov['sender_queue_cases_ok'] = ok_q
    ctx.cov['t_sender_s'] = round(__import__('time').time() - t_s, 1)

    # real Compiler objects + real Workers / Managers, in process
    import logging
    import warnings
    warnings.simplefilter('ignore', RuntimeWarning)
    logging.getLogger('bqskit').setLevel(logging.CRITICAL)
    t_sc = __import__('time').time()
    with det_uuids():
        n_ok = sum(error_scenario(ctx, i) for i in range(ctx.n(120, 1500)))
        ctx.cov['error_forwarding_scenarios_ok'] = n_ok
        n_ok = sum(client_scenario(ctx, i, avoid_d4=(mode == 'current' and i % 2 == 0)) for i in range(ctx.n(200, 3000)))
        ctx.cov['client_api_scenarios_ok'] = n_ok
    ctx.cov['t_scenarios_s'] = round(__import__('time').time() - t_sc, 1)


def replay(ctx: vf.Ctx, data):
    _case = data.get('case') if isinstance(data, dict) else None
    if isinstance(_case, dict) and _case.get('kind') == 'tree':
        import sys as _sys
        import c13_tree
        c13_tree.check_case(ctx, {k: v for k, v in _case.items() if k != 'kind'}, _sys.modules[__name__],
                            MODES[detect_mode(ctx)], 'replay')
        return
    if isinstance(_case, dict):
        import c13_client
        if c13_client.replay_client(ctx, _case):
            return
    import logging
    import warnings
    warnings.simplefilter('ignore', RuntimeWarning)
    logging.getLogger('bqskit').setLevel(logging.CRITICAL)
    case = data.get('case') or {}
    ctx.seed = data.get('seed', ctx.seed)
    mode = detect_mode(ctx)
    ctx.cov['impl_mode'] = mode
    kind = case.get('kind')
    if kind == 'error-forwarding':
        with det_uuids():
            error_scenario(ctx, case['seed_index'])
    elif kind == 'client-api':
        with det_uuids():
            client_scenario(ctx, case['seed_index'], avoid_d4=case.get('avoid_d4', False))
    elif kind == 'run-loop':
        run_loop_witness(ctx, mode)
    elif kind == 'sender':
        sender_history(ctx, case['history'], 'replay')
    elif kind == 'sender-queue':
        sender_queue_cases(ctx, [(case['states'], case['msgs'])])
    elif case.get('history'):
        run_batch(ctx, [case['history']], mode, 'replay')
    else:
        ctx.broken_obligation('replay: unknown case kind in the replay file', json.dumps(data)[:500])
