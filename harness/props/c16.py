"""C16 - objects shipped between processes arrive equal to what was sent."""
from __future__ import annotations

import inspect
import pickle

import vf
from circ_props import BUILD as CBUILD, run_histories, replay_case, jsonable

WANT = {'pickle'}
BUILD = dict(extracted=['circuit', 'ptable'], translators={'gen_fields'}, props=['C16'])


def classify(f):
    k = f['kind']
    call = f['call'][0]
    if k in ('pickle', 'copy'):
        return dict(call=k, symptom='roundtrip-differs'), f'{k} of a circuit reached by an editing history is not equal to the original (same layout, params, ==)'
    if k == 'pickle_raised':
        return dict(call='pickle', symptom='raised'), 'pickling a reachable circuit raised: ' + str(f.get('detail'))
    return None


def run(ctx: vf.Ctx):
    import os
    have_pd = (vf.COQ / 'props' / 'C16pd.v').exists()
    props = ['C16'] + (['C16pd'] if have_pd else [])
    ctx.uses_translators = {'gen_fields'} if (vf.ROOT / 'harness' / 'gen' / 'gen_fields.py').exists() else set()
    ctx.build(extracted=['circuit', 'ptable'], translators=ctx.uses_translators, props=props)
    ctx.rule = ('(a) random editing histories on the real Circuit; every third step the circuit is pickled/unpickled and copied and '
                'compared (cycle layout, parameters, ==, views); the marshalled cycles of __reduce__ are compared with the Coq model '
                '`reduce`; (b) copy/become independence probes; (c) catalogue sweep: every gate class exported by bqskit.ir.gates x '
                'constructor grid, Operation, CouplingGraph, GateSet, MachineModel, PassData with every reserved and user key, Workflows '
                'nesting every control pass, RuntimeTask payloads: pickle (and dill) round trip, ==, hash, unitary; '
                '(d) variant families (harness/c16_families.py): for every composed/parameterised gate class, sets of gates of one class and the same '
                'radixes differing in exactly one constructor argument (control levels, power, frozen index/value, tag, level maps, locations, inner gate, '
                'inner circuit), plus every such group found in the catalogue: pairwise hash/== injectivity (hypothesis of C16_gate_table_roundtrip) and '
                'circuits / nested CircuitGates holding the whole family through pickle, dill, copy, become, compared per operation on constructor state, '
                'unitary, ==, hash, gate_set; the real __reduce__ gate table compared with the extracted model. '
                'non-trivial = object with content; distinct by canonical text')
    ctx.assumptions += ['pickle/dill themselves are trusted', 'CachedClass identity is checked, not modelled']
    ctx.trusted = ['Coq 8.16.1 kernel', 'ExtrOcamlBasic extraction + circuit_driver.ml + ptable_driver.ml', 'harness/c16_families.py describe() (gate identity by class + __dict__)', 'harness snapshot through the public read API',
                   'harness/gen/gen_fields.py (field translator, see C11 notes)']
    results = run_histories(ctx, WANT, ctx.n(200, 6000), ctx.n(25, 40), classify)
    reduce_correspondence(ctx, results)
    copy_become_probes(ctx)
    objs = catalogue(ctx)
    import c16_families
    c16_families.run(ctx, objs)
    passdata_fields(ctx)


def reduce_correspondence(ctx, results):
    import circ_common as cc
    lines, exp = [], []
    for r in results:
        if not r['steps']:
            continue
        post = r['steps'][-1][2].split('| ', 1)[1]
        try:
            pre = eval(post.replace('] [', '],[').replace(' ', ','))   # nested lists
        except Exception:
            continue

        def tup(x):
            return tuple(tup(y) for y in x) if isinstance(x, list) else x
        s = tup(pre)
        c = cc.circ_from_snap_exact(s)
        if cc.check_views(c):
            continue   # an already reported/known inconsistent object (idle cycle)
        red = c.__reduce__()[1]
        gates = [pickle.loads(b) if not d else __import__('dill').loads(b) for d, b in red[2]]
        cycles = pickle.loads(red[3])
        got = [[cc.snap_op(cc.Operation(gates[g], list(loc), list(ps))) for g, loc, ps in cy] for cy in cycles]
        lines += ['set ' + cc.fmt(s), 'reduce']
        exp.append(cc.fmt(got))
    out = vf.run_model('circuit', lines)
    for j, e in enumerate(exp):
        ctx.count('reduce_compared')
        if out[2 * j + 1] != e:
            ctx.mismatch('coq/circuit/CPickle.v reduce vs Circuit.__reduce__', lines[2 * j], out[2 * j + 1][:1500], e[:1500])


def copy_become_probes(ctx):
    import circ_common as cc
    rng = ctx.rng
    for t in range(ctx.n(100, 1500)):
        n = rng.randint(1, 5)
        rads = tuple(rng.choice([2, 2, 3]) for _ in range(n))
        c = cc.Circuit(n, list(rads))
        for _ in range(rng.randint(0, 8)):
            if rng.random() < 0.2 and n >= 2:
                k = rng.randint(1, 2)
                loc = sorted(rng.sample(range(n), k))
                c.append_circuit(cc.circ_from_snap(cc.rand_sub(rng, tuple(rads[q] for q in loc))), loc, True)
            else:
                c.append(cc.op_from_snap(cc.rand_op(rng, n, rads)))
        s0 = cc.snap(c)
        p0 = list(c.params)
        ctx.case(('copy', s0))
        d = c.copy()
        e = cc.Circuit(1)
        e.become(c)
        f = pickle.loads(pickle.dumps(c))
        for name, x in (('copy', d), ('become', e), ('pickle', f)):
            if cc.snap(x) != s0 or not (x == c) or list(x.params) != p0 or cc.check_views(x):
                ctx.violation(dict(call=name, symptom='not-equal'), dict(circuit=jsonable(s0)), 'equal object', jsonable(cc.snap(x)), f'{name} is not equal to its source')
            # independence: mutate the duplicate in every way the API allows, the source must not move
            if x.num_params:
                x.set_params([p + 1 for p in x.params])
            x.append(cc.op_from_snap(cc.rand_op(rng, n, rads)))
            if x.num_operations > 1:
                x.pop()
            for cy, op in list(x.operations_with_cycles()):
                if isinstance(op.gate, cc.CircuitGate) and op.gate._circuit.num_params:
                    op.gate._circuit.set_params([p + 5 for p in op.gate._circuit.params])
            if cc.snap(c) != s0 or list(c.params) != p0:
                ctx.violation(dict(call=name, symptom='shares-state'), dict(circuit=jsonable(s0)), 'source unchanged', jsonable(cc.snap(c)), f'mutating the result of {name} changed the source')
                break


def catalogue(ctx):
    import numpy as np
    import dill
    import bqskit.ir.gates as G
    from bqskit.ir.gate import Gate
    from bqskit.ir.circuit import Circuit
    from bqskit.ir.operation import Operation
    from bqskit.qis.graph import CouplingGraph
    from bqskit.compiler.machine import MachineModel
    from bqskit.compiler.gateset import GateSet
    from bqskit.compiler.passdata import PassData
    rng = np.random.default_rng(ctx.seed)
    objs = []
    uncovered = []
    sub = Circuit(2)
    sub.append_gate(G.CXGate(), (0, 1))
    sub.append_gate(G.U3Gate(), 0, [0.1, 0.2, 0.3])
    grid = {
        'CircuitGate': [lambda: G.CircuitGate(sub)],
        'ControlledGate': [lambda: G.ControlledGate(G.XGate()), lambda: G.ControlledGate(G.U3Gate(), 2), lambda: G.ControlledGate(G.ZGate(3), 1, 3, [[1, 2]]) if 'radix' in inspect.signature(G.ZGate.__init__).parameters or True else None],
        'DaggerGate': [lambda: G.DaggerGate(G.U3Gate()), lambda: G.DaggerGate(G.CXGate())],
        'PowerGate': [lambda: G.PowerGate(G.RZGate(), k) for k in (-2, 0, 3)] if hasattr(G, 'PowerGate') else [],
        'FrozenParameterGate': [lambda: G.FrozenParameterGate(G.U3Gate(), {0: 1.0}), lambda: G.FrozenParameterGate(G.U3Gate(), {0: 1.0, 2: 0.5})],
        'TaggedGate': [lambda: G.TaggedGate(G.XGate(), 'tag'), lambda: G.TaggedGate(G.U3Gate(), ('a', 1))],
        'VariableUnitaryGate': [lambda: G.VariableUnitaryGate(1), lambda: G.VariableUnitaryGate(2), lambda: G.VariableUnitaryGate(1, [3])],
        'ConstantUnitaryGate': [lambda: G.ConstantUnitaryGate(G.HGate().get_unitary())],
        'PauliGate': [lambda: G.PauliGate(1), lambda: G.PauliGate(2)],
        'PauliZGate': [lambda: G.PauliZGate(2)],
        'MPRYGate': [lambda: G.MPRYGate(3)], 'MPRZGate': [lambda: G.MPRZGate(3)],
        'PDGate': [lambda: G.PDGate(1)], 'PermutationGate': [lambda: G.PermutationGate(2, (1, 0))],
        'RSU3Gate': [lambda: G.RSU3Gate(0)], 'SubSwapGate': [lambda: G.SubSwapGate(3, '0,1')],
        'EmbeddedGate': [lambda: G.EmbeddedGate(G.XGate(), 3, [0, 2])],
        'VariableLocationGate': [lambda: G.VariableLocationGate(G.CXGate(), [(0, 1), (1, 2)], [2, 2, 2])],
        'MeasurementPlaceholder': [lambda: G.MeasurementPlaceholder([('c', 2)], {0: ('c', 0), 1: ('c', 1)})],
        'BarrierPlaceholder': [lambda: G.BarrierPlaceholder(2), lambda: G.BarrierPlaceholder(3, [2, 3, 2])],
    }
    for name in sorted(dir(G)):
        cls = getattr(G, name)
        if not (inspect.isclass(cls) and issubclass(cls, Gate)) or inspect.isabstract(cls):
            continue
        if name in ('ComposedGate', 'QuditGate', 'GeneralGate', 'ConstantGate', 'QubitGate', 'QutritGate'):
            continue   # bases, not concrete gates
        makers = list(grid.get(name, []))
        try:
            cls()
            makers.append(cls)
        except Exception:
            pass
        for r in (3, 4):
            try:
                cls(r)
                makers.append(lambda cls=cls, r=r: cls(r))
            except Exception:
                pass
        # the same constructions through KEYWORD arguments (CachedClass keys and __getnewargs_ex__ treat them apart)
        try:
            sig = inspect.signature(cls.__init__)
            names = [n for n, prm in sig.parameters.items() if n != 'self' and prm.kind in (prm.POSITIONAL_OR_KEYWORD, prm.KEYWORD_ONLY)]
        except (TypeError, ValueError):
            names = []
        for nm in names[:3]:
            for val in (2, 3, 4, 1):
                try:
                    cls(**{nm: val})
                    makers.append(lambda cls=cls, nm=nm, val=val: cls(**{nm: val}))
                except Exception:
                    pass
        if name in ('MPRZGate', 'MPRYGate'):
            makers.append(lambda cls=cls: cls(3, target_qubit=1))
        made = 0
        for mk in makers:
            try:
                g = mk()
            except Exception:
                continue
            if g is None:
                continue
            made += 1
            objs.append((f'gate:{name}:{made}', g))
        if not made and name not in ('ComposedGate', 'QuditGate', 'GeneralGate', 'ConstantGate', 'QubitGate', 'QutritGate'):
            uncovered.append(name)
    ctx.cov['uncovered_gate_classes'] = uncovered
    for tag, g in objs:
        ctx.case(('cat', tag))
        ctx.count('catalogue:gate')
        for dumper, dname in ((pickle, 'pickle'), (dill, 'dill')):
            try:
                h = dumper.loads(dumper.dumps(g))
            except Exception as e:
                ctx.violation(dict(call=dname, obj=tag.split(':')[1], symptom='raised'), tag, 'round trip', repr(e)[:200], f'{dname} of gate {tag} raised')
                continue
            bad = []
            # building the default-argument instance on the receiving side must not disturb the received gate
            try:
                type(g)()
            except Exception:
                pass
            if not (h == g):
                bad.append('==')
            if hash(h) != hash(g):
                bad.append('hash')
            if h.radixes != g.radixes or h.num_params != g.num_params or h.num_qudits != g.num_qudits:
                bad.append('shape')
            try:
                p = rng.uniform(-3, 3, g.num_params)
                if not np.allclose(np.array(h.get_unitary(p)), np.array(g.get_unitary(p)), atol=1e-12):
                    bad.append('unitary')
            except NotImplementedError:
                pass
            except Exception as e:
                if type(e).__name__ not in ('AttributeError',) or 'get_unitary' not in str(e):
                    pass
            if bad:
                ctx.violation(dict(call=dname, obj=tag.split(':')[1], symptom='not-equal'), tag, 'equal gate', bad, f'{dname} round trip of gate {tag} differs in {bad}')
        # operation carrying the gate
        try:
            op = Operation(g, list(range(g.num_qudits)), list(rng.uniform(-1, 1, g.num_params)))
            op2 = pickle.loads(pickle.dumps(op))
            if not (op2 == op) or hash(op2) != hash(op) or list(op2.params) != list(op.params):
                ctx.violation(dict(call='pickle', obj='Operation', symptom='not-equal'), tag, 'equal operation', str(op2), 'pickled Operation differs')
        except Exception as e:
            pass
    # graphs, gate sets, models, pass data
    others = []
    for es, n in (([(0, 1), (1, 2)], 3), ([], 2), ([(0, 3)], 5), ([(i, i + 1) for i in range(6)], 7)):
        cg = CouplingGraph(es, n)
        others.append(('CouplingGraph', cg, lambda a, b: a == b and a.num_qudits == b.num_qudits and set(a) == set(b) and hash(a) == hash(b)))
        gs = GateSet({G.CXGate(), G.U3Gate(), G.RZGate()})
        others.append(('GateSet', gs, lambda a, b: a == b and hash(a) == hash(b)))
        try:
            mm = MachineModel(n, es, gs)
            others.append(('MachineModel', mm, lambda a, b: a.num_qudits == b.num_qudits and a.gate_set == b.gate_set and a.coupling_graph == b.coupling_graph and a.radixes == b.radixes))
        except Exception:
            pass
    c = Circuit(3)
    c.append_gate(G.CXGate(), (0, 2))
    pd = PassData(c)
    pd.placement = [2, 0, 1]
    pd.initial_mapping = [1, 2, 0]
    pd.final_mapping = [2, 1, 0]
    pd.error = 0.25
    pd.seed = 7
    pd['user_key'] = {'a': [1, 2]}
    pd.model = MachineModel(4, [(0, 1), (1, 2), (2, 3)])

    def pd_eq(a, b):
        return (a.placement == b.placement and a.initial_mapping == b.initial_mapping and a.final_mapping == b.final_mapping
                and a.error == b.error and a.seed == b.seed and dict(a._data) == dict(b._data)
                and a.model.coupling_graph == b.model.coupling_graph and a.target == b.target)
    others.append(('PassData', pd, pd_eq))
    for name, o, eq in others:
        ctx.case(('cat', name, repr(o)[:80]))
        ctx.count('catalogue:' + name)
        for dumper, dname in ((pickle, 'pickle'), (dill, 'dill')):
            try:
                o2 = dumper.loads(dumper.dumps(o))
                if not eq(o, o2):
                    ctx.violation(dict(call=dname, obj=name, symptom='not-equal'), repr(o)[:200], 'equal object', repr(o2)[:200], f'{dname} round trip of {name} differs')
            except Exception as e:
                ctx.violation(dict(call=dname, obj=name, symptom='raised'), repr(o)[:200], 'round trip', repr(e)[:200], f'{dname} of {name} raised')
    # a freshly constructed / copied / unpickled PassData must not alias its mutable fields with one another:
    # passes permute placement in place (`_apply_perm(pi, data.placement)`)
    for tag, mk in (('init', lambda: PassData(Circuit(4))), ('copy', lambda: PassData(Circuit(4)).copy()),
                    ('pickle', lambda: pickle.loads(pickle.dumps(PassData(Circuit(4))))), ('target-reset', None)):
        if mk is None:
            x = PassData(Circuit(2))
            from bqskit.qis.unitary.unitarymatrix import UnitaryMatrix as _UM
            x.target = _UM.identity(16)      # the target setter re-initialises placement and mappings
        else:
            x = mk()
        ctx.case(('cat', 'PassData-alias', tag))
        names = ('placement', 'initial_mapping', 'final_mapping')
        lists = {nm: getattr(x, '_' + nm) for nm in names}
        shared = [(a, b) for i, a in enumerate(names) for b in names[i + 1:] if lists[a] is lists[b]]
        before = {nm: list(getattr(x, nm)) for nm in names[1:]}
        x._placement.reverse()
        moved = [nm for nm in names[1:] if list(getattr(x, nm)) != before[nm]]
        if shared or moved:
            ctx.violation(dict(call='PassData.' + tag, symptom='fields-alias'), dict(how=tag), 'three distinct lists', dict(shared=shared, moved=moved),
                          f'PassData ({tag}): placement / initial_mapping / final_mapping share one list object; an in-place permutation of the placement changes the mappings')
    # PassData.copy / become : equal in every field and independent
    q = pd.copy()
    if not pd_eq(pd, q):
        ctx.violation(dict(call='PassData.copy', symptom='not-equal'), 'PassData with every reserved key', 'equal', 'different', 'PassData.copy differs from its source')
    q.placement = [0, 1, 2]
    q['user_key']['a'].append(3)
    if pd.placement != [2, 0, 1] or pd['user_key'] != {'a': [1, 2]}:
        ctx.violation(dict(call='PassData.copy', symptom='shares-state'), 'PassData', 'independent', 'shared', 'PassData.copy shares mutable state')
    r = PassData(Circuit(1))
    r.become(pd)
    if not pd_eq(pd, r):
        missing = [k for k in ('placement', 'initial_mapping', 'final_mapping', 'error', 'seed') if getattr(pd, k) != getattr(r, k)]
        ctx.violation(dict(call='PassData.become', missing=','.join('_' + m for m in missing)), 'PassData with every reserved key', 'equal in every field', missing, 'PassData.become does not copy ' + ','.join(missing))
    workflows(ctx)
    return objs


def workflows(ctx):
    import dill
    from bqskit.compiler.workflow import Workflow
    from bqskit.passes import (IfThenElsePass, WhileLoopPass, DoWhileLoopPass, DoThenDecide, ParallelDo, ForEachBlockPass,
                               UnfoldPass, QuickPartitioner, NOOPPass, ChangePredicate, WidthPredicate, GateCountPredicate)
    from bqskit.ir.gates import CXGate
    from bqskit.runtime.task import RuntimeTask
    from bqskit.runtime.address import RuntimeAddress
    import c16_callables as cb
    wf = Workflow([
        QuickPartitioner(3),
        ForEachBlockPass([NOOPPass(), IfThenElsePass(WidthPredicate(2), NOOPPass(), UnfoldPass())], replace_filter=cb.keep_smaller),
        WhileLoopPass(ChangePredicate(), NOOPPass()),
        DoWhileLoopPass(GateCountPredicate(CXGate()), [NOOPPass()]),
        DoThenDecide(cb.accept, [NOOPPass()]),
        ParallelDo([[NOOPPass()], [UnfoldPass()]], cb.pick_first),
        UnfoldPass(),
    ], name='nested')
    ctx.case(('cat', 'Workflow'))
    ctx.count('catalogue:Workflow')

    def shape(w):
        out = []
        for p in w:
            out.append(type(p).__name__)
            for attr in ('workflow', 'loop_body', 'on_true', 'on_false', 'pass_seqs', 'condition'):
                v = getattr(p, attr, None)
                if isinstance(v, Workflow):
                    out.append((attr, shape(v)))
                elif isinstance(v, (list, tuple)) and v and isinstance(v[0], Workflow):
                    out.append((attr, [shape(x) for x in v]))
                elif v is not None and attr == 'condition':
                    out.append((attr, type(v).__name__ if not callable(v) or hasattr(v, 'get_truth_value') else getattr(v, '__name__', '?')))
        return out
    for dumper, dname in ((pickle, 'pickle'), (dill, 'dill')):
        try:
            w2 = dumper.loads(dumper.dumps(wf))
            if shape(w2) != shape(wf) or w2.name != wf.name:
                ctx.violation(dict(call=dname, obj='Workflow', symptom='not-equal'), str(shape(wf))[:300], 'same workflow tree', str(shape(w2))[:300], f'{dname} round trip of a nested Workflow differs')
        except Exception as e:
            ctx.violation(dict(call=dname, obj='Workflow', symptom='raised'), 'nested workflow', 'round trip', repr(e)[:300], f'{dname} of a nested Workflow raised')
    # RuntimeTask payload
    try:
        t = RuntimeTask((cb.accept, (1, 2), {'k': [3]}), RuntimeAddress(0, 0, 0), 0, (), 0)
        t2 = pickle.loads(pickle.dumps(t))
        if t2.fnargs[1] != (1, 2) or t2.fnargs[2] != {'k': [3]} or t2.fnargs[0].__name__ != 'accept':
            ctx.violation(dict(call='pickle', obj='RuntimeTask', symptom='not-equal'), 'task', 'same fnargs', str(t2.fnargs)[:200], 'RuntimeTask payload differs after pickling')
        ctx.case(('cat', 'RuntimeTask'))
    except TypeError:
        ctx.cov['runtime_task_ctor'] = 'signature differs; skipped'


def passdata_fields(ctx):
    """AST cross-check, independent of gen_fields: every attribute assigned in __init__ of PassData / Circuit is
    assigned in become() and read in copy()."""
    import ast
    for rel, cls in (('bqskit/compiler/passdata.py', 'PassData'), ('bqskit/ir/circuit.py', 'Circuit')):
        tree = ast.parse((vf.REPO / rel).read_text())
        c = [n for n in tree.body if isinstance(n, ast.ClassDef) and n.name == cls][0]
        meth = {m.name: m for m in c.body if isinstance(m, ast.FunctionDef)}

        def assigned(fn):
            out = set()
            for n in ast.walk(fn):
                if isinstance(n, (ast.Assign, ast.AnnAssign)):
                    tg = n.targets if isinstance(n, ast.Assign) else [n.target]
                    for t in tg:
                        if isinstance(t, ast.Attribute) and isinstance(t.value, ast.Name) and t.value.id == 'self':
                            out.add(t.attr)
            return out
        init = assigned(meth['__init__'])
        bec = assigned(meth['become'])
        missing = sorted(init - bec)
        ctx.case(('fields', cls, tuple(sorted(init))))
        if missing:
            ctx.violation(dict(call=f'{cls}.become', missing=','.join(missing)), dict(cls=cls, init_fields=sorted(init)), 'every field of __init__ assigned in become', missing,
                          f'{cls}.become does not assign {missing}')


def replay(ctx: vf.Ctx, data):
    case = data.get('case')
    if isinstance(case, dict) and case.get('kind') == 'family':
        import c16_families
        objs = []
        if str(case.get('family', '')).startswith('auto:'):
            quiet = vf.Ctx(ctx.prop, ctx.tier, ctx.seed)
            objs = catalogue(quiet)
        c16_families.replay(ctx, data, objs)
        return
    replay_case(ctx, data, WANT, classify)
