"""C10 - every circuit-rewriting pass preserves its target within stated tolerance.

Four layers (see design_notes/C10.md):
  A. translator tie     gen_rules.py -> coq/gen/RulePasses.v, theorems of props/C10.v re-proved on every run;
                        the exact gate library of coq/lib/Cyclo.v is compared with the live gates' matrices.
  B. correspondence     extracted Coq models (coq/extract/passes.v) against the real passes:
                        rule rewriting on random circuits (per-qudit timelines + exact matrix),
                        the scan / tree-scan / exhaustive / substitute / rebase decision skeletons by ORACLE
                        INJECTION (Circuit.instantiate and the cost are replaced by a scripted oracle, the real
                        pass runs, the model gets the same script), and the small list models of utility passes.
  C. property oracle    WITH REAL NUMERICS for every pass class of the catalogue: run the pass in-process on
                        random circuits of its domain and check unitary distance + advertised postcondition
                        with independent numpy computations.
  D. directed search    when an obligation is broken, the oracle of the affected family is run deeper.
"""
from __future__ import annotations

import asyncio
import cmath
import inspect
import itertools
import json
import math
import os
import random
import re
import signal
import time
import traceback

import vf

BUILD = dict(extracted=['passes'], translators={'gen_rules'})

PI = math.pi
SPECIAL = [0.0, PI / 2, PI, -PI / 2, PI / 4, -PI, 2 * PI]

# ======================================================================================================
# worker side: everything below `_setup` runs inside pool processes (and in the main process for replay)
# ======================================================================================================
_S = {}


class FakeRuntime:
    """In-process stand-in for bqskit.runtime.get_runtime(): map/submit run sequentially."""

    def map(self, fn, *args, task_name=None, log_context={}, **kwargs):
        import inspect

        async def go():
            out = []
            for a in zip(*args):
                r = fn(*a, **kwargs)
                if inspect.isawaitable(r):
                    r = await r
                out.append(r)
            return out
        return go()

    def submit(self, fn, *args, task_name=None, log_context={}, **kwargs):
        import inspect

        async def go():
            r = fn(*args, **kwargs)
            if inspect.isawaitable(r):
                r = await r
            return r
        return go()


def _setup():
    if _S:
        return _S
    import warnings
    import logging
    warnings.simplefilter('ignore')
    logging.disable(logging.CRITICAL)
    import numpy as np
    from bqskit.ir.circuit import Circuit
    import bqskit.ir.gates as G
    import bqskit.passes as P
    import bqskit.runtime.worker as W
    from bqskit.compiler.passdata import PassData
    from bqskit.compiler.gateset import GateSet
    from bqskit.compiler.machine import MachineModel
    from bqskit.compiler.workflow import Workflow
    from bqskit.qis.unitary.unitarymatrix import UnitaryMatrix
    from bqskit.ir.operation import Operation
    from bqskit.passes.processing.extract_diagonal import ExtractDiagonalPass
    from bqskit.passes.rules.cz2cnot import CZToCNOTPass
    # everything a runner imports lazily is imported HERE (in the parent, before forking): an alarm that interrupts a first
    # import inside a worker would leave a half-initialised module behind and poison every later case of that worker
    from bqskit.ir.opt.cost.generator import CostFunctionGenerator  # noqa: F401
    from bqskit.qis.permutation import PermutationMatrix  # noqa: F401
    import bqskit.ir.opt.cost.functions  # noqa: F401
    import multiprocessing.connection  # noqa: F401
    W._worker = FakeRuntime()
    REG = {
        'X': G.XGate, 'Y': G.YGate, 'Z': G.ZGate, 'H': G.HGate, 'S': G.SGate, 'Sdg': G.SdgGate, 'T': G.TGate,
        'Tdg': G.TdgGate, 'SX': G.SqrtXGate, 'RX': G.RXGate, 'RY': G.RYGate, 'RZ': G.RZGate, 'U1': G.U1Gate,
        'U2': G.U2Gate, 'U3': G.U3Gate, 'CX': G.CNOTGate, 'CY': G.CYGate, 'CZ': G.CZGate, 'CH': G.CHGate,
        'CS': G.CSGate, 'CT': G.CTGate, 'SWAP': G.SwapGate, 'ISWAP': G.ISwapGate, 'SQISW': G.SqrtISwapGate,
        'RZZ': G.RZZGate, 'RXX': G.RXXGate, 'CRZ': G.CRZGate, 'CP': G.CPGate, 'CCX': G.ToffoliGate,
    }
    NAME = {}
    for k, v in REG.items():
        NAME[type(v())] = k
    _S.update(np=np, Circuit=Circuit, G=G, P=P, PassData=PassData, GateSet=GateSet, MachineModel=MachineModel,
              Workflow=Workflow, UnitaryMatrix=UnitaryMatrix, Operation=Operation, REG=REG, NAME=NAME,
              ExtractDiagonalPass=ExtractDiagonalPass, CZToCNOTPass=CZToCNOTPass)
    return _S


NPAR = {'RX': 1, 'RY': 1, 'RZ': 1, 'U1': 1, 'U2': 2, 'U3': 3, 'RZZ': 1, 'RXX': 1, 'CRZ': 1, 'CP': 1}
G1C = ['X', 'Y', 'Z', 'H', 'S', 'Sdg', 'T', 'Tdg', 'SX']
G1P = ['RX', 'RY', 'RZ', 'U1', 'U2', 'U3']
G2C = ['CX', 'CY', 'CZ', 'CH', 'SWAP', 'ISWAP', 'SQISW', 'CS', 'CT']
G2P = ['RZZ', 'RXX', 'CRZ', 'CP']
WIDTH = {**{g: 1 for g in G1C + G1P}, **{g: 2 for g in G2C + G2P}, 'CCX': 3}


# ---- circuit descriptions (JSON-able) -----------------------------------------------------------------
def rand_param(rng: random.Random, grid=False):
    if grid:
        return rng.randint(-12, 12) * PI / 12
    r = rng.random()
    if r < 0.35:
        return rng.choice(SPECIAL)
    return rng.uniform(-PI, PI)


def rand_op(rng, n, names, grid=False):
    g = rng.choice(names)
    w = WIDTH[g]
    loc = rng.sample(range(n), w)
    return [g, loc, [rand_param(rng, grid) for _ in range(NPAR.get(g, 0))]]


def rand_mpr(rng, n, k=None, target=None):
    """a multiplexed rotation on a random (permuted, possibly non-adjacent) location, any target position"""
    k = k or rng.randint(2, min(n, 4))
    loc = rng.sample(range(n), k)
    t = rng.randrange(k) if target is None else target
    return [rng.choice(['MPRY', 'MPRZ']), loc, dict(target=t, angles=[rand_param(rng) for _ in range(2 ** (k - 1))])]


def rand_circ(rng, n, m, names=None, grid=False):
    names = names or (G1C + G1P + (G2C + G2P if n >= 2 else []))
    names = [g for g in names if WIDTH[g] <= n]
    return dict(n=n, ops=[rand_op(rng, n, names, grid) for _ in range(m)])


def build(desc):
    """desc -> Circuit.  ops: [name, loc, params]; 'BLOCK' params = sub-desc; 'VU'/'CU' params = {seed[,tensor]}."""
    S = _setup()
    np = S['np']
    rad = desc.get('radixes') or [2] * desc['n']
    c = S['Circuit'](desc['n'], rad)
    for name, loc, params in desc['ops']:
        if name == 'BLOCK':
            sub = build(params)
            c.append_gate(S['G'].CircuitGate(sub), loc, sub.params)
        elif name in ('MPRY', 'MPRZ'):
            g = (S['G'].MPRYGate if name == 'MPRY' else S['G'].MPRZGate)(len(loc), params['target'])
            c.append_gate(g, loc, params['angles'])
        elif name in ('VU', 'CU'):
            k = len(loc)
            r = [rad[q] for q in loc]
            u = rand_unitary(params, r)
            if name == 'VU':
                c.append_gate(S['G'].VariableUnitaryGate(k, r), loc, list(S['G'].VariableUnitaryGate.get_params(u)))
            else:
                c.append_gate(S['G'].ConstantUnitaryGate(u, r), loc)
        else:
            c.append_gate(S['REG'][name](), loc, params)
    return c


def rand_unitary(spec, radixes):
    """spec: {seed, kind}: kind 'haar' (default), 'tensor' (product of 1-qudit unitaries), 'id', 'diag'."""
    S = _setup()
    np = S['np']
    UM = S['UnitaryMatrix']
    kind = spec.get('kind', 'haar')
    seed = spec['seed']
    dim = int(np.prod(radixes))
    if kind == 'id':
        return UM(np.eye(dim), radixes)
    if kind == 'diag':
        r = np.random.default_rng(seed)
        return UM(np.diag(np.exp(1j * r.uniform(-PI, PI, dim))), radixes)
    def haar(d, sd):
        g = np.random.default_rng(sd)
        z = (g.normal(size=(d, d)) + 1j * g.normal(size=(d, d))) / math.sqrt(2)
        q, rr = np.linalg.qr(z)
        return q * (np.diag(rr) / np.abs(np.diag(rr)))
    if kind == 'tensor':
        m = np.eye(1)
        for i, rd in enumerate(radixes):
            m = np.kron(m, haar(rd, seed * 31 + i))
        return UM(m, radixes)
    if kind == 'idx':      # identity on the first qudit (x) haar on the rest
        m = np.kron(np.eye(radixes[0]), haar(dim // radixes[0], seed))
        return UM(m, radixes)
    return UM(haar(dim, seed), radixes)


def opkey(op):
    """canonical, comparison-safe key of a real operation (params rounded to 9 digits)."""
    S = _setup()
    g = op.gate
    name = S['NAME'].get(type(g)) or type(g).__name__
    if isinstance(g, (S['G'].MPRYGate, S['G'].MPRZGate)):
        name = '%s_%d_t%d' % (type(g).__name__, g.num_qudits, g.target_qubit)
    if isinstance(g, S['G'].CircuitGate):
        name = 'BLOCK'
    return (name, tuple(op.location), tuple(round(float(p), 9) for p in op.params) if name != 'BLOCK' else ())


def timelines(c):
    """per-qudit sequence of operation keys (the program order every qudit sees)."""
    tl = [[] for _ in range(c.num_qudits)]
    for op in c:
        k = opkey(op)
        for q in op.location:
            tl[q].append(k)
    return tl


def flat_timelines(c):
    """timelines after recursively unfolding CircuitGates (independent reference for unfold_all)."""
    S = _setup()
    tl = [[] for _ in range(c.num_qudits)]

    def rec(circ, outer):
        for op in circ:
            loc = [outer[q] for q in op.location]
            if isinstance(op.gate, S['G'].CircuitGate):
                sub = op.gate._circuit.copy()
                sub.set_params(op.params)
                rec(sub, loc)
            else:
                k = (opkey(op)[0], tuple(loc), opkey(op)[2])
                for q in loc:
                    tl[q].append(k)
    rec(c, list(range(c.num_qudits)))
    return tl


def U(c):
    return _setup()['np'].array(c.get_unitary())


def hs(u0, u1):
    np = _setup()['np']
    return float(1 - abs(np.trace(u0.conj().T @ u1)) / u0.shape[0])


def dmax(u0, u1):
    np = _setup()['np']
    if u0.shape != u1.shape:
        return float('inf')
    return float(np.abs(u0 - u1).max())


def dphase(u0, u1):
    """max-abs distance after removing the best global phase."""
    np = _setup()['np']
    if u0.shape != u1.shape:
        return float('inf')
    t = np.trace(u0.conj().T @ u1)
    if abs(t) < 1e-6:
        i = np.unravel_index(np.abs(u0).argmax(), u0.shape)
        t = u1[i] / u0[i]
    ph = t / abs(t)
    return float(np.abs(u1 - ph * u0).max())


def counts(c):
    d = {}
    for op in c:
        k = opkey(op)[0]
        d[k] = d.get(k, 0) + 1
    return d


def run_pass(p, c, data=None):
    import asyncio
    S = _setup()
    data = data or S['PassData'](c)
    asyncio.run(p.run(c, data))
    return data


class Timeout(Exception):
    pass


def _alarm(signum, frame):
    raise Timeout()


class Rep:
    """result of one case: list of issues + counters"""

    def __init__(self, case):
        self.case = case
        self.issues = []
        self.info = {}
        self.nontrivial = True

    def bad(self, sig, expected, observed, what):
        self.issues.append(dict(sig=sig, expected=expected, observed=observed, what=what))

    def out(self):
        return dict(case=self.case, issues=self.issues, info=self.info, nontrivial=self.nontrivial)


EXACT, PHASE = 1e-9, 1e-7


def chk_exact(r, name, u0, u1, **sig):
    d = dmax(u0, u1)
    if not d <= EXACT:
        r.bad(dict({'pass': name, 'symptom': 'unitary_changed'}, **sig), 'max|U_out - U_in| <= 1e-9', d,
              f'{name}: output unitary differs from the input (exact pass, no global phase allowed)')


def chk_phase(r, name, u0, u1, **sig):
    d = dphase(u0, u1)
    if not d <= PHASE:
        r.bad(dict({'pass': name, 'symptom': 'unitary_changed'}, **sig), 'U_out = e^{ia} U_in within 1e-7', d,
              f'{name}: output unitary differs from the input beyond a global phase')


def chk_thr(r, name, u0, u1, thr, **sig):
    d = hs(u0, u1)
    if not d <= thr * (1 + 1e-6) + 1e-11:
        r.bad(dict({'pass': name, 'symptom': 'beyond_threshold'}, **sig), f'1-|tr(U_in^dag U_out)|/N < {thr}', d,
              f'{name}: output is farther from the target than the success threshold')


def is_subsequence(small, big):
    it = iter(big)
    return all(any(x == y for y in it) for x in small)


def chk_removal(r, name, c0, c1, **sig):
    """removal passes: per-qudit timelines of the output are subsequences of the input's (gate+location,
    parameters may be re-instantiated); the gate count never increases."""
    if c1.num_operations > c0.num_operations:
        r.bad(dict({'pass': name, 'symptom': 'gate_count_increased'}, **sig), f'<= {c0.num_operations}',
              c1.num_operations, f'{name}: gate count increased')
    t0 = [[k[:2] for k in tl] for tl in timelines(c0)]
    t1 = [[k[:2] for k in tl] for tl in timelines(c1)]
    for q, (a, b) in enumerate(zip(t0, t1)):
        if not is_subsequence(b, a):
            r.bad(dict({'pass': name, 'symptom': 'not_a_subcircuit'}, **sig), f'subsequence of {a}', b,
                  f'{name}: qudit {q} sees operations that were not in the input (only removals are advertised)')
            break


def err_name(e):
    n = type(e).__name__
    return n


# ---- family (i): rule passes ---------------------------------------------------------------------------
RULES = {   # pass class name -> (source gate, advertised introduced gates)
    'CHToCNOTPass': ('CH', {'CX', 'RY'}), 'CNOTToCHPass': ('CX', {'CH', 'RY'}),
    'CNOTToCYPass': ('CX', {'CY', 'S', 'Sdg'}), 'CNOTToCZPass': ('CX', {'CZ', 'H'}),
    'CYToCNOTPass': ('CY', {'CX', 'S', 'Sdg'}), 'CZToCNOTPass': ('CZ', {'CX', 'H'}),
    'SwapToCNOTPass': ('SWAP', {'CX'}),
}
MODEL_GATES = ['X', 'Y', 'Z', 'H', 'S', 'Sdg', 'T', 'Tdg', 'SX', 'RX', 'RY', 'RZ', 'U1', 'U3',
               'CX', 'CY', 'CZ', 'CH', 'CS', 'CT', 'SWAP', 'ISWAP', 'SQISW']


def gen_rule_case(rng, name, thorough):
    src = RULES[name][0]
    n = rng.randint(2, 5)
    m = rng.randint(1, 10 if n < 5 else 7)
    grid = rng.random() < 0.7
    names = MODEL_GATES if grid else None
    d = rand_circ(rng, n, m, names, grid)
    k = rng.choice([0, 1, 1, 2, 3])
    for _ in range(k):
        d['ops'].insert(rng.randint(0, len(d['ops'])), [src, rng.sample(range(n), 2), []])
    return dict(p=name, circ=d, grid=grid)


def get_rule_pass(name):
    S = _setup()
    return S['CZToCNOTPass']() if name == 'CZToCNOTPass' else getattr(S['P'], name)()


def units(p):
    m = round(p / (PI / 12))
    return m if abs(p - m * PI / 12) < 1e-8 else None


def model_ops(ops):
    """[(name, loc, params)] -> model syntax, or None when a parameter is off the pi/12 grid."""
    out = []
    for name, loc, params in ops:
        us = [units(p) for p in params]
        if name not in MODEL_GATES or any(u is None for u in us):
            return None
        out.append('[%s %s[%s]]' % (name, ''.join('%d ' % u for u in us), ' '.join(map(str, loc))))
    return '[' + ' '.join(out) + ']'


def run_rule(case):
    S = _setup()
    r = Rep(case)
    name = case['p']
    src, adv = RULES[name]
    c0 = build(case['circ'])
    c1 = c0.copy()
    run_pass(get_rule_pass(name), c1)
    u0, u1 = U(c0), U(c1)
    chk_exact(r, name, u0, u1)
    k0, k1 = counts(c0), counts(c1)
    nsrc = k0.get(src, 0)
    r.nontrivial = nsrc > 0
    r.info['src_occurrences'] = nsrc
    if k1.get(src, 0) != 0:
        r.bad({'pass': name, 'symptom': 'source_gate_left'}, 0, k1.get(src), f'{name}: source gate {src} still present')
    intro = {g for g in k1 if k1[g] > k0.get(g, 0)}
    if not intro <= adv:
        r.bad({'pass': name, 'symptom': 'unadvertised_gate'}, sorted(adv), sorted(intro), f'{name}: introduces gates outside the advertised set')
    if c1.num_operations != c0.num_operations + 2 * nsrc:
        r.bad({'pass': name, 'symptom': 'gate_count'}, c0.num_operations + 2 * nsrc, c1.num_operations, f'{name}: unexpected gate count')
    # material for the model correspondence (done in the main process)
    if case.get('grid'):
        r.info['model_in'] = model_ops(case['circ']['ops'])
        r.info['impl_tl'] = [[[k[0], list(k[1]), [units(p) for p in k[2]]] for k in tl] for tl in timelines(c1)]
        if case['circ']['n'] <= 3:
            r.info['impl_u'] = [[[float(z.real), float(z.imag)] for z in row] for row in u1]
    return r.out()


def run_u3dec(case):
    S = _setup()
    r = Rep(case)
    c0 = build(case['circ'])
    c1 = c0.copy()
    name = 'U3Decomposition'
    try:
        run_pass(S['P'].U3Decomposition(), c1)
    except ValueError:
        ok = c0.num_qudits != 1 or c0.radixes[0] != 2
        r.nontrivial = False
        if not ok:
            r.bad({'pass': name, 'symptom': 'raises'}, 'no error', 'ValueError', f'{name} rejects a single-qubit circuit')
        return r.out()
    if c0.num_qudits != 1:
        r.bad({'pass': name, 'symptom': 'accepts_wide'}, 'ValueError', 'no error', f'{name} accepted a multi-qudit circuit')
        return r.out()
    chk_phase(r, name, U(c0), U(c1))
    if list(counts(c1).items()) != [('U3', 1)]:
        r.bad({'pass': name, 'symptom': 'post'}, {'U3': 1}, counts(c1), f'{name}: result is not a single U3 gate')
    return r.out()


ZX_GSETS = {'default': None, 'rx_only': ['RX', 'RZ', 'CX'], 'u1_only': ['SX', 'U1', 'CX'], 'rx_u1': ['RX', 'U1', 'CX'],
            'all': ['RX', 'SX', 'RZ', 'U1', 'CX']}


def run_zxzxz(case):
    S = _setup()
    r = Rep(case)
    name = 'ZXZXZDecomposition'
    c0 = build(case['circ'])
    c1 = c0.copy()
    o = case['opts']
    data = S['PassData'](c1)
    gs = ZX_GSETS[o['gset']]
    if gs is not None:
        data.gate_set = S['GateSet']([S['REG'][g]() for g in gs])
    gs_names = set(gs) if gs is not None else {S['NAME'].get(type(g), '?') for g in data.gate_set}
    try:
        run_pass(S['P'].ZXZXZDecomposition(o['rx'], o['u1']), c1, data)
    except ValueError:
        r.nontrivial = False
        if c0.num_qudits == 1 and c0.radixes[0] == 2:
            r.bad({'pass': name, 'symptom': 'raises'}, 'no error', 'ValueError', f'{name} rejects a single-qubit circuit')
        return r.out()
    if c0.num_qudits != 1:
        r.bad({'pass': name, 'symptom': 'accepts_wide'}, 'ValueError', 'no error', f'{name} accepted a multi-qudit circuit')
        return r.out()
    chk_phase(r, name, U(c0), U(c1), opts=str(sorted(o.items())))
    use_rx = o['rx'] or ('RX' in gs_names and 'SX' not in gs_names)
    use_u1 = o['u1'] or ('U1' in gs_names and 'RZ' not in gs_names)
    z, x = ('U1' if use_u1 else 'RZ'), ('RX' if use_rx else 'SX')
    got = [opkey(op)[0] for op in c1]
    if got != [z, x, z, x, z]:
        r.bad({'pass': name, 'symptom': 'post'}, [z, x, z, x, z], got, f'{name}: not the advertised Z-X-Z-X-Z sequence for options {o}')
    if use_rx and any(abs(float(op.params[0]) - PI / 2) > 1e-12 for op in c1 if opkey(op)[0] == 'RX'):
        r.bad({'pass': name, 'symptom': 'post'}, 'RX(pi/2)', 'other angle', f'{name}: RX angle is not pi/2')
    r.info['shape'] = 'ZXZXZDecomposition_rx%d_u1%d' % (int(use_rx), int(use_u1))
    r.info['kinds'] = got
    return r.out()


# ---- retarget ----------------------------------------------------------------------------------------
def run_gsq(case):
    S = _setup()
    G = S['G']
    r = Rep(case)
    name = 'GeneralSQDecomposition'
    radix = case['radix']
    c0 = build(case['circ'])
    c1 = c0.copy()
    data = S['PassData'](c1)
    if radix == 2:
        gen = {'U3': G.U3Gate(), 'VU': G.VariableUnitaryGate(1)}[case['general']]
        data.gate_set = S['GateSet']([gen, G.CNOTGate()])
    else:
        gen = G.VariableUnitaryGate(1, [radix])
        data.gate_set = S['GateSet']([gen, G.CSUMGate() if radix == 3 else G.CNOTGate()])
    sig = {'pass': name, 'radix': radix}
    try:
        run_pass(S['P'].GeneralSQDecomposition(), c1, data)
    except Exception as e:
        r.bad(dict(sig, symptom='raises'), 'a one-gate circuit of the same radix', f'{type(e).__name__}: {e}',
              f'{name} fails on a single radix-{radix} qudit circuit although the gate set has a general radix-{radix} gate')
        return r.out()
    if tuple(c1.radixes) != tuple(c0.radixes):
        r.bad(dict(sig, symptom='radix_changed'), list(c0.radixes), list(c1.radixes), f'{name}: result has other radixes')
        return r.out()
    chk_phase(r, name, U(c0), U(c1), radix=radix)
    if c1.num_operations != 1 or c1[0, 0].gate != gen:
        r.bad(dict(sig, symptom='post'), str(gen), [str(op.gate) for op in c1], f'{name}: result is not one general gate of the gate set')
    return r.out()


def no_timeout_rebase(src, new):
    return True


REBASE_SRC = ['CZ', 'CX', 'CY', 'CH', 'ISWAP', 'SQISW', 'CS', 'RZZ', 'CP', 'SWAP']
REBASE_NEW = ['CX', 'CZ', 'SQISW', 'ISWAP']


def gen_rebase_case(rng, auto, thorough):
    n = rng.randint(2, 3)
    srcs = rng.sample(REBASE_SRC, rng.choice([1, 1, 2]))
    new = rng.choice(REBASE_NEW[:2] if rng.random() < 0.7 else REBASE_NEW)
    srcs = [s for s in srcs if s != new] or ['CH']
    ops = []
    for _ in range(rng.randint(1, 3 if n == 2 else 4)):
        ops.append(rand_op(rng, n, srcs + ([new] if rng.random() < 0.3 else [])))
        for _ in range(rng.randint(0, 2)):
            ops.append(rand_op(rng, n, ['U3', 'H', 'RZ', 'T']))
    kind = rng.random()
    if kind < 0.08:     # identity target: X.X style cancellation -> the pass clears the circuit
        a, b = rng.sample(range(n), 2)
        ops = [['CX' if 'CX' in srcs else srcs[0], [a, b], [0.0] * NPAR.get(srcs[0], 0)]] * 2 if srcs[0] in ('CZ', 'CX', 'CY', 'CH', 'SWAP') else ops
    opts = dict(max_depth=rng.choice([3, 3, 3, 4]), max_retries=rng.choice([-1, -1, 1]),
                thr=rng.choice([1e-8, 1e-8, 1e-6, 1e-10]))
    return dict(p='AutoRebase2QuditGatePass' if auto else 'Rebase2QuditGatePass', circ=dict(n=n, ops=ops),
                srcs=srcs, new=new, opts=opts, seed=rng.randint(0, 10**6))


def run_rebase(case):
    S = _setup()
    r = Rep(case)
    name = case['p']
    o = case['opts']
    c0 = build(case['circ'])
    c1 = c0.copy()
    data = S['PassData'](c1)
    data.seed = case['seed']
    new = S['REG'][case['new']]()
    srcs = [S['REG'][s]() for s in case['srcs']]
    kw = dict(max_depth=o['max_depth'], max_retries=o['max_retries'], success_threshold=o['thr'])
    if name == 'Rebase2QuditGatePass':
        p = S['P'].Rebase2QuditGatePass(srcs, new, **kw)
        src_names = set(case['srcs'])
    else:
        data.gate_set = S['GateSet']([new, S['G'].U3Gate()])
        p = S['P'].AutoRebase2QuditGatePass(**kw)
        src_names = {k for k in counts(c0) if WIDTH.get(k) == 2 and k != case['new']}
    run_pass(p, c1, data)
    u0, u1 = U(c0), U(c1)
    k0, k1 = counts(c0), counts(c1)
    r.nontrivial = any(k0.get(s, 0) for s in src_names)
    identity = S['UnitaryMatrix'](u0).get_distance_from(S['UnitaryMatrix'].identity(u0.shape[0])) < o['thr']
    r.info['identity_target'] = bool(identity)
    if identity:
        if c1.num_operations != 0:
            r.bad({'pass': name, 'symptom': 'identity_not_cleared'}, 0, c1.num_operations, f'{name}: identity target but circuit not cleared')
        # clearing is within the documented tolerance (get_distance_from < thr)
        return r.out()
    chk_thr(r, name, u0, u1, o['thr'])
    left = {s: k1.get(s, 0) for s in src_names if k1.get(s, 0)}
    if left:
        r.bad({'pass': name, 'symptom': 'source_gate_left'}, {}, left, f'{name}: source gates remain after the pass returned')
    intro = {g for g in k1 if k1[g] > k0.get(g, 0)}
    if not intro <= {case['new'], 'U3'}:
        r.bad({'pass': name, 'symptom': 'unadvertised_gate'}, [case['new'], 'U3'], sorted(intro), f'{name}: introduces gates outside new_gate + single-qudit gate')
    return r.out()


# ---- removal passes ------------------------------------------------------------------------------------
def gen_removal_circ(rng, nmax=4, mmax=9):
    """U3/CX circuits with deliberately redundant gates so that removals succeed."""
    n = rng.randint(1, nmax)
    ops = []
    for _ in range(rng.randint(1, mmax)):
        t = rng.random()
        if n >= 2 and t < 0.35:
            a, b = rng.sample(range(n), 2)
            ops.append(['CX', [a, b], []])
            if rng.random() < 0.3:
                ops.append(['CX', [a, b], []])           # cancels
        elif t < 0.55:
            ops.append(['U3', [rng.randrange(n)], [0.0, 0.0, 0.0]])          # identity
        else:
            ops.append(['U3', [rng.randrange(n)], [rand_param(rng) for _ in range(3)]])
    return dict(n=n, ops=ops[:mmax + 2])


def run_removal(case):
    S = _setup()
    P = S['P']
    r = Rep(case)
    name = case['p']
    o = case['opts']
    c0 = build(case['circ'])
    c1 = c0.copy()
    data = S['PassData'](c1)
    data.seed = case['seed']
    thr = o.get('thr', 1e-8)
    filt = None
    if o.get('filter') == 'sq':
        def filt(op):
            return op.num_qudits == 1
    sig = {}
    if name == 'ScanningGateRemovalPass':
        p = P.ScanningGateRemovalPass(o['left'], thr, collection_filter=filt)
        sig = dict(start_from_left=o['left'])
    elif name == 'TreeScanningGateRemovalPass':
        p = P.TreeScanningGateRemovalPass(o['left'], thr, tree_depth=o['depth'])
        sig = dict(start_from_left=o['left'])
    elif name == 'ExhaustiveGateRemovalPass':
        p = P.ExhaustiveGateRemovalPass(thr)
    elif name == 'IterativeScanningGateRemovalPass':
        p = S['Workflow']([P.IterativeScanningGateRemovalPass(o['wtp'], o['bs'], o['left'], thr)])
        sig = dict(start_from_left=o['left'])
    try:
        run_pass(p, c1, data)
    except IndexError as e:
        r.bad(dict({'pass': name, 'symptom': 'IndexError'}, **sig), 'the pass completes', f'IndexError: {e}',
              f'{name} raises IndexError: a stale cycle index is used after an earlier removal shrank the circuit')
        return r.out()
    u0, u1 = U(c0), U(c1)
    chk_thr(r, name, u0, u1, thr, **sig)
    chk_removal(r, name, c0, c1, **sig)
    r.info['removed'] = c0.num_operations - c1.num_operations
    r.nontrivial = c0.num_operations > 0
    if filt is not None:
        # operations the filter rejects must all survive
        keep0 = [opkey(op)[:2] for op in c0 if op.num_qudits != 1]
        keep1 = [opkey(op)[:2] for op in c1 if op.num_qudits != 1]
        if sorted(keep0) != sorted(keep1):
            r.bad({'pass': name, 'symptom': 'filter_ignored'}, sorted(keep0), sorted(keep1), f'{name}: removed an operation its collection_filter rejects')
    return r.out()


def gen_subst_case(rng, thorough):
    n = rng.randint(2, 3)
    ops = []
    for i in range(rng.randint(1, 3)):
        k = rng.randint(2, n)
        loc = rng.sample(range(n), k)
        kind = rng.choice(['idx', 'idx', 'haar', 'tensor', 'id'])
        ops.append(['VU', loc, dict(seed=rng.randint(0, 10**6), kind=kind)])
        if rng.random() < 0.5:
            ops.append(['H', [rng.randrange(n)], []])    # the only constant gate qfactor accepts here
    return dict(p='SubstitutePass', circ=dict(n=n, ops=ops), opts=dict(thr=rng.choice([1e-8, 1e-6]), k=rng.choice([1, 1, 2])),
                seed=rng.randint(0, 10**6))


def run_subst(case):
    S = _setup()
    G = S['G']
    r = Rep(case)
    name = 'SubstitutePass'
    o = case['opts']
    c0 = build(case['circ'])
    c1 = c0.copy()
    data = S['PassData'](c1)
    data.seed = case['seed']
    k = o['k']

    def filt(op):
        return isinstance(op.gate, G.VariableUnitaryGate) and op.num_qudits > k
    p = S['P'].SubstitutePass(filt, G.VariableUnitaryGate(k), o['thr'])
    run_pass(p, c1, data)
    u0, u1 = U(c0), U(c1)
    chk_thr(r, name, u0, u1, o['thr'])
    # postcondition: same number of operations; every operation keeps its place or shrinks onto a subset of its qudits
    if c1.num_operations != c0.num_operations:
        r.bad({'pass': name, 'symptom': 'gate_count'}, c0.num_operations, c1.num_operations, f'{name}: number of operations changed')
    w0 = sum(op.num_qudits for op in c0)
    w1 = sum(op.num_qudits for op in c1)
    r.info['substituted'] = w0 - w1
    if w1 > w0:
        r.bad({'pass': name, 'symptom': 'grew'}, f'<= {w0}', w1, f'{name}: total gate width increased')
    for q, (a, b) in enumerate(zip(timelines(c0), timelines(c1))):
        if len(b) > len(a):
            r.bad({'pass': name, 'symptom': 'new_ops_on_qudit'}, len(a), len(b), f'{name}: qudit {q} sees more operations than before')
    return r.out()


def run_extract_diag(case):
    """Domain of the pass as used by FullBlockZXZPass: the VariableUnitaryGates of the chosen size sit on ONE location and
    whatever lies between them commutes with a diagonal there.  Outside of it the pass silently merges the extracted diagonal
    into an operation on other qudits / another qudit order / across a non-commuting gate (finding C10.E1)."""
    S = _setup()
    r = Rep(case)
    name = 'ExtractDiagonalPass'
    c0 = build(case['circ'])
    c1 = c0.copy()
    vus = [op for op in c0 if opkey(op)[0] == 'VariableUnitaryGate']
    in_domain = len({tuple(op.location) for op in vus}) <= 1 and all(opkey(op)[0] == 'VariableUnitaryGate' for op in c0)
    try:
        run_pass(S['ExtractDiagonalPass'](qudit_size=case['opts']['k']), c1)
    except ValueError as e:
        if 'qfactor' in str(e):
            r.bad({'pass': name, 'symptom': 'qfactor_not_capable', 'via': 'ExtractDiagonalPass'}, 'the pass completes', str(e)[:160],
                  f'{name} builds an ansatz with CNOTGate and instantiates it with method=qfactor, which rejects CNOTGate')
            return r.out()
        raise
    k = max(1, len(vus) - 1)              # number of extractions, each within 1e-8 of its own target
    d = hs(U(c0), U(c1))
    if not d <= 1e-8 * k * k * 1.01 + 1e-11:
        r.bad({'pass': name, 'symptom': 'extract_diagonal_wrong_merge', 'in_domain': in_domain}, f'1-|tr|/N <= {k * k}e-8', d,
              f'{name}: the extracted diagonal was merged into an operation it does not commute to (different qudits, other qudit order or a gate in between)'
              if not in_domain else f'{name}: output is farther from the input than the accumulated success thresholds')
    r.info['in_domain'] = in_domain
    return r.out()


# ---- analytic decompositions ---------------------------------------------------------------------------
def gen_vu_circ(rng, nmin, nmax, multi=True):
    n = rng.randint(nmin, nmax)
    ops = []
    k = rng.randint(max(3, nmin), n) if n >= 3 else n
    for i in range(rng.choice([1, 1, 2]) if multi else 1):
        loc = rng.sample(range(n), rng.randint(min(3, n), n) if i else k)
        kind = rng.choice(['haar', 'haar', 'haar', 'diag', 'id', 'tensor'])
        ops.append(['VU', loc, dict(seed=rng.randint(0, 10**6), kind=kind)])
        if rng.random() < 0.4:
            ops.append(rand_op(rng, n, ['H', 'CX', 'U3', 'T']))
    return dict(n=n, ops=ops)


def run_analytic(case):
    S = _setup()
    P = S['P']
    G = S['G']
    r = Rep(case)
    name = case['p']
    o = case['opts']
    c0 = build(case['circ'])
    c1 = c0.copy()
    mq = o.get('mq', 2)
    if name == 'QSDPass':
        p = P.QSDPass(mq)
    elif name == 'BlockZXZPass':
        p = P.BlockZXZPass(mq)
    elif name == 'MGDPass':
        run_pass(P.QSDPass(mq), c1)      # produce MPRY/MPRZ gates first
        c0m = c1.copy()
        p = P.MGDPass(o.get('twice', True))
    elif name == 'FullQSDPass':
        p = P.FullQSDPass(mq, perform_scan=o.get('scan', False), start_from_left=o.get('left', True), tree_depth=o.get('depth', 0))
    elif name == 'FullBlockZXZPass':
        p = P.FullBlockZXZPass(mq, perform_scan=o.get('scan', False), perform_extract=o.get('extract', False))
    try:
        run_pass(p, c1)
    except BaseException as e:       # noqa  (pyo3 panics derive from BaseException)
        kind, msg = type(e).__name__, str(e)
        if isinstance(e, Timeout) or 'Timeout' in msg:
            raise Timeout()
        if kind == 'PanicException' and o.get('scan'):
            r.bad({'pass': name, 'symptom': 'qfactor_native_panic', 'via': 'ScanningGateRemovalPass(method=qfactor)'},
                  'the pass completes', f'{kind}: {msg}',
                  f'{name}(perform_scan=True) instantiates with method=qfactor a circuit holding a U3Gate: QFactor.is_capable accepts it '
                  '(U3Gate is a LocallyOptimizableUnitary) but the native QFactor panics `not implemented` (src/ir/gates/optimize.rs)')
        elif kind == 'IndexError' and o.get('scan') and o.get('depth', 0) > 0 and not o.get('left', True):
            r.bad({'pass': 'TreeScanningGateRemovalPass', 'start_from_left': False, 'symptom': 'IndexError', 'via': name}, 'the pass completes',
                  f'IndexError: {msg}', f'{name}(perform_scan, tree_depth>0, start_from_left=False): the inner tree scan raises IndexError (stale cycle index)')
        elif kind == 'ValueError' and 'qfactor' in msg:
            via = 'ExtractDiagonalPass' if o.get('extract') else 'ScanningGateRemovalPass(method=qfactor)'
            r.bad({'pass': name, 'symptom': 'qfactor_not_capable', 'via': via}, 'the pass completes', msg[:160],
                  f'{name} with these options instantiates a circuit containing CNOTGate with method=qfactor, which rejects it')
        elif kind == 'ValueError' and 'unitary condition' in msg:
            r.bad({'pass': name, 'symptom': 'demultiplex_not_unitary', 'via': 'BlockZXZPass.demultiplex'}, 'the pass completes', msg[:160],
                  f'{name}: scipy eig of a block with repeated eigenvalues returns non-orthogonal eigenvectors; UnitaryMatrix(V) rejects them')
        else:
            raise
        return r.out()
    u0, u1 = U(c0), U(c1)
    if o.get('extract'):
        d = hs(u0, u1)
        if not d <= 64e-8:        # up to ~8 extractions, each within 1e-8 of its own target
            single = c0.num_operations == 1
            r.bad({'pass': name, 'symptom': 'extract_diagonal_wrong_merge', 'in_domain': single}, '1-|tr|/N <= 64e-8', d,
                  f'{name}(perform_extract=True): ExtractDiagonalPass merged a diagonal across operations of the input circuit it does not commute with'
                  if not single else f'{name}(perform_extract=True): output differs from the input')
    elif o.get('scan'):
        chk_thr(r, name, u0, u1, 1e-8 * 8)        # one accepted removal per scan round, each < 1e-8 of ITS target
    else:
        chk_exact(r, name, u0, u1, opts=str(sorted(o.items())))
    w0 = max([op.num_qudits for op in c0 if isinstance(op.gate, G.VariableUnitaryGate)] + [0])
    bound = max(mq, w0 - 1) if name in ('QSDPass', 'BlockZXZPass') else mq      # one level per run / until min size
    wide = [op for op in c1 if isinstance(op.gate, G.VariableUnitaryGate) and op.num_qudits > bound]
    if name != 'MGDPass' and wide:
        r.bad({'pass': name, 'symptom': 'post'}, f'no VariableUnitaryGate wider than {bound}', [op.num_qudits for op in wide],
              f'{name}: a VariableUnitaryGate wider than advertised is left')
    mpr0 = [op.num_qudits for op in (c0m if name == 'MGDPass' else c0) if isinstance(op.gate, (G.MPRYGate, G.MPRZGate))]
    mpr1 = [op.num_qudits for op in c1 if isinstance(op.gate, (G.MPRYGate, G.MPRZGate))]
    if name == 'MGDPass':
        lvl = 2 if o.get('twice', True) else 1
        if mpr0 and mpr1 and max(mpr1) > max(1, max(mpr0) - lvl):
            r.bad({'pass': name, 'symptom': 'post'}, f'multiplexed gates of width <= {max(mpr0) - lvl}', mpr1, f'{name}: multiplexed gates were not decomposed')
    if name == 'FullBlockZXZPass' and mpr1 and False:
        r.bad({'pass': name, 'symptom': 'post'}, 'no multiplexed gate left', mpr1, f'{name}: multiplexed gates left')
    r.info['ops_out'] = c1.num_operations
    return r.out()


def run_mgd(case):
    """MGDPass driven directly on circuits holding multiplexed rotations with EVERY target position (first, middle,
    last), widths 2..4, permuted / non-adjacent locations, generic and special angles, between other gates"""
    S = _setup()
    G = S['G']
    r = Rep(case)
    name = 'MGDPass'
    c0 = build(case['circ'])
    c1 = c0.copy()
    twice = case['opts']['twice']
    u0 = U(c0)
    mp = (G.MPRYGate, G.MPRZGate)
    sig = dict(decompose_twice=twice)
    r.info['targets'] = str(sorted({(op.num_qudits, op.gate.target_qubit) for op in c0 if isinstance(op.gate, mp)}))
    for rnd in range(5):
        w0 = [op.num_qudits for op in c1 if isinstance(op.gate, mp)]
        if not w0:
            break
        run_pass(S['P'].MGDPass(twice), c1)
        d = dmax(u0, U(c1))
        if not d <= EXACT:
            r.bad(dict({'pass': name, 'symptom': 'unitary_changed'}, **sig), 'max|U_out - U_in| <= 1e-9', d,
                  f"{name}: decomposing a multiplexed rotation changed the unitary (round {rnd + 1}; (width, target) present: {r.info['targets']})")
            return r.out()
        w1 = [op.num_qudits for op in c1 if isinstance(op.gate, mp)]
        lvl = 2 if twice else 1
        if w1 and max(w1) > max(1, max(w0) - lvl) and max(w0) > 2:
            r.bad(dict({'pass': name, 'symptom': 'post'}, **sig), f'multiplexed gates of width <= {max(w0) - lvl}', w1, f'{name}: multiplexed gates were not decomposed')
            break
    left = [opkey(op)[0] for op in c1 if isinstance(op.gate, mp)]
    if left:
        r.bad(dict({'pass': name, 'symptom': 'post'}, **sig), 'no multiplexed rotation left after 5 rounds', left, f'{name}: multiplexed rotations remain')
    extra = set(counts(c1)) - set(counts(c0)) - {'CX', 'RY', 'RZ'}
    if extra:
        r.bad(dict({'pass': name, 'symptom': 'unadvertised_gate'}, **sig), ['CX', 'RY', 'RZ'], sorted(extra), f'{name}: introduces other gates')
    return r.out()


def run_walsh(case):
    S = _setup()
    r = Rep(case)
    name = 'WalshDiagonalSynthesisPass'
    np = S['np']
    n = case['n']
    rng = random.Random(case['seed'])
    if case.get('bad') == 'qutrit':
        tgt = S['UnitaryMatrix'].identity(3, [3])
    else:
        ph = [rng.choice([0.0, PI, PI / 2, -PI / 2, rng.uniform(-PI, PI)]) for _ in range(2 ** n)]
        tgt = S['UnitaryMatrix'](np.diag(np.exp(1j * np.array(ph))))
    c1 = S['Circuit'](tgt.num_qudits, tgt.radixes)
    data = S['PassData'](c1)
    data.target = tgt
    try:
        run_pass(S['P'].WalshDiagonalSynthesisPass(), c1, data)
    except (ValueError, TypeError) as e:
        r.nontrivial = False
        if not case.get('bad'):
            r.bad({'pass': name, 'symptom': 'raises'}, 'no error', repr(e)[:100], f'{name} rejects a diagonal qubit unitary')
        return r.out()
    if case.get('bad'):
        r.bad({'pass': name, 'symptom': 'accepts_bad'}, 'ValueError', 'no error', f'{name} accepted a qutrit target')
        return r.out()
    chk_phase(r, name, np.array(tgt), U(c1))
    if not set(counts(c1)) <= {'RZ', 'CX'}:
        r.bad({'pass': name, 'symptom': 'unadvertised_gate'}, ['RZ', 'CX'], sorted(counts(c1)), f'{name}: gates other than RZ/CNOT')
    return r.out()


def run_synth(case):
    S = _setup()
    P = S['P']
    G = S['G']
    r = Rep(case)
    name = case['p']
    np = S['np']
    n = case['n']
    src = build(case['circ'])
    tgt = src.get_unitary()
    c1 = S['Circuit'](n)
    data = S['PassData'](c1)
    data.target = tgt
    data.seed = case['seed']
    thr = case['opts'].get('thr', 1e-8)
    if name == 'QFASTDecompositionPass':
        gate = G.PauliGate(2) if case['opts'].get('gate', 'pauli') == 'pauli' else G.VariableUnitaryGate(2)
        p = P.QFASTDecompositionPass(gate, thr)
    elif name == 'QPredictDecompositionPass':
        p = P.QPredictDecompositionPass(success_threshold=thr)
    else:
        p = P.PermutationAwareSynthesisPass(case['opts']['inp'], case['opts']['outp'],
                                            inner_synthesis=P.QSearchSynthesisPass(success_threshold=thr))
    run_pass(p, c1, data)
    u0, u1 = np.array(tgt), U(c1)
    if name == 'PermutationAwareSynthesisPass':
        from bqskit.qis.permutation import PermutationMatrix
        pi = PermutationMatrix.from_qudit_location(n, 2, data.initial_mapping)
        po = PermutationMatrix.from_qudit_location(n, 2, data.final_mapping)
        u0 = np.array(po).T @ u0 @ np.array(pi)
        r.info['perm'] = [list(data.initial_mapping), list(data.final_mapping)]
    chk_thr(r, name, u0, u1, thr)
    r.info['ops_out'] = c1.num_operations
    return r.out()


# ---- structural / utility passes ---------------------------------------------------------------------------
def positional(rng, n):
    """an operation whose meaning depends on the ORDER of its location: multiplexed rotation with any target, Toffoli,
    controlled gates with either orientation"""
    if n >= 3 and rng.random() < 0.3:
        return ['CCX', rng.sample(range(n), 3), []]
    if n >= 2 and rng.random() < 0.6:
        return rand_mpr(rng, n)
    return rand_op(rng, n, [g for g in ['CH', 'CY', 'CRZ', 'CS', 'CX'] if n >= 2] or ['H'])


def gen_block_circ(rng, nmax=5, depth=2):
    """circuits with (nested) CircuitGate blocks"""
    n = rng.randint(1, nmax)

    def sub(k, d):
        ops = []
        for _ in range(rng.randint(1, 4)):
            if d > 0 and k >= 1 and rng.random() < 0.3:
                kk = rng.randint(1, k)
                ops.append(['BLOCK', rng.sample(range(k), kk), sub(kk, d - 1)])
            else:
                ops.append(rand_op(rng, k, [g for g in G1C + G1P + G2C + G2P if WIDTH[g] <= k]))
        return dict(n=k, ops=ops)
    ops = []
    for _ in range(rng.randint(1, 7)):
        if rng.random() < 0.5:
            kk = rng.randint(1, min(n, 3))
            ops.append(['BLOCK', rng.sample(range(n), kk), sub(kk, depth - 1)])
        elif n >= 2 and rng.random() < 0.25:
            ops.append(positional(rng, n))
        else:
            ops.append(rand_op(rng, n, [g for g in G1C + G1P + G2C + G2P if WIDTH[g] <= n]))
    return dict(n=n, ops=ops)


def same_ops(c0, c1):
    return [opkey(o) for o in c0] == [opkey(o) for o in c1] and c0.num_cycles == c1.num_cycles


def run_util(case):
    S = _setup()
    P = S['P']
    G = S['G']
    np = S['np']
    r = Rep(case)
    name = case['p']
    o = case.get('opts', {})
    c0 = build(case['circ'])
    for pt in case.get('pops', []):          # leave gaps for CompressPass
        try:
            c0.pop(tuple(pt))
        except Exception:
            pass
    if case.get('partition') == 'group':
        run_pass(P.GroupSingleQuditGatePass(), c0)
    elif case.get('partition'):
        run_pass(P.QuickPartitioner(case['partition']), c0)
    # blocked input whose block OPERATIONS carry parameters different from the ones stored in their templates:
    # the same CircuitGate object reused by a second operation with other parameters, then set_params on the outer circuit
    prng = random.Random(case.get('reparam') or 0)
    if case.get('dup'):
        for op in [o for o in c0 if isinstance(o.gate, G.CircuitGate)][:2]:
            loc = prng.sample(range(c0.num_qudits), op.num_qudits)
            c0.append(S['Operation'](op.gate, loc, [prng.uniform(-PI, PI) for _ in range(op.gate.num_params)]))
    if case.get('reparam') and c0.num_params and '"VU"' not in json.dumps(case['circ']):
        c0.set_params([prng.choice(SPECIAL) if prng.random() < 0.2 else prng.uniform(-PI, PI) for _ in range(c0.num_params)])
    r.info['blocks_off_template'] = sum(
        1 for o in c0 if isinstance(o.gate, G.CircuitGate) and o.gate.num_params
        and not np.allclose(np.array(o.params, dtype=float), np.array(o.gate._circuit.params, dtype=float)))
    c1 = c0.copy()
    data = S['PassData'](c1)
    u0 = U(c0)
    if name == 'CompressPass':
        run_pass(P.CompressPass(), c1, data)
        chk_exact(r, name, u0, U(c1))
        fwd = list(c0)
        r.info['model_line'] = 'compress [' + ' '.join('[%d [%s]]' % (i, ' '.join(map(str, op.location))) for i, op in enumerate(fwd)) + ']'
        r.info['keys'] = [list(map(str, opkey(op))) for op in fwd]
        tl = [[] for _ in range(c1.num_qudits)]
        for cyc, op in c1.operations_with_cycles():
            for q in op.location:
                tl[q].append([cyc, list(map(str, opkey(op)))])
        r.info['impl'] = tl
        if timelines(c0) != timelines(c1):
            r.bad({'pass': name, 'symptom': 'timeline_changed'}, 'same per-qudit timelines', 'different', f'{name}: per-qudit order changed')
        if c1.num_cycles > c0.num_cycles:
            r.bad({'pass': name, 'symptom': 'cycles_grew'}, c0.num_cycles, c1.num_cycles, f'{name}: more cycles than before')
        # compressed: every op sits in the earliest cycle allowed by its predecessors
        r.info['gain'] = c0.num_cycles - c1.num_cycles
    elif name == 'UnfoldPass':
        run_pass(P.UnfoldPass(), c1, data)
        chk_exact(r, name, u0, U(c1))
        keys = []

        def tree(circ):
            # a block's body = its template instantiated with the parameters the OPERATION carries
            out = []
            for op in circ:
                loc = ' '.join(map(str, op.location))
                if isinstance(op.gate, G.CircuitGate):
                    sub = op.gate._circuit.copy()
                    sub.set_params(op.params)
                    out.append('[B [%s] %s]' % (loc, tree(sub)))
                else:
                    k = opkey(op)
                    keys.append([k[0], list(k[2])])
                    out.append('[L %d [%s]]' % (len(keys) - 1, loc))
            return '[' + ' '.join(out) + ']'
        r.info['model_line'] = 'unfold ' + tree(c0)
        r.info['keys'] = keys
        r.info['impl'] = [[[k[0], list(k[1]), list(k[2])] for k in tl] for tl in timelines(c1)]
        if any(isinstance(op.gate, G.CircuitGate) for op in c1):
            r.bad({'pass': name, 'symptom': 'post'}, 'no CircuitGate', 'CircuitGate left', f'{name}: a block survived unfold_all')
        if flat_timelines(c0) != timelines(c1):
            r.bad({'pass': name, 'symptom': 'timeline_changed'}, 'flattened timelines', 'different', f'{name}: unfolded order differs from the recursive flattening')
        r.nontrivial = any(isinstance(op.gate, G.CircuitGate) for op in c0)
    elif name == 'GroupSingleQuditGatePass':
        run_pass(P.GroupSingleQuditGatePass(), c1, data)
        chk_exact(r, name, u0, U(c1))
        if not any(isinstance(op.gate, G.CircuitGate) for op in c0):
            lines, impl = [], []
            t0 = timelines(c0)
            for q in range(c0.num_qudits):
                lines.append('group [' + ' '.join('[%d %d]' % (i, int(len(k[1]) == 1)) for i, k in enumerate(t0[q])) + ']')
                items = []
                for cyc in range(c1.num_cycles):
                    if c1.is_point_idle((cyc, q)):
                        continue
                    op = c1[cyc, q]
                    if isinstance(op.gate, G.CircuitGate):
                        items.append(['G'] + [list(map(str, opkey(o)[:1] + opkey(o)[2:])) for o in op.gate._circuit])
                    else:
                        items.append(['M', list(map(str, opkey(op)))])
                impl.append(items)
            r.info['model_lines'] = lines
            r.info['t0'] = [[list(map(str, k)) for k in tl] for tl in t0]
            r.info['impl'] = impl
        if flat_timelines(c0) != flat_timelines(c1):
            r.bad({'pass': name, 'symptom': 'timeline_changed'}, 'same flattened timelines', 'different', f'{name}: order changed')
        for q in range(c1.num_qudits):
            prev_block = False
            for k in timelines(c1)[q]:
                single = len(k[1]) == 1
                if single and k[0] != 'BLOCK':
                    r.bad({'pass': name, 'symptom': 'post'}, 'all single-qudit gates grouped', k, f'{name}: ungrouped single-qudit gate')
                if single and prev_block:
                    r.bad({'pass': name, 'symptom': 'post'}, 'maximal groups', 'two adjacent groups', f'{name}: consecutive single-qudit gates split over two blocks')
                prev_block = single
        mq0 = [opkey(op) for op in c0 if op.num_qudits > 1]
        mq1 = [opkey(op) for op in c1 if op.num_qudits > 1]
        if sorted(mq0) != sorted(mq1):
            r.bad({'pass': name, 'symptom': 'post'}, 'multi-qudit gates untouched', 'changed', f'{name}: multi-qudit gates changed')
    elif name == 'ExtendBlockSizePass':
        ms = o.get('min')
        if o.get('line'):
            n = c1.num_qudits
            data.model = S['MachineModel'](n, [(i, i + 1) for i in range(n - 1)])
        try:
            run_pass(P.ExtendBlockSizePass(ms), c1, data)
        except RuntimeError as e:
            r.nontrivial = False
            if c0.num_qudits >= (ms or 2):
                r.bad({'pass': name, 'symptom': 'raises'}, 'no error', str(e), f'{name} raised although the circuit is wide enough')
            return r.out()
        chk_exact(r, name, u0, U(c1), minimum_size=ms)
        eff = ms or 2
        if c0.num_qudits > 1:
            small = [op.num_qudits for op in c1 if isinstance(op.gate, G.CircuitGate) and op.num_qudits < eff]
            if small:
                r.bad({'pass': name, 'symptom': 'post'}, f'all blocks >= {eff}', small, f'{name}: a block smaller than minimum_size is left')
        if flat_timelines(c0) != flat_timelines(c1):
            r.bad({'pass': name, 'symptom': 'timeline_changed'}, 'same flattened timelines', 'different', f'{name}: order changed')
        r.nontrivial = any(isinstance(op.gate, G.CircuitGate) and op.num_qudits < eff for op in c0)
    elif name == 'FillSingleQuditGatesPass':
        run_pass(P.FillSingleQuditGatesPass(), c1, data)
        chk_phase(r, name, u0, U(c1))
        mq0 = [[k for k in tl if len(k[1]) > 1] for tl in timelines(c0)]
        mq1 = [[k for k in tl if len(k[1]) > 1] for tl in timelines(c1)]
        if mq0 != mq1:
            r.bad({'pass': name, 'symptom': 'post'}, 'multi-qudit gates preserved in order', 'changed', f'{name}: multi-qudit gates changed')
        for q, tl in enumerate(timelines(c1)):
            for i, k in enumerate(tl):
                if len(k[1]) > 1:
                    before = i > 0 and len(tl[i - 1][1]) == 1
                    after = i + 1 < len(tl) and len(tl[i + 1][1]) == 1
                    if not (before and after):
                        r.bad({'pass': name, 'symptom': 'post'}, 'single-qudit gate on both sides of every multi-qudit gate', [q, i], f'{name}: missing single-qudit gate next to a multi-qudit gate')
                elif k[0] != 'U3':
                    r.bad({'pass': name, 'symptom': 'post'}, 'U3', k[0], f'{name}: single-qudit gate is not the general gate')
                elif i > 0 and len(tl[i - 1][1]) == 1:
                    r.bad({'pass': name, 'symptom': 'post'}, 'merged single-qudit gates', 'two adjacent', f'{name}: adjacent single-qudit gates not merged')
    elif name in ('ToU3Pass', 'ToVariablePass'):
        allq = o.get('all', False)
        p = P.ToU3Pass(allq) if name == 'ToU3Pass' else P.ToVariablePass(allq)
        run_pass(p, c1, data)
        (chk_phase if name == 'ToU3Pass' else chk_exact)(r, name, u0, U(c1), convert_all=allq)
        a, b = timelines(c0), timelines(c1)
        tgt = 'U3' if name == 'ToU3Pass' else 'VariableUnitaryGate'
        for q in range(c0.num_qudits):
            if [k[1] for k in a[q]] != [k[1] for k in b[q]]:
                r.bad({'pass': name, 'symptom': 'timeline_changed'}, 'same locations in order', 'different', f'{name}: operations moved')
                break
            for k0, k1 in zip(a[q], b[q]):
                general = k0[0] in ('U3', 'VariableUnitaryGate')
                conv = len(k0[1]) == 1 and (general or allq)
                want = tgt if conv else k0[0]
                if k1[0] != want:
                    r.bad({'pass': name, 'symptom': 'post', 'convert_all': allq}, want, k1[0], f'{name}: gate {k0[0]} became {k1[0]}')
        r.nontrivial = any(len(k[1]) == 1 for tl in a for k in tl)
    elif name == 'BlockConversionPass':
        p = P.BlockConversionPass(o['target'], o.get('var', True), o.get('const', True), o.get('cg', True))
        run_pass(p, c1, data)
        chk_exact(r, name, u0, U(c1), target=o['target'])
        k1 = counts(c1)
        if o['target'] == 'constant':
            if o.get('var', True) and k1.get('VariableUnitaryGate'):
                r.bad({'pass': name, 'symptom': 'post'}, 'no VariableUnitaryGate', k1, f'{name}: variable blocks left')
            if o.get('cg', True) and k1.get('BLOCK'):
                r.bad({'pass': name, 'symptom': 'post'}, 'no CircuitGate', k1, f'{name}: circuit gates left')
        else:
            if o.get('const', True) and (k1.get('ConstantUnitaryGate') or k1.get('BLOCK')):
                r.bad({'pass': name, 'symptom': 'post'}, 'no constant/circuit blocks', k1, f'{name}: constant or circuit blocks left')
        if [[k[1] for k in tl] for tl in timelines(c0)] != [[k[1] for k in tl] for tl in timelines(c1)]:
            r.bad({'pass': name, 'symptom': 'timeline_changed'}, 'same locations in order', 'different', f'{name}: operations moved')
    elif name == 'StructureAnalysisPass':
        run_pass(P.StructureAnalysisPass(), c1, data)
        chk_exact(r, name, u0, U(c1))
        nb = sum(1 for op in c0 if isinstance(op.gate, G.CircuitGate))
        if sum(data['structures'].values()) != nb:
            r.bad({'pass': name, 'symptom': 'post'}, nb, sum(data['structures'].values()), f'{name}: structure counts do not add up to the number of blocks')
        if [opkey(x)[:2] for x in c0] != [opkey(x)[:2] for x in c1]:
            r.bad({'pass': name, 'symptom': 'circuit_changed'}, 'unchanged', 'changed', f'{name}: analysis pass changed the circuit')
    elif name == 'RecordStatsPass':
        run_pass(P.RecordStatsPass(), c1, data)
        run_pass(P.RecordStatsPass(), c1, data)
        st = data[P.RecordStatsPass.key]
        exp = dict(cycles=c0.num_cycles, num_ops=c0.num_operations, depth=c0.depth)
        got = {k: st[-1][k] for k in exp}
        if len(st) != 2 or got != exp or sum(st[0]['gate_counts'].values()) != c0.num_operations:
            r.bad({'pass': name, 'symptom': 'post'}, exp, got, f'{name}: wrong statistics')
        if not same_ops(c0, c1):
            r.bad({'pass': name, 'symptom': 'circuit_changed'}, 'unchanged', 'changed', f'{name} changed the circuit')
    elif name in ('UpdateDataPass', 'SetRandomSeedPass', 'LogPass', 'LogErrorPass'):
        if name == 'UpdateDataPass':
            run_pass(P.UpdateDataPass('k_' + str(o['v']), o['v']), c1, data)
            ok = data['k_' + str(o['v'])] == o['v']
        elif name == 'SetRandomSeedPass':
            run_pass(P.SetRandomSeedPass(o['v']), c1, data)
            ok = data.seed == o['v']
        elif name == 'LogPass':
            run_pass(P.LogPass('msg %d' % o['v']), c1, data)
            ok = True
        else:
            data.error = 0.25
            run_pass(P.LogErrorPass(), c1, data)
            ok = data.error == 0.25
        if not ok:
            r.bad({'pass': name, 'symptom': 'post'}, 'documented data update', 'different', f'{name}: data not updated as documented')
        if not same_ops(c0, c1):
            r.bad({'pass': name, 'symptom': 'circuit_changed'}, 'unchanged', 'changed', f'{name} changed the circuit')
    return r.out()


# ---- family (iii): oracle injection -------------------------------------------------------------------
# The real pass runs with Circuit.instantiate replaced by a no-op and the cost generator replaced by a
# script; operations carry their identity in their (untouched) parameter.  The extracted Coq skeleton gets
# the same grid, iteration sequence and script; candidates costed, decisions and final grids must agree.
ID_STEP = 0.01


def gen_cosim_case(rng, kind, thorough):
    n = rng.randint(1, 4)
    m = rng.randint(1, 9 if kind != 'exh' else 5)
    ops, k = [], 0
    for _ in range(m):
        if n >= 2 and rng.random() < 0.4:
            ops.append(['RZZ', rng.sample(range(n), 2), [k * ID_STEP]])
        else:
            ops.append(['U3', [rng.randrange(n)], [k * ID_STEP, 0.0, 0.0]])
        k += 1
    pops = [[rng.randint(0, 6), rng.randrange(n)] for _ in range(rng.choice([0, 0, 1, 2]))]
    nscript = 80 if kind != 'exh' else 400
    bias = rng.choice([0.2, 0.5, 0.8])
    script = [(1 if rng.random() < bias else rng.choice([9, 9, 5])) for _ in range(nscript)]
    case = dict(p={'scan': 'ScanningGateRemovalPass', 'tree': 'TreeScanningGateRemovalPass', 'exh': 'ExhaustiveGateRemovalPass',
                   'iter': 'IterativeScanningGateRemovalPass'}[kind],
                kind=kind, circ=dict(n=n, ops=ops), pops=pops, script=script, left=rng.random() < 0.55)
    if kind == 'scan' or kind == 'iter':
        case['filter'] = rng.choice([None, None, 'sq', 'even'])
    if kind == 'tree':
        case['depth'] = rng.randint(1, 3)
    return case


def op_id(op):
    return int(round(float(op.params[0]) / ID_STEP))


def grid_of(c, reverse=False):
    """(grid in model syntax, iteration sequence [[cycle id]..]) of a real circuit"""
    fwd = list(c.operations_with_cycles())
    cycles = {}
    for cyc, op in fwd:
        cycles.setdefault(cyc, []).append(op)
    g = '[' + ' '.join('[' + ' '.join('[%d [%s]]' % (op_id(op), ' '.join(map(str, op.location))) for op in cycles[k]) + ']'
                       for k in sorted(cycles)) + ']'
    its = list(c.operations_with_cycles(reverse=True)) if reverse else fwd
    return g, '[' + ' '.join('[%d %d]' % (cyc, op_id(op)) for cyc, op in its) + ']', sorted(cycles) == list(range(len(cycles)))


def id_grid(c):
    cycles = {}
    for cyc, op in c.operations_with_cycles():
        cycles.setdefault(cyc, []).append(op_id(op))
    return [cycles[k] for k in sorted(cycles)]


def run_cosim(case):
    S = _setup()
    P = S['P']
    Circuit = S['Circuit']
    from bqskit.ir.opt.cost.generator import CostFunctionGenerator
    r = Rep(case)
    kind = case['kind']
    c0 = build(case['circ'])
    for pt in case.get('pops', []):
        try:
            c0.pop(tuple(pt))
        except Exception:
            pass
    script = case['script']
    log = []
    batches = []

    class Scripted(CostFunctionGenerator):
        def gen_cost(self, circuit, target):
            raise RuntimeError('scripted')

        def calc_cost(self, circuit, target):
            i = len(log)
            log.append(sorted(op_id(op) for op in circuit))
            return float(script[i]) if i < len(script) else 1e6

    filt = None
    if case.get('filter') == 'sq':
        def filt(op):
            return op.num_qudits == 1
    elif case.get('filter') == 'even':
        def filt(op):
            return op_id(op) % 2 == 0
    left = case['left']
    thr = 5.0
    if kind == 'scan':
        p = P.ScanningGateRemovalPass(left, thr, Scripted(), collection_filter=filt)
    elif kind == 'tree':
        p = P.TreeScanningGateRemovalPass(left, thr, Scripted(), tree_depth=case['depth'])
    elif kind == 'exh':
        p = P.ExhaustiveGateRemovalPass(thr, Scripted())
    else:
        p = S['Workflow']([P.IterativeScanningGateRemovalPass(max(3, c0.num_qudits + 1), 2, left, thr, Scripted(), {}, filt)])
    g, its, dense = grid_of(c0, reverse=not left)
    c1 = c0.copy()
    orig_inst = Circuit.instantiate
    import bqskit.runtime.worker as W
    rt = W._worker

    class RecRT(FakeRuntime):
        def map(self, fn, *args, **kw):
            batches.append([sorted(op_id(op) for op in c) for c in args[0]])
            return FakeRuntime.map(self, fn, *args, **kw)

    def fake_inst(self, target, *a, **k):
        return self
    Circuit.instantiate = fake_inst
    W._worker = RecRT()
    try:
        try:
            run_pass(p, c1)
            outcome = 'OK'
        except IndexError:
            outcome = 'IndexError'
    finally:
        Circuit.instantiate = orig_inst
        W._worker = rt
    ids_f = 'all'
    if filt is not None:
        ids_f = '[' + ' '.join(str(op_id(op)) for op in c0 if filt(op)) + ']'
    sc = '[' + ' '.join(map(str, script)) + ']'
    if kind == 'scan':
        line = f'scan {int(left)} 5 {g} {its} {ids_f} {sc}'
    elif kind == 'tree':
        # which cycle compensation does the source apply?  (read, fail-closed, from get_tree_circs)
        import inspect
        src = inspect.getsource(P.TreeScanningGateRemovalPass.get_tree_circs)
        pars = list(inspect.signature(P.TreeScanningGateRemovalPass.get_tree_circs).parameters)
        if pars == ['orig_num_cycles', 'circuit_copy', 'cycle_and_ops'] and 'idx_shift = orig_num_cycles - circ.num_cycles' in src:
            comp = 1                                   # always (the code as it stands, finding C10.T1)
        elif pars == ['orig_num_cycles', 'circuit_copy', 'cycle_and_ops', 'start_from_left'] and 'if start_from_left:' in src:
            comp = int(left)                           # guarded (fixes/C10.T1.patch)
        else:
            raise RuntimeError('get_tree_circs has neither of the two modelled shapes: ' + str(pars))
        line = f"tree {comp} {case['depth']} 5 {g} {its} {sc}"
    elif kind == 'exh':
        obs = '[' + ' '.join('[' + ' '.join('[' + ' '.join(map(str, ids)) + ']' for ids in b) + ']' for b in batches) + ']'
        line = f'exh 5 {g} {obs} {sc}'
    else:
        line = f'iter {int(left)} 5 {g} {ids_f} {sc}'
    r.info.update(model_line=line, outcome=outcome, final=id_grid(c1) if outcome == 'OK' else None, log=log, dense=dense,
                  iter_line=('iterfwd ' if left else 'iterrev ') + g, its=its,
                  batch_sizes=[len(b) for b in batches],
                  removed=c0.num_operations - c1.num_operations if outcome == 'OK' else 0)
    # the oracle on the real run: only candidates accepted by the scripted cost may be committed
    if outcome == 'OK':
        fin = sorted(x for cyc in r.info['final'] for x in cyc)
        init = sorted(op_id(op) for op in c0)
        acc = [log[i] for i in range(len(log)) if i < len(script) and script[i] < 5]
        if fin != init and fin not in acc:
            r.bad({'pass': case['p'], 'symptom': 'committed_unaccepted'}, 'input or a candidate with scripted cost < threshold', fin,
                  f"{case['p']}: committed a circuit whose cost was not below the threshold")
        if not set(fin) <= set(init):
            r.bad({'pass': case['p'], 'symptom': 'not_a_subcircuit'}, init, fin, f"{case['p']}: result has operations not in the input")
    r.nontrivial = c0.num_operations > 0
    return r.out()


def gen_rebase_cosim(rng, thorough):
    n = rng.randint(2, 3)
    srcs = rng.choice([['CZ'], ['CZ'], ['CZ', 'ISWAP'], ['CH']])
    ops = []
    for _ in range(rng.randint(1, 4)):
        ops.append([rng.choice(srcs), rng.sample(range(n), 2), []])
        for _ in range(rng.randint(0, 2)):
            ops.append(['U3', [rng.randrange(n)], [rng.uniform(-3, 3) for _ in range(3)]])
    k = rng.randint(3, 25)
    script = [rng.choice([1, 9, 9, 9, 5]) for _ in range(k)] + [1] * 400
    return dict(p='Rebase2QuditGatePass', kind='rebase', circ=dict(n=n, ops=ops), srcs=srcs, script=script,
                max_depth=rng.randint(1, 3), max_retries=rng.choice([-1, 0, 1, 2]), two_new=rng.random() < 0.3, auto=rng.random() < 0.4)


class NoProgress(Exception):
    pass


def run_rebase_cosim(case):
    S = _setup()
    P = S['P']
    Circuit = S['Circuit']
    from bqskit.ir.opt.cost.generator import CostFunctionGenerator
    r = Rep(case)
    c0 = build(case['circ'])
    srcs = [S['REG'][g]() for g in case['srcs']]
    news = [S['REG']['CX']()] + ([S['REG']['SQISW']()] if case['two_new'] else [])
    script = case['script']
    table, starts, batches = [], [], []
    u0 = S['UnitaryMatrix'](U(c0))
    if u0.get_distance_from(S['UnitaryMatrix'].identity(u0.dim)) < 0.5:
        r.nontrivial = False
        return r.out()

    class Scripted(CostFunctionGenerator):
        def gen_cost(self, circuit, target):
            raise RuntimeError('scripted')

        def calc_cost(self, circuit, target):
            i = len(table)
            if i > 600:
                raise NoProgress()
            table.append([circuit.count(g) if g in circuit.gate_set else 0 for g in srcs])
            return (script[i] if i < len(script) else 1) / 10.0

    data = S['PassData'](c0)
    if case.get('auto'):
        case = dict(case, p='AutoRebase2QuditGatePass')
        r.case = case
        p = P.AutoRebase2QuditGatePass(case['max_depth'], case['max_retries'], 0.5, Scripted())
        data.gate_set = S['GateSet'](news + [S['G'].U3Gate()])
        new_sorted = [g for g in data.gate_set if g.num_qudits == 2]
        tcirc, tcounts, _, _ = p.generate_new_gate_templates(new_sorted, data.gate_set.get_general_sq_gate())
        tcounts, ocount = tcounts[:len(tcirc)], tcounts[-1]
        srcs = []
    else:
        p = P.Rebase2QuditGatePass(srcs, news, case['max_depth'], case['max_retries'], 0.5, Scripted())
        tcounts, ocount = p.counts[:len(p.circs)], p.counts[-1]
    orig_group = p.group_near_gates

    def group(circuit, center, gates):
        if not srcs:
            srcs.extend(gates)
        starts.append([circuit.count(g) if g in circuit.gate_set else 0 for g in srcs])
        return orig_group(circuit, center, gates)
    p.group_near_gates = group
    c1 = c0.copy()
    orig_inst = Circuit.instantiate
    import bqskit.runtime.worker as W
    rt = W._worker

    class RecRT(FakeRuntime):
        def map(self, fn, *args, **kw):
            batches.append(len(args[0]))
            return FakeRuntime.map(self, fn, *args, **kw)

    def fake_inst(self, target, *a, **k):
        return self
    Circuit.instantiate = fake_inst
    W._worker = RecRT()
    try:
        run_pass(p, c1, data)
    except NoProgress:
        r.bad({'pass': case['p'], 'symptom': 'no_progress'}, 'the loop ends once every candidate is accepted',
              'still looping after 600 scripted cost calls, source gates left: %s' % (starts[-1] if starts else '?'),
              case['p'] + ': accepted replacements do not remove the source gate (loop never ends)')
        return r.out()
    finally:
        Circuit.instantiate = orig_inst
        W._worker = rt
    if not srcs:            # auto: nothing to rebase
        r.nontrivial = False
        return r.out()
    final = [c1.count(g) if g in c1.gate_set else 0 for g in srcs]
    fm = lambda l: '[' + ' '.join(map(str, l)) + ']'
    counts0 = [c0.count(g) if g in c0.gate_set else 0 for g in srcs]
    line = 'rebase 5 %d %d 200 %s %s %s %d %s %s' % (
        case['max_depth'], case['max_retries'], fm(range(len(srcs))), fm(counts0), fm(tcounts), ocount,
        '[' + ' '.join(fm(t) for t in table) + ']', fm(script[:len(table)]))
    r.info.update(model_line=line, final=final, calls=len(table), starts=starts, batches=batches)
    if any(final):
        r.bad({'pass': case['p'], 'symptom': 'source_gate_left'}, [0] * len(srcs), final, case['p'] + ' returned with source gates left (oracle injection)')
    return r.out()


RUNNERS = {
    'rule': run_rule, 'u3dec': run_u3dec, 'zxzxz': run_zxzxz, 'gsq': run_gsq, 'rebase': run_rebase,
    'removal': run_removal, 'subst': run_subst, 'extract_diag': run_extract_diag, 'analytic': run_analytic,
    'walsh': run_walsh, 'synth': run_synth, 'util': run_util, 'cosim': run_cosim, 'rebase_cosim': run_rebase_cosim, 'mgd': run_mgd,
}


def do_task(task):
    """runs one case in a pool process; never raises"""
    t0 = time.time()
    signal.signal(signal.SIGALRM, _alarm)
    signal.alarm(task.get('timeout', 60))
    try:
        out = RUNNERS[task['fam']](task['case'])
    except Timeout:
        out = dict(case=task['case'], issues=[], info={'timeout': True}, nontrivial=False)
    except BaseException as e:           # noqa  (pyo3 panics derive from BaseException)
      if 'Timeout' in str(e) or 'Timeout' in type(e).__name__:
        # our SIGALRM fired inside a Python callback made by native code, which re-raised it as a panic
        out = dict(case=task['case'], issues=[], info={'timeout': True}, nontrivial=False)
      else:
        out = dict(case=task['case'], issues=[dict(
            sig={'pass': task['case'].get('p'), 'symptom': 'exception', 'exc': type(e).__name__},
            expected='the pass completes', observed=traceback.format_exc()[-1500:],
            what=f"{task['case'].get('p')} raised {type(e).__name__}")], info={}, nontrivial=True)
    finally:
        signal.alarm(0)
    out['fam'] = task['fam']
    out['t'] = round(time.time() - t0, 3)
    return out


# ======================================================================================================
# main-process side
# ======================================================================================================
PROVED, SKEL, TESTED = 'proved', 'skeleton-proved (oracle-relative)', 'tested-only'
CATALOGUE = {
    # class name: status.  proved = theorem over a model tied to the code (translator or correspondence), no oracle;
    # skeleton-proved = theorem holds for every behaviour of the numerical oracles it is relative to
    'CHToCNOTPass': PROVED, 'CNOTToCHPass': PROVED, 'CNOTToCYPass': PROVED, 'CNOTToCZPass': PROVED,
    'CYToCNOTPass': PROVED, 'CZToCNOTPass': PROVED, 'SwapToCNOTPass': PROVED,
    'U3Decomposition': TESTED, 'ZXZXZDecomposition': SKEL,
    'GeneralSQDecomposition': TESTED,
    'Rebase2QuditGatePass': SKEL, 'AutoRebase2QuditGatePass': SKEL,
    'ScanningGateRemovalPass': SKEL, 'TreeScanningGateRemovalPass': SKEL,
    'ExhaustiveGateRemovalPass': SKEL, 'IterativeScanningGateRemovalPass': SKEL,
    'SubstitutePass': SKEL, 'ExtractDiagonalPass': TESTED,
    'QSDPass': SKEL, 'MGDPass': SKEL, 'FullQSDPass': TESTED,
    'BlockZXZPass': SKEL, 'FullBlockZXZPass': TESTED,
    'WalshDiagonalSynthesisPass': TESTED, 'QFASTDecompositionPass': TESTED,
    'QPredictDecompositionPass': TESTED, 'PermutationAwareSynthesisPass': TESTED,
    'CompressPass': PROVED, 'UnfoldPass': PROVED, 'GroupSingleQuditGatePass': PROVED,
    'ExtendBlockSizePass': TESTED, 'FillSingleQuditGatesPass': TESTED, 'ToU3Pass': SKEL,
    'ToVariablePass': SKEL, 'BlockConversionPass': SKEL, 'StructureAnalysisPass': TESTED,
    'RecordStatsPass': TESTED, 'UpdateDataPass': TESTED, 'SetRandomSeedPass': TESTED,
    'LogPass': TESTED, 'LogErrorPass': TESTED,
}
THEOREMS_OF = {
    'ScanningGateRemovalPass': 'C10_scan_invariant C10_removal_monotone C10_scan_left_intended C10_scan_left_never_raises; co-simulated',
    'TreeScanningGateRemovalPass': 'C10_treescan_invariant C10_treescan_right_intended_refuted; co-simulated',
    'ExhaustiveGateRemovalPass': 'C10_exhaustive_invariant; co-simulated (structure de-duplication replayed from the trace)',
    'IterativeScanningGateRemovalPass': 'C10_iterative_invariant C10_iterative_terminates; co-simulated on the unpartitioned branch',
    'SubstitutePass': 'C10_substitute_invariant; decision skeleton only (replace_gate is an oracle), no co-simulation',
    'Rebase2QuditGatePass': 'C10_rebase_post; co-simulated', 'AutoRebase2QuditGatePass': 'C10_rebase_post; co-simulated',
    'ZXZXZDecomposition': 'C10_zxzxz_form (all angles); parameter extraction (det, phase, arctan2) is the oracle; gate sequence read by the translator',
    'MGDPass': 'C10_mgd_location (any target position) C10_mgd_rotation_only_at_the_ends C10_multiplexor_branches; angle halving and recursion are oracles; driven directly with every (width, target) arrangement',
    'QSDPass': 'C10_qsd_demultiplex C10_qsd_recombine; qubit shifts and multiplexor angle encodings not modelled',
    'BlockZXZPass': 'C10_qsd_demultiplex (same demultiplexing step); A/B/C construction not modelled',
    'UnfoldPass': 'C10_unfold_*; list model tied by correspondence', 'CompressPass': 'C10_compress_order; list model tied by correspondence',
    'GroupSingleQuditGatePass': 'C10_group_single_timeline; per-qudit model tied by correspondence',
    'ToU3Pass': 'C10_convert_timelines C10_convert_preserves_unitary (calc_params contract = oracle)',
    'ToVariablePass': 'C10_convert_timelines C10_convert_preserves_unitary (get_params contract = oracle)',
    'BlockConversionPass': 'C10_convert_timelines C10_convert_preserves_unitary (get_unitary/get_params contract = oracle)',
}
for _n in ('CHToCNOTPass', 'CNOTToCHPass', 'CNOTToCYPass', 'CNOTToCZPass', 'CYToCNOTPass', 'CZToCNOTPass', 'SwapToCNOTPass'):
    THEOREMS_OF[_n] = f'C10_rule_{_n} C10_rule_{_n}_post C10_rules_embedded_upto5 C10_rule_pass_preserves_unitary; translator + correspondence'


def blocked_opts(rng):
    """for passes consuming BLOCKED input: 60% of the cases update the blocked circuit's parameters through the outer circuit
    (operation parameters != template parameters), 30% reuse one CircuitGate object in a second operation with other parameters"""
    return dict(reparam=rng.randint(1, 10**6) if rng.random() < 0.6 else None, dup=rng.random() < 0.3)


def gen_tasks(ctx, rng, scale=1.0, only=None):
    """the generated case list for the numerical property oracle (whole catalogue)"""
    T = []
    th = not ctx.quick()

    def n(q, t):
        return max(1, int(round((t if th else q) * scale)))

    def add(fam, case, timeout=60):
        if only is None or case.get('p') in only:
            T.append(dict(fam=fam, case=case, timeout=timeout))
    # (iii) oracle injection
    for kind, q, t in [('scan', 50, 800), ('tree', 50, 800), ('exh', 20, 300), ('iter', 20, 300)]:
        for _ in range(n(q, t)):
            c = gen_cosim_case(rng, kind, th)
            if only is None or c['p'] in only:
                T.append(dict(fam='cosim', case=c, timeout=60))
    for _ in range(n(20, 250)):
        c = gen_rebase_cosim(rng, th)
        if only is None or c['p'] in only:
            T.append(dict(fam='rebase_cosim', case=c, timeout=60))
    # (i) rules
    for name in RULES:
        for _ in range(n(14, 120)):
            add('rule', gen_rule_case(rng, name, th))
    for _ in range(n(24, 300)):
        d = rand_circ(rng, 1, rng.randint(0, 6))
        if rng.random() < 0.1:
            d = rand_circ(rng, 2, 3)
        add('u3dec', dict(p='U3Decomposition', circ=d))
    for _ in range(n(40, 500)):
        d = rand_circ(rng, 1, rng.randint(0, 6))
        if rng.random() < 0.2:
            d = dict(n=1, ops=[[rng.choice(['X', 'Z', 'H', 'S', 'Y']), [0], []]] * rng.randint(0, 2))
        if rng.random() < 0.07:
            d = rand_circ(rng, 2, 3)
        add('zxzxz', dict(p='ZXZXZDecomposition', circ=d,
                          opts=dict(rx=rng.random() < 0.3, u1=rng.random() < 0.3, gset=rng.choice(list(ZX_GSETS)))))
    # retarget
    for _ in range(n(10, 80)):
        add('gsq', dict(p='GeneralSQDecomposition', radix=2, general=rng.choice(['U3', 'VU']), circ=rand_circ(rng, 1, rng.randint(0, 5))))
    for _ in range(n(2, 6)):
        rd = rng.choice([3, 3, 4])
        add('gsq', dict(p='GeneralSQDecomposition', radix=rd, general='VU',
                        circ=dict(n=1, radixes=[rd], ops=[['VU', [0], dict(seed=rng.randint(0, 999))]])))
    for _ in range(n(9, 120)):
        add('rebase', gen_rebase_case(rng, False, th), 90)
    for _ in range(n(7, 80)):
        add('rebase', gen_rebase_case(rng, True, th), 90)
    # removal
    for _ in range(n(18, 300)):
        add('removal', dict(p='ScanningGateRemovalPass', circ=gen_removal_circ(rng), seed=rng.randint(0, 10**6),
                            opts=dict(left=rng.random() < 0.5, thr=rng.choice([1e-8, 1e-8, 1e-5, 1e-11]),
                                      filter=rng.choice([None, None, 'sq']))))
    for _ in range(n(18, 300)):
        add('removal', dict(p='TreeScanningGateRemovalPass', circ=gen_removal_circ(rng), seed=rng.randint(0, 10**6),
                            opts=dict(left=rng.random() < 0.6, thr=rng.choice([1e-8, 1e-8, 1e-5]), depth=rng.randint(1, 3))))
    for _ in range(n(7, 80)):
        add('removal', dict(p='ExhaustiveGateRemovalPass', circ=gen_removal_circ(rng, 3, 5), seed=rng.randint(0, 10**6),
                            opts=dict(thr=rng.choice([1e-8, 1e-5]))), 120)
    for _ in range(n(10, 80)):
        wtp = rng.randint(3, 5)
        add('removal', dict(p='IterativeScanningGateRemovalPass', circ=gen_removal_circ(rng, 4, 8), seed=rng.randint(0, 10**6),
                            opts=dict(wtp=wtp, bs=rng.randint(2, wtp - 1), left=rng.random() < 0.5, thr=1e-8)), 120)
    for _ in range(n(14, 120)):
        add('subst', gen_subst_case(rng, th))
    for _ in range(n(5, 40)):
        k = 2
        nn = rng.randint(2, 3)
        loc = rng.sample(range(nn), k)
        if rng.random() < 0.7:        # in the domain: one location
            ops = [['VU', loc, dict(seed=rng.randint(0, 999))] for _ in range(rng.randint(2, 4))]
        else:
            ops = [['VU', rng.sample(range(nn), k), dict(seed=rng.randint(0, 999))] for _ in range(rng.randint(2, 3))]
        add('extract_diag', dict(p='ExtractDiagonalPass', circ=dict(n=nn, ops=ops), opts=dict(k=k)), 120)
    # analytic
    for name, q, t in [('QSDPass', 12, 120), ('BlockZXZPass', 12, 120), ('MGDPass', 10, 100), ('FullQSDPass', 10, 80),
                       ('FullBlockZXZPass', 10, 80)]:
        for _ in range(n(q, t)):
            nmax = 4 if not th else 5
            o = dict(mq=rng.choice([2, 2, 3]) if name in ('QSDPass', 'BlockZXZPass') else 2)
            if name == 'MGDPass':
                o['twice'] = rng.random() < 0.5
            if name == 'FullQSDPass' and rng.random() < 0.15:
                o.update(scan=True, left=rng.random() < 0.5, depth=rng.choice([0, 0, 2]))
            if name == 'FullBlockZXZPass':
                o['extract'] = rng.random() < 0.15
                if rng.random() < 0.1:
                    o['scan'] = True
            circ = gen_vu_circ(rng, 3, 3 if o.get('scan') else nmax)
            if o.get('scan') and rng.random() < 0.8:
                circ['ops'] = [op for op in circ['ops'] if op[0] == 'VU']
            add('analytic', dict(p=name, circ=circ, opts=o), 120)
    # MGDPass on its own: every (width, target position), both levels, permuted locations, with neighbours
    combos = [(k, t) for k in (2, 3, 4) for t in range(k)]
    for rep in range(n(3, 20)):
        for k, t in combos:
            nn = rng.randint(k, 5)
            ops = []
            for _ in range(rng.randint(0, 2)):
                ops.append(rand_op(rng, nn, [g for g in ['H', 'CX', 'U3', 'T', 'CZ'] if WIDTH[g] <= nn]))
            ops.append(rand_mpr(rng, nn, k, t))
            if rng.random() < 0.4:
                ops.append(rand_mpr(rng, nn))
            for _ in range(rng.randint(0, 2)):
                ops.append(rand_op(rng, nn, [g for g in ['H', 'CX', 'U3', 'S'] if WIDTH[g] <= nn]))
            add('mgd', dict(p='MGDPass', circ=dict(n=nn, ops=ops), opts=dict(twice=rng.random() < 0.5)))
    for _ in range(n(16, 200)):
        add('walsh', dict(p='WalshDiagonalSynthesisPass', n=rng.randint(1, 4 if not th else 5), seed=rng.randint(0, 10**6),
                          bad='qutrit' if rng.random() < 0.08 else None))
    for _ in range(n(4, 30)):
        add('synth', dict(p='QFASTDecompositionPass', n=2, circ=rand_circ(rng, 2, rng.randint(1, 5), ['U3', 'CX', 'H', 'CZ']),
                          seed=rng.randint(0, 999), opts=dict(gate='pauli', thr=rng.choice([1e-8, 1e-6]))), 120)
    for _ in range(n(2, 20)):
        add('synth', dict(p='QPredictDecompositionPass', n=3, circ=rand_circ(rng, 3, rng.randint(1, 3), ['U3', 'CX', 'H']),
                          seed=rng.randint(0, 999), opts=dict(thr=1e-8)), 60 if not th else 200)
    for _ in range(n(3, 30)):
        nn = 2 if not th else rng.choice([2, 2, 3])
        add('synth', dict(p='PermutationAwareSynthesisPass', n=nn, circ=rand_circ(rng, nn, rng.randint(1, 4), ['U3', 'CX', 'H', 'SWAP']),
                          seed=rng.randint(0, 999), opts=dict(inp=rng.random() < 0.4, outp=rng.random() < 0.7, thr=1e-8)), 60 if not th else 300)
    # utilities
    for _ in range(n(16, 200)):
        d = rand_circ(rng, rng.randint(1, 5), rng.randint(1, 10))
        pops = [[rng.randint(0, 6), rng.randint(0, d['n'] - 1)] for _ in range(rng.randint(0, 4))]
        add('util', dict(p='CompressPass', circ=d, pops=pops))
    for _ in range(n(20, 250)):
        add('util', dict(p='UnfoldPass', circ=gen_block_circ(rng), **blocked_opts(rng)))
    for _ in range(n(20, 250)):
        d = gen_block_circ(rng, 4, 1) if rng.random() < 0.3 else rand_circ(rng, rng.randint(1, 5), rng.randint(1, 12))
        add('util', dict(p='GroupSingleQuditGatePass', circ=d, **blocked_opts(rng)))
    for _ in range(n(20, 250)):
        nn = rng.randint(1, 5)
        add('util', dict(p='ExtendBlockSizePass', circ=rand_circ(rng, nn, rng.randint(1, 10), ['U3', 'H', 'CX', 'CZ', 'T']),
                         partition=rng.choice([2, 2, 'group', None]), **blocked_opts(rng),
                         opts=dict(min=rng.choice([None, 2, 3, 3]), line=rng.random() < 0.3)))
    for _ in range(n(20, 250)):
        add('util', dict(p='FillSingleQuditGatesPass', circ=rand_circ(rng, rng.randint(1, 5), rng.randint(0, 10))))
    for nm in ('ToU3Pass', 'ToVariablePass'):
        for _ in range(n(16, 200)):
            d = rand_circ(rng, rng.randint(1, 4), rng.randint(1, 8))
            for _ in range(rng.randint(0, 2)):
                d['ops'].insert(rng.randint(0, len(d['ops'])), ['VU', [rng.randrange(d['n'])], dict(seed=rng.randint(0, 999))])
            add('util', dict(p=nm, circ=d, opts=dict(all=rng.random() < 0.5)))
    for _ in range(n(20, 200)):
        d = gen_block_circ(rng, 4, 1)
        for _ in range(rng.randint(0, 2)):
            k = rng.randint(1, min(2, d['n']))
            d['ops'].insert(rng.randint(0, len(d['ops'])), [rng.choice(['VU', 'CU']), rng.sample(range(d['n']), k), dict(seed=rng.randint(0, 999))])
        add('util', dict(p='BlockConversionPass', circ=d, **blocked_opts(rng), opts=dict(target=rng.choice(['variable', 'constant']), var=rng.random() < 0.8,
                                                                    const=rng.random() < 0.8, cg=rng.random() < 0.8)))
    for _ in range(n(10, 100)):
        add('util', dict(p='StructureAnalysisPass', **blocked_opts(rng), circ=rand_circ(rng, rng.randint(2, 5), rng.randint(2, 12), ['U3', 'CX', 'H', 'CZ']),
                         partition=rng.randint(2, 3)))
    for nm in ('RecordStatsPass', 'UpdateDataPass', 'SetRandomSeedPass', 'LogPass', 'LogErrorPass'):
        for _ in range(n(4, 30)):
            add('util', dict(p=nm, circ=rand_circ(rng, rng.randint(1, 4), rng.randint(0, 8)), opts=dict(v=rng.randint(0, 99))))
    return T


def _worker_loop(conn):
    _setup()
    conn.send('ready')
    while True:
        try:
            task = conn.recv()
        except EOFError:
            return
        if task is None:
            return
        conn.send(do_task(task))


def run_pool(tasks, procs=14):
    """Own process pool: one task at a time per worker over a pipe; a worker that dies (native abort) or
    overruns its hard deadline (native loop ignoring SIGALRM) is killed and replaced, the case is reported."""
    import multiprocessing as mp
    from multiprocessing.connection import wait
    if not tasks:
        return []
    _setup()                     # import bqskit once, before forking (workers inherit the loaded modules)
    mpc = mp.get_context('fork')
    order = sorted(range(len(tasks)), key=lambda i: -tasks[i].get('timeout', 60))
    pending = list(reversed(order))
    out = [None] * len(tasks)
    workers = {}      # conn -> [proc, task index, deadline]
    starting = set()

    def spawn():
        a, b = mpc.Pipe()
        pr = mpc.Process(target=_worker_loop, args=(b,), daemon=True)
        pr.start()
        b.close()
        workers[a] = [pr, None, time.time() + 600]      # until it reports ready
        starting.add(a)
        return a

    def feed(conn):
        if pending:
            i = pending.pop()
            workers[conn][1] = i
            workers[conn][2] = time.time() + tasks[i].get('timeout', 60) + 20
            conn.send(tasks[i])
        else:
            try:
                conn.send(None)
            except Exception:
                pass
            workers[conn][0].join(2)
            del workers[conn]

    def lost(conn, why):
        pr, i, _ = workers.pop(conn)
        try:
            pr.kill()
        except Exception:
            pass
        if i is not None:
            case = tasks[i]['case']
            if why == 'hard_timeout':
                out[i] = dict(case=case, issues=[], info={'timeout': True, 'hard': True}, nontrivial=False, fam=tasks[i]['fam'], t=0)
            else:
                out[i] = dict(case=case, fam=tasks[i]['fam'], t=0, info={}, nontrivial=True, issues=[dict(
                    sig={'pass': case.get('p'), 'symptom': 'process_died'}, expected='the pass completes',
                    observed=f'worker process exit code {pr.exitcode}', what=f"{case.get('p')}: the process running the pass died")])
        if pending:
            spawn()

    for _ in range(min(procs, len(tasks))):
        spawn()
    while workers:
        ready = wait(list(workers), timeout=1.0)
        for conn in ready:
            try:
                res = conn.recv()
            except (EOFError, OSError):
                starting.discard(conn)
                lost(conn, 'died')
                continue
            if conn in starting:
                starting.discard(conn)
                workers[conn][2] = None
                feed(conn)
                continue
            out[workers[conn][1]] = res
            workers[conn][1] = None
            if res.get('info', {}).get('timeout'):
                # the case was interrupted by SIGALRM at an arbitrary point: do not reuse that interpreter
                pr = workers.pop(conn)[0]
                try:
                    pr.kill()
                except Exception:
                    pass
                if pending:
                    spawn()
            else:
                feed(conn)
        now = time.time()
        for conn in list(workers):
            pr, i, dl = workers[conn]
            if dl is not None and now > dl:
                starting.discard(conn)
                lost(conn, 'hard_timeout')
            elif not pr.is_alive() and conn not in ready:
                starting.discard(conn)
                lost(conn, 'died')
    return out


def absorb(ctx, results, stats):
    for res in results:
        case = res['case']
        name = case.get('p', res['fam'])
        ctx.case(case, nontrivial=res['nontrivial'])
        ctx.count('pass:' + name)
        st = stats.setdefault(name, dict(cases=0, issues=0, timeouts=0, t=0.0))
        st['cases'] += 1
        st['t'] += res.get('t', 0)
        if res['info'].get('timeout'):
            st['timeouts'] += 1
            ctx.count('timeout:' + name)
        for k in ('removed', 'substituted', 'src_occurrences', 'blocks_off_template'):
            if res['info'].get(k):
                ctx.count(f'{k}>0:{name}')
        if res['info'].get('identity_target'):
            ctx.count('identity_target:' + name)
        for iss in res['issues']:
            st['issues'] += 1
            ctx.violation(iss['sig'], case, iss['expected'], iss['observed'], iss['what'])
        if len(ctx.samples) < 6 and res['nontrivial'] and name not in [s.get('pass') for s in ctx.samples if isinstance(s, dict)]:
            ctx.sample(dict({'pass': name, 'case': json.loads(json.dumps(case, default=str))['circ'] if 'circ' in case else case}, t=res.get('t')))


# ---- exact numbers -> floats ----------------------------------------------------------------------------
def k_to_complex(entry):
    e, cs = entry[0], entry[1:]
    z = cmath.exp(1j * PI / 24)
    return sum(c * z ** i for i, c in enumerate(cs)) / (2 ** e)


def pv(val: str):
    """parse the driver's value syntax: integers, atoms, [ ... ] lists"""
    import re
    if not val.startswith('['):
        return val
    toks = re.findall(r'\[|\]|[^\s\[\]]+', val)
    pos = 0

    def rec():
        nonlocal pos
        pos += 1
        items = []
        while toks[pos] != ']':
            if toks[pos] == '[':
                items.append(rec())
            else:
                t = toks[pos]
                items.append(int(t) if re.fullmatch(r'-?\d+', t) else t)
                pos += 1
        pos += 1
        return items
    return rec()


def parse_model_ops(s):
    """'[[RY 3 [0]] [CX [2 0]]]' -> [(name, (loc), (units))]"""
    import re
    toks = re.findall(r'\[|\]|[^\s\[\]]+', s)
    pos = 0

    def rec():
        nonlocal pos
        assert toks[pos] == '['
        pos += 1
        items = []
        while toks[pos] != ']':
            if toks[pos] == '[':
                items.append(rec())
            else:
                t = toks[pos]
                items.append(int(t) if re.fullmatch(r'-?\d+', t) else t)
                pos += 1
        pos += 1
        return items
    tree = rec()
    return [(it[0], tuple(it[-1]), tuple(it[1:-1])) for it in tree]


def library_tie(ctx):
    """the exact gate library of coq/lib/Cyclo.v against the live gates' matrices"""
    S = _setup()
    np = S['np']
    items = []
    for g in ['X', 'Y', 'Z', 'H', 'S', 'Sdg', 'T', 'Tdg', 'SX', 'CX', 'CY', 'CZ', 'CH', 'CS', 'CT', 'SWAP', 'ISWAP', 'SQISW']:
        items.append((g, []))
    for g in ['RX', 'RY', 'RZ', 'U1']:
        for m in (-13, -6, -3, 0, 1, 3, 5, 12, 24, 31):
            items.append((g, [m]))
    for t in [(0, 0, 0), (3, 5, -7), (6, 12, 1), (-5, 2, 9), (12, 0, 24)]:
        items.append(('U3', list(t)))
    lines = ['mat [%s%s]' % (g, ''.join(' %d' % u for u in us)) for g, us in items]
    out = vf.run_model('passes', lines)
    for (g, us), res in zip(items, out):
        ctx.case(('lib', g, tuple(us)))
        ctx.count('library_gate')
        try:
            m = np.array([[k_to_complex(e) for e in row] for row in pv(res)])
        except Exception:
            ctx.broken_obligation('exact gate library: model output unreadable', f'{g} {us}: {res[:200]}')
            continue
        live = np.array(S['REG'][g]().get_unitary([u * PI / 12 for u in us]))
        d = float(np.abs(m - live).max())
        if d > 1e-12:
            ctx.violation({'call': 'gate_library', 'gate': g}, dict(gate=g, units=us), 'Cyclo.v matrix == gate.get_unitary()', d,
                          f'exact matrix of {g} in coq/lib/Cyclo.v differs from the live gate', kind='correspondence',
                          corr='coq/lib/Cyclo.v gate_mat vs bqskit.ir.gates')


def rule_names_from_gen():
    txt = (vf.COQ / 'gen' / 'RulePasses.v').read_text()
    import re
    m = re.search(r'rule names, in the order of all_rules: ([^*]*)\*\)', txt)
    s = re.search(r'shape names: ([^*]*)\*\)', txt)
    return (m.group(1).split() if m else []), (s.group(1).split() if s else [])


def rules_correspondence(ctx, results):
    """model `rewrite` vs the real pass: per-qudit timelines, and the model's exact matrix vs numpy"""
    S = _setup()
    np = S['np']
    names, shape_names = rule_names_from_gen()
    if sorted(names) != sorted(RULES):
        ctx.broken_obligation('rule catalogue changed', f'generated rules {names} vs harness table {sorted(RULES)}')
    lines, meta = [], []
    for res in results:
        if res['fam'] != 'rule' or not res['info'].get('model_in'):
            continue
        name = res['case']['p']
        if name not in names:
            continue
        k = names.index(name)
        lines.append(f"rw {k} {res['info']['model_in']}")
        meta.append(('rw', res))
    out = vf.run_model('passes', lines) if lines else []
    den_lines, den_meta = [], []
    for (kind, res), got in zip(meta, out):
        case = res['case']
        n = case['circ']['n']
        try:
            mops = parse_model_ops(got)
        except Exception:
            ctx.broken_obligation('rule model: unreadable answer', got[:300])
            continue
        tl = [[] for _ in range(n)]
        for nm, loc, us in mops:
            for q in loc:
                tl[q].append([nm, list(loc), list(us)])
        ctx.count('rule_model_cases')
        if tl != res['info']['impl_tl']:
            ctx.violation({'pass': case['p'], 'symptom': 'model_mismatch'}, case, tl, res['info']['impl_tl'],
                          f"{case['p']}: per-qudit timelines of the real pass differ from the Coq model `rewrite`",
                          kind='correspondence', corr='coq/pass/Rules.v rewrite vs bqskit/passes/rules')
        if 'impl_u' in res['info']:
            den_lines.append(f'den {n} {got}')
            den_meta.append(res)
    out = vf.run_model('passes', den_lines) if den_lines else []
    for res, got in zip(den_meta, out):
        m = np.array([[k_to_complex(e) for e in row] for row in pv(got)])
        u = np.array([[complex(a, b) for a, b in row] for row in res['info']['impl_u']])
        d = float(np.abs(m - u).max())
        ctx.count('rule_exact_matrix_cases')
        if d > 1e-9:
            ctx.violation({'pass': res['case']['p'], 'symptom': 'exact_matrix_mismatch'}, res['case'], 'circ_den == get_unitary', d,
                          'exact matrix of the model output differs from the real circuit unitary', kind='correspondence',
                          corr='coq/lib/Cyclo.v circ_den vs Circuit.get_unitary')
    # parametric shapes read by the translator vs what the oracle saw
    shapes = pv(vf.run_model('passes', ['shapes'])[0])
    kinds = {}
    for g, nm in [('RZ', 'RZ 0'), ('U1', 'U1 0'), ('RX', 'RX 0'), ('SX', 'SX'), ('U3', 'U3 0 0 0')]:
        kinds[int(vf.run_model('passes', [f'kind [{nm}]'])[0])] = g
    shape_map = {nm: [kinds.get(k, '?') for k in sh] for nm, sh in zip(shape_names, shapes)}
    for res in results:
        if res['fam'] == 'zxzxz' and 'shape' in res['info']:
            want = shape_map.get(res['info']['shape'])
            if want != res['info']['kinds']:
                ctx.violation({'pass': 'ZXZXZDecomposition', 'symptom': 'shape_mismatch'}, res['case'], want, res['info']['kinds'],
                              'gate sequence differs from the shape read by the translator', kind='correspondence', corr='gen/RulePasses.v shapes')
    return names


def model_view_of_log(case, info):
    """the tree scan costs every candidate of a chunk; the skeleton stops at the first success:
    project the real log onto what the model evaluates"""
    if case['kind'] != 'tree':
        return info['log']
    out, idx = [], 0
    for nb in info['batch_sizes']:
        for j in range(nb):
            if idx + j >= len(info['log']):
                break
            out.append(info['log'][idx + j])
            if idx + j < len(case['script']) and case['script'][idx + j] < 5:
                break
        idx += nb
    return out


def skeleton_correspondence(ctx, results):
    """oracle-injected real runs vs the extracted decision skeletons"""
    items = [res for res in results if res['fam'] == 'cosim' and res['info'].get('model_line')]
    out = vf.run_model('passes', [res['info']['model_line'] for res in items]) if items else []
    out_it = vf.run_model('passes', [res['info']['iter_line'] for res in items]) if items else []
    for res, got in zip(items, out_it):
        if got != res['info']['its']:
            ctx.violation({'call': 'operations_with_cycles', 'kind': 'model-mismatch', 'reverse': not res['case']['left']}, res['case'], got, res['info']['its'],
                          'iteration order of the real circuit differs from the model (iter_fwd / iter_rev)', kind='correspondence',
                          corr='coq/pass/ScanSkel.v iter_fwd, iter_rev vs CircuitIterator')
    for res, got in zip(items, out):
        case = res['case']
        name = case['p']
        ctx.count('cosim:' + case['kind'])
        info = res['info']
        try:
            m = pv(got)
        except Exception:
            ctx.broken_obligation('skeleton model: unreadable answer', got[:300])
            continue
        if isinstance(m, str) or not m:
            ctx.broken_obligation('skeleton model: unexpected answer', str(got)[:300])
            continue
        m_out = m[0]
        m_log = m[-1]
        m_final = m[1] if m_out == 'OK' else None
        sig = {'pass': name, 'kind': 'model-mismatch'}
        if case['kind'] in ('scan', 'tree'):
            sig['start_from_left'] = case['left']
        exp = dict(outcome=m_out, final=m_final, costed=m_log)
        obs = dict(outcome=info['outcome'], final=info['final'], costed=model_view_of_log(case, info))
        if info['outcome'] == 'IndexError':
            ctx.count('cosim_indexerror:' + case['kind'])
            # the real pass raised: report it as a violation of the pass (the model must agree that it raises)
            ctx.violation(dict({'pass': name, 'symptom': 'IndexError'}, **({'start_from_left': case['left']} if 'start_from_left' in sig else {})),
                          case, 'the pass completes', 'IndexError', f'{name} raises IndexError under oracle injection (stale cycle index)')
        if exp != obs:
            ctx.violation(sig, case, exp, obs, f'{name}: decisions of the real pass differ from the Coq skeleton (candidates costed / committed circuit)',
                          kind='correspondence', corr='coq/pass/ScanSkel.v vs bqskit/passes/processing')
        elif info['outcome'] == 'OK' and case['kind'] == 'tree' and not case['left']:
            # agreement on a right-to-left tree scan: did it remove operations other than the visited ones? (C10.T1)
            pass


def util_correspondence(ctx, results):
    """list models of pass/Util.v vs the real UnfoldPass / CompressPass / GroupSingleQuditGatePass"""
    lines, meta = [], []
    for res in results:
        if res['fam'] != 'util':
            continue
        if 'model_line' in res['info']:
            lines.append(res['info']['model_line'])
            meta.append((res, None))
        for q, ln in enumerate(res['info'].get('model_lines', [])):
            lines.append(ln)
            meta.append((res, q))
    out = vf.run_model('passes', lines) if lines else []
    for (res, q), got in zip(meta, out):
        case, info, name = res['case'], res['info'], res['case']['p']
        ctx.count('util_model:' + name)
        m = pv(got)
        if isinstance(m, str):
            ctx.broken_obligation('utility model: unexpected answer', got[:200])
            continue
        if name == 'UnfoldPass':
            n = case['circ']['n']
            tl = [[] for _ in range(n)]
            for lid, loc in m:
                nm, ps = info['keys'][lid]
                for x in loc:
                    tl[x].append([nm, list(loc), ps])
            exp, obs = tl, info['impl']
        elif name == 'CompressPass':
            n = case['circ']['n']
            tl = [[] for _ in range(n)]
            locs = {}
            for tok in pv(info['model_line'].split(' ', 1)[1]):
                locs[tok[0]] = tok[1]
            for cyc, lid in sorted(m, key=lambda t: (t[0], locs[t[1]][0] if locs[t[1]] else 0)):
                for x in locs[lid]:
                    tl[x].append([cyc, info['keys'][lid]])
            exp, obs = tl, info['impl']
        else:
            t0 = info['t0'][q]
            exp = []
            for it in m:
                if it[0] == 'G':
                    exp.append(['G'] + [[t0[i][0]] + t0[i][2:] for i in it[1:]])
                else:
                    exp.append(['M', t0[it[1]]])
            obs = info['impl'][q]
        if exp != obs:
            ctx.violation({'pass': name, 'kind': 'model-mismatch'}, case, exp, obs,
                          f'{name}: result differs from the Coq list model', kind='correspondence', corr='coq/pass/Util.v')


def rebase_correspondence(ctx, results):
    items = [res for res in results if res['fam'] == 'rebase_cosim' and res['info'].get('model_line')]
    out = vf.run_model('passes', [res['info']['model_line'] for res in items]) if items else []
    for res, got in zip(items, out):
        info = res['info']
        ctx.count('cosim:rebase')
        m = pv(got)
        if isinstance(m, str) or m[0] != 'OK':
            exp = dict(outcome=str(m)[:80])
        else:
            exp = dict(final=m[1], calls=m[2], starts=m[4])
        obs = dict(final=info['final'], calls=info['calls'], starts=info['starts'])
        if exp != obs:
            ctx.violation({'pass': res['case']['p'], 'kind': 'model-mismatch'}, res['case'], exp, obs,
                          res['case']['p'] + ': loop decisions differ from the Coq skeleton (source-gate counts at each iteration / calls / result)',
                          kind='correspondence', corr='coq/pass/ScanSkel.v rebase_all vs bqskit/passes/retarget/two.py')


def run(ctx: vf.Ctx):
    ctx.uses_translators = BUILD['translators']
    ctx.build(**BUILD)
    ctx.rule = (
        'numerical property oracle: for each of the %d pass classes of the catalogue, random circuits of its domain '
        '(widths 1-5, gate mix from 28 library gates, parameters from {0, +-pi/2, +-pi, pi/4, 2pi} and uniform; blocks, '
        'variable/constant unitaries, redundant gates for removal passes) x constructor options (start side, thresholds, '
        'tree depth, filters, target gates, block sizes); non-trivial = the pass has something to do (source gate present, '
        'block to unfold, ...); distinct by canonical case text.  Correspondence: rule rewriting vs extracted Coq model, '
        'oracle-injected decision skeletons, list models of utility passes.' % len(CATALOGUE))
    ctx.assumptions += [
        'exact-matrix monoid laws and compositionality of the embedding are used for arbitrary width; checked exhaustively (all locations) for widths 1..5',
        'program-order list model of Circuit (per-qudit timelines) - batch_replace/unfold_all/pop preserve it (C04), checked here by correspondence',
        'numerical kernels (instantiate, cost, scipy cossin/schur/eig/svd, calc_params) are oracles: validated by the numerical runs only',
        'zeta = e^{i pi/24} satisfies x^16 - x^8 + 1 = 0 in C (evaluation of Q(zeta_48) into C)',
    ]
    ctx.trusted = ['Coq 8.16.1 kernel + vm_compute', 'ExtrOcamlBasic extraction, OCaml 4.13.1, coq/extract/passes_driver.ml',
                   'harness/gen/gen_rules.py (reads live pass objects)', 'harness/props/c10.py oracle (numpy)',
                   'in-process FakeRuntime standing in for get_runtime().map']
    stats = {}
    rng = ctx.rng
    t0 = time.time()
    if all(ctx.extract_ok.get(k) for k in BUILD['extracted']):
        library_tie(ctx)
    # corpus first
    cdir = vf.ROOT / 'corpus' / 'C10'
    corpus = []
    if cdir.exists():
        for f in sorted(cdir.glob('*.json')):
            d = json.loads(f.read_text())
            corpus.append(dict(fam=d['fam'], case=d['case'], timeout=120))
    tasks = corpus + gen_tasks(ctx, rng, scale=float(os.environ.get('VERIF_C10_SCALE', '1') or 1))
    results = run_pool(tasks)
    absorb(ctx, results, stats)
    if all(ctx.extract_ok.get(k) for k in BUILD['extracted']):
        rules_correspondence(ctx, results)
    if all(ctx.extract_ok.get(k) for k in BUILD['extracted']):
        skeleton_correspondence(ctx, results)
        rebase_correspondence(ctx, results)
        util_correspondence(ctx, results)
    # directed search when something is broken: deepen the oracle of the rule family (x6)
    if ctx.broken and not ctx.violations:
        deep = gen_tasks(ctx, random.Random(ctx.seed + 1), scale=6.0, only=set(RULES) | {'ZXZXZDecomposition', 'U3Decomposition'})
        absorb(ctx, run_pool(deep), stats)
    ctx.cov['passes'] = {k: dict(status=CATALOGUE[k], theorems=THEOREMS_OF.get(k, ''), **{a: (round(b, 1) if isinstance(b, float) else b) for a, b in stats.get(k, {}).items()})
                         for k in CATALOGUE}
    ctx.cov['status_counts'] = {st: sum(1 for v in CATALOGUE.values() if v == st) for st in (PROVED, SKEL, TESTED)}
    ctx.cov['catalogue_size'] = len(CATALOGUE)
    ctx.cov['uncovered'] = [k for k in CATALOGUE if not stats.get(k, {}).get('cases')]
    ctx.cov['oracle_wall_s'] = round(time.time() - t0, 1)


def replay(ctx, data):
    case = data.get('case')
    if not isinstance(case, dict) or 'p' not in case:
        print('replay: nothing to re-run (broken obligation); see the replay file for the failing theorem / translator output')
        return
    res = do_task(dict(fam=data.get('fam') or fam_of(case), case=case, timeout=600))
    absorb(ctx, [res], {})
    if all(ctx.extract_ok.get(k) for k in BUILD['extracted']):
        rules_correspondence(ctx, [res])
        skeleton_correspondence(ctx, [res])
        rebase_correspondence(ctx, [res])
        util_correspondence(ctx, [res])
    print('replay:', 'still fails' if (res['issues'] or ctx.violations) else 'passes now',
          json.dumps(res['issues'] or [v['what'] for v in ctx.violations], default=str)[:600])


def fam_of(case):
    p = case['p']
    if case.get('kind') in ('scan', 'tree', 'exh', 'iter'):
        return 'cosim'
    if case.get('kind') == 'rebase':
        return 'rebase_cosim'
    if 'radix' in case and p == 'GeneralSQDecomposition':
        return 'gsq'
    if p in RULES:
        return 'rule'
    return {'U3Decomposition': 'u3dec', 'ZXZXZDecomposition': 'zxzxz', 'GeneralSQDecomposition': 'gsq',
            'Rebase2QuditGatePass': 'rebase', 'AutoRebase2QuditGatePass': 'rebase', 'ScanningGateRemovalPass': 'removal',
            'TreeScanningGateRemovalPass': 'removal', 'ExhaustiveGateRemovalPass': 'removal',
            'IterativeScanningGateRemovalPass': 'removal', 'SubstitutePass': 'subst', 'ExtractDiagonalPass': 'extract_diag',
            'QSDPass': 'analytic', 'MGDPass': 'analytic', 'FullQSDPass': 'analytic', 'BlockZXZPass': 'analytic',
            'FullBlockZXZPass': 'analytic', 'WalshDiagonalSynthesisPass': 'walsh', 'QFASTDecompositionPass': 'synth',
            'QPredictDecompositionPass': 'synth', 'PermutationAwareSynthesisPass': 'synth'}.get(p, 'util') if not (p == 'MGDPass' and 'twice' in case.get('opts', {}) and 'mq' not in case.get('opts', {})) else 'mgd'
