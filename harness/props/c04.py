"""C04 - Circuit editing calls have their documented effect on program order."""
from __future__ import annotations

import vf
from circ_props import BUILD, run_histories, replay_case

WANT = {'order'}


def classify(f):
    k = f['kind']
    call = f['call'][0]
    if k == 'order':
        return dict(call=call, symptom='order'), f'{call}: per-qudit operation order differs from the plain list-of-cycles reference'
    if k == 'structure_only_changed_program':
        return dict(call=call, symptom='structure-only-changed-program'), f'{call} is structure-only but changed the unfolded program'
    if k == 'fold_accepted_invalid_region':
        return dict(call='fold', symptom='accepted-invalid-region'), ('fold accepted a region the independent convexity test rejects ('
                                                                      + str(f.get('detail')) + '): operations can be reordered')
    if k == 'hang':
        return dict(call=call, symptom='hang'), f'{call} (or reading the circuit after it) does not return: ' + str(f.get('detail'))
    if k == 'iteration_raised':
        return dict(call=call, symptom='iteration-raised'), f'after {call} the circuit can no longer be iterated (program order unreadable): ' + str(f.get('detail'))
    if k == 'oracle_raised':
        return dict(call=call, symptom='oracle-raised'), 'reference oracle raised: ' + str(f.get('detail'))
    return None


def run(ctx: vf.Ctx):
    ctx.uses_translators = set()
    ctx.build(**BUILD)
    ctx.rule = ('random editing histories (1..%d calls, width 1-6, radixes 2/3, gates of arity 1-3 incl. nested CircuitGates, '
                'cycle indices in [-n-2, n+2], ~88%% valid arguments) on the real Circuit; after every call the grid is compared '
                'with the extracted Coq model and the per-qudit timelines with the list-of-cycles reference; '
                'non-trivial = history with at least one successful state-changing call; distinct by seed' % ctx.n(30, 40))
    ctx.assumptions += ['Python object aliasing is not modelled (C16)', 'TypeError paths are outside the generated stream',
                        'fold/straighten/batch_unfold/copy/pickle are checked by the reference oracle only (no Coq model yet)']
    ctx.trusted = ['Coq 8.16.1 kernel', 'ExtrOcamlBasic extraction + coq/extract/circuit_driver.ml',
                   'harness/circ_common.py (snapshot through the public read API, reference semantics)']
    run_histories(ctx, WANT, ctx.n(700, 25000), ctx.n(30, 40), classify)
    fold_stress(ctx)
    inverse_and_unitary(ctx)


def fold_stress(ctx: vf.Ctx):
    """Regions on circuits dense in 2-qudit gates: (a) grown by `surround` (valid), (b) random per-qudit cycle
    intervals, (c) deliberately non-convex (two operations connected through a chain of >= 2 outside operations).
    Oracles: is_valid_region / check_region agree with an independent brute-force convexity test; a fold that returns
    leaves the recursively unfolded per-qudit timelines (and, for small widths, the unitary) unchanged; straighten
    alone keeps every timeline; an invalid region makes fold raise ValueError and leave the circuit alone.
    Every case is also run through the extracted model of fold / check_region (coq/circuit/CFold.v)."""
    import numpy as np
    import circ_common as cc
    from bqskit.ir.region import CircuitRegion
    rng = ctx.rng
    n_reg = ctx.n(320, 6000)
    two = [g for g, gt in cc.GATES.items() if gt.num_qudits == 2 and gt.radixes == (2, 2)]
    one = [g for g, gt in cc.GATES.items() if gt.num_qudits == 1 and gt.radixes == (2,)]
    lines, cases = [], []
    for t in range(n_reg):
        n = rng.randint(4, 6)
        c = cc.Circuit(n)
        for _ in range(rng.randint(8, 26)):
            if rng.random() < 0.8:
                g = rng.choice(two)
                loc = tuple(rng.sample(range(n), 2))
            else:
                g = rng.choice(one)
                loc = (rng.randrange(n),)
            c.append(cc.op_from_snap((0, g, loc, cc.rand_params(rng, cc.GATES[g].num_params), tuple(cc.GATES[g].radixes), ())))
        pre = cc.snap(c)
        kind = rng.choice(['surround', 'random', 'nonconvex', 'nonconvex'])
        region = None
        if kind == 'surround':
            call = cc.gen_fold(rng, c, cc.existing_points(c), True)
            region = call[1] if call[0] == 'fold' else None
        elif kind == 'nonconvex':
            region = cc.nonconvex_region(rng, pre)
        if region is None:
            kind = 'random'
            qs = rng.sample(range(n), rng.randint(2, 3))
            reg = []
            for q in qs:
                a = rng.randint(0, c.num_cycles - 1)
                reg.append((q, (a, rng.randint(a, min(c.num_cycles - 1, a + rng.randint(0, 5))))))
            region = tuple(sorted(reg))
        ctx.count('fold_stress:' + kind)
        verdict = cc.region_verdict(pre, region)
        ctx.count('fold_stress_verdict:' + verdict)
        call = ('fold', region)
        case = dict(kind='circuit-history', pre=pre, call=call)
        ctx.case(('fold_stress', pre, region))
        # (1) check_region's verdict
        try:
            accepted = c.is_valid_region(CircuitRegion({q: iv for q, iv in region}))
        except Exception as e:
            accepted = 'raised ' + type(e).__name__
        if accepted != (verdict == 'ok'):
            ctx.violation(dict(call='check_region', symptom='verdict'), case, f'brute-force convexity test: {verdict}',
                          f'is_valid_region: {accepted}', 'check_region disagrees with the independent convexity test')
        # (2) straighten keeps every timeline
        d = c.copy()
        try:
            d.straighten(CircuitRegion({q: iv for q, iv in region}))
            if cc.TL(cc.snap(d)) != cc.TL(pre):
                ctx.violation(dict(call='straighten', symptom='order'), case, cc.TL(pre), cc.TL(cc.snap(d)), 'straighten changed a timeline')
        except ValueError:
            pass
        except Exception as e:
            ctx.violation(dict(call='straighten', symptom='internal-error'), case, 'ValueError or success', repr(e)[:200], 'straighten failed with an internal error')
        # (3) fold
        U = c.get_unitary() if n <= 5 else None
        out = cc.apply_impl(c, call)
        post = cc.snap(c)
        if out.kind == 'E':
            if out.val.startswith('Internal'):
                ctx.violation(dict(call='fold', symptom='internal-error'), case, 'ValueError or success', out.val, 'fold failed with an internal error')
            elif post != pre:
                ctx.violation(dict(call='fold', symptom='error-changed-circuit'), case, pre, post, 'fold raised but changed the circuit')
        else:
            if verdict != 'ok':
                sig, what = classify(dict(kind='fold_accepted_invalid_region', call=call, detail=verdict))
                ctx.violation(sig, case, 'ValueError', post, what)
            if cc.UTL(pre) != cc.UTL(post):
                sig, what = classify(dict(kind='structure_only_changed_program', call=call))
                ctx.violation(sig, case, cc.UTL(pre), cc.UTL(post), what)
            elif U is not None and not np.allclose(c.get_unitary(), U, atol=1e-9):
                ctx.violation(dict(call='fold', symptom='unitary-changed'), case, 'same unitary', 'different', 'fold changed the unitary')
        lines += ['set ' + cc.fmt(pre), 'check_region ' + cc.fmt(region), 'set ' + cc.fmt(pre), 'fold ' + cc.fmt(region)]
        cases.append((case, '1' if accepted is True else '0', f'{out} | {cc.fmt(post)}'))
    got = vf.run_model('circuit', lines)
    bad = 0
    for j, (case, acc, impl) in enumerate(cases):
        if got[4 * j + 1] != acc or got[4 * j + 3] != impl:
            bad += 1
            ctx.mismatch('coq/circuit/CFold.v vs Circuit.fold/check_region (fold_stress)', jsonable_case(case),
                         (got[4 * j + 1] + ' ; ' + got[4 * j + 3])[:2000], (acc + ' ; ' + impl)[:2000])
    ctx.cov['fold_stress_regions'] = len(cases)
    ctx.cov['fold_stress_model_disagreements'] = bad


def jsonable_case(x):
    import json
    return json.loads(json.dumps(x, default=str))


def inverse_and_unitary(ctx: vf.Ctx):
    """Numerical support for the `therefore the same unitary` clauses: structure-only calls keep the unitary,
    renumbering conjugates it, inverse composes to the identity."""
    import numpy as np
    import circ_common as cc
    from bqskit.qis.permutation import PermutationMatrix
    rng = ctx.rng
    n_cases = ctx.n(60, 600)
    for t in range(n_cases):
        n = rng.randint(1, 4)
        rads = tuple(rng.choice([2, 2, 3]) for _ in range(n))
        c = cc.Circuit(n, list(rads))
        for _ in range(rng.randint(1, 8)):
            c.append(cc.op_from_snap(cc.rand_op(rng, n, rads)))
        # parameters must be real angles: the integer tags are fine
        U = c.get_unitary()
        ctx.case(('unitary', t, cc.snap(c)))
        inv = c.get_inverse()
        d = c.copy()
        d.append_circuit(inv, list(range(n)))
        if not np.allclose(d.get_unitary(), np.eye(U.shape[0]), atol=1e-9):
            ctx.violation(dict(call='get_inverse', symptom='not-inverse'), dict(circuit=cc.snap(c)), 'identity', 'not identity', 'circuit followed by its inverse is not the identity')
        if n >= 2 and len(set(rads)) == 1:
            perm = list(range(n))
            rng.shuffle(perm)
            e = c.copy()
            e.renumber_qudits(perm)
            # qudit i moves to perm[i]: U' = P U P^dagger with P moving factor i to position perm[i]
            inv_perm = [perm.index(i) for i in range(n)]
            P = PermutationMatrix.from_qudit_location(n, rads[0], inv_perm).numpy
            if not np.allclose(e.get_unitary(), P @ U.numpy @ P.conj().T, atol=1e-9):
                ctx.violation(dict(call='renumber_qudits', symptom='not-conjugation'), dict(circuit=cc.snap(c), perm=perm), 'P U P^dagger', 'different', 'renumbering is not conjugation by the qudit permutation')
        if n >= 2 and c.num_operations >= 2:
            e = c.copy()
            try:
                pts = [(cy, op.location[0]) for cy, op in e.operations_with_cycles()][:2]
                region = e.get_region(pts)
                e.fold(region)
                if not np.allclose(e.get_unitary(), U, atol=1e-9):
                    ctx.violation(dict(call='fold', symptom='unitary-changed'), dict(circuit=cc.snap(c)), 'same unitary', 'different', 'fold changed the unitary')
                e.unfold_all()
                e.compress()
                if not np.allclose(e.get_unitary(), U, atol=1e-9):
                    ctx.violation(dict(call='unfold_all/compress', symptom='unitary-changed'), dict(circuit=cc.snap(c)), 'same unitary', 'different', 'unfold_all/compress changed the unitary')
            except ValueError:
                pass


def replay(ctx: vf.Ctx, data):
    replay_case(ctx, data, WANT, classify)
