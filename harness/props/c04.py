"""C04 - Circuit editing calls have their documented effect on program order."""
from __future__ import annotations

import vf
from circ_props import BUILD as _BUILD, run_histories, replay_case, fold_stress

# the shared circuit model + the C04 extensions (coq/circuit/CExt.v: unfold_all fixpoint, fold tail)
BUILD = dict(_BUILD, extracted=list(_BUILD['extracted']) + ['c04x'])

WANT = {'order'}


def classify(f):
    k = f['kind']
    call = f['call'][0]
    if k == 'order':
        return dict(call=call, symptom='order'), f'{call}: per-qudit operation order differs from the plain list-of-cycles reference'
    if k == 'structure_only_changed_program':
        return dict(call=call, symptom='structure-only-changed-program'), f'{call} is structure-only but changed the unfolded program'
    if k == 'fold_accepted_invalid_region':
        return dict(call='fold', symptom='accepted-invalid-region'), ('fold accepted a region the independent convexity test rejects ('
                                                                      + str(f.get('detail')) + '): operations can be reordered')
    if k == 'hang':
        return dict(call=call, symptom='hang'), f'{call} (or reading the circuit after it) does not return: ' + str(f.get('detail'))
    if k == 'iteration_raised':
        return dict(call=call, symptom='iteration-raised'), f'after {call} the circuit can no longer be iterated (program order unreadable): ' + str(f.get('detail'))
    if k == 'oracle_raised':
        return dict(call=call, symptom='oracle-raised'), 'reference oracle raised: ' + str(f.get('detail'))
    return None


def run(ctx: vf.Ctx):
    ctx.uses_translators = set()
    ctx.build(props=["C04", "SameUnitary"] if (vf.COQ / "props" / "SameUnitary.v").exists() else ["C04"], **BUILD)
    ctx.rule = ('random editing histories (1..%d calls, width 1-6, radixes 2/3, gates of arity 1-3 incl. nested CircuitGates, '
                'cycle indices in [-n-2, n+2], ~88%% valid arguments) on the real Circuit; after every call the grid is compared '
                'with the extracted Coq model (fold included) and the per-qudit timelines with the list-of-cycles reference; plus a '
                'fold-stress stream (dense 2-qudit circuits; surround / random / staggered / deliberately non-convex regions) judged by a '
                'brute-force convexity test and timeline / unitary preservation; '
                'non-trivial = history with at least one successful state-changing call; distinct by seed' % ctx.n(30, 40))
    ctx.assumptions += ['Python object aliasing is not modelled (C16)', 'TypeError paths are outside the generated stream',
                        'batch_unfold/copy/pickle/get_region/surround are checked by the reference oracle only (no Coq model)',
                        'fold is modelled (coq/circuit/CFold.v) and compared on every call; proved: fold = straighten ; fold_tail and the tail as a whole '
                        'under tail_ok (evaluated on every real straightened state); straighten as a whole is partial']
    ctx.trusted = ['Coq 8.16.1 kernel', 'ExtrOcamlBasic extraction + coq/extract/circuit_driver.ml + c04x_driver.ml',
                   'harness/circ_common.py (snapshot through the public read API, reference semantics)']
    run_histories(ctx, WANT, ctx.n(700, 25000), ctx.n(30, 40), classify)
    fold_stress(ctx, WANT, classify)
    ctx.cov['calls_with_timeline_theorem'] = ['append', 'extend', 'append_circuit', 'insert', 'insert_circuit', 'pop', 'batch_pop',
                                            'replace', 'replace_with_circuit', 'unfold', 'compress', 'append_qudit', 'insert_qudit',
                                            'pop_qudit', 'renumber', 'clear', 'add', 'iadd', 'mul', 'imul', 'unfold_all (one pass)']
    import c04_ext
    c04_ext.run(ctx)
    ctx.cov['calls_with_timeline_theorem'] += ['unfold_all (fixpoint, fuel excluded)', 'fold tail: batch_pop + insert_circuit as a gate']
    ctx.cov['calls_correspondence_only'] = ['batch_replace', 'fold: straighten as a whole and tail_ok from check_region (partial lemmas)']
    ctx.cov['calls_oracle_only'] = ['batch_unfold', 'copy', 'pickle']
    inverse_and_unitary(ctx)


def inverse_and_unitary(ctx: vf.Ctx):
    import circ_run as cr
    rng = ctx.rng
    for t in range(ctx.n(60, 600)):
        try:
            with cr.watchdog(60):
                _inverse_and_unitary_case(ctx, rng, t)
        except cr.HistoryTimeout:
            ctx.violation(dict(call='get_inverse/fold/renumber', symptom='hang'), dict(case=t), 'returns', 'no return within 60s', 'numerical pass: a call does not return')


def _inverse_and_unitary_case(ctx: vf.Ctx, rng, t):
    """Numerical support for the `therefore the same unitary` clauses: structure-only calls keep the unitary,
    renumbering conjugates it, inverse composes to the identity."""
    import numpy as np
    import circ_common as cc
    from bqskit.qis.permutation import PermutationMatrix
    if True:
        n = rng.randint(1, 4)
        rads = tuple(rng.choice([2, 2, 3]) for _ in range(n))
        c = cc.Circuit(n, list(rads))
        for _ in range(rng.randint(1, 8)):
            if rng.random() < 0.3:
                # a (possibly nested) CircuitGate with its own distinct parameters: inverse, fold/unfold and
                # renumbering must treat blocks like any other operation
                k = rng.randint(1, min(n, 3))
                loc = sorted(rng.sample(range(n), k))
                sub = cc.rand_sub(rng, tuple(rads[q] for q in loc), 0 if rng.random() < 0.5 else 1, 4)
                c.append_circuit(cc.circ_from_snap(sub), loc, True)
            else:
                c.append(cc.op_from_snap(cc.rand_op(rng, n, rads)))
        # parameters must be real angles: the integer tags are fine
        U = c.get_unitary()
        ctx.case(('unitary', t, cc.snap(c)))
        inv = c.get_inverse()
        d = c.copy()
        d.append_circuit(inv, list(range(n)))
        if not np.allclose(d.get_unitary(), np.eye(U.shape[0]), atol=1e-9):
            ctx.violation(dict(call='get_inverse', symptom='not-inverse'), dict(circuit=cc.snap(c)), 'identity', 'not identity', 'circuit followed by its inverse is not the identity')
        if n >= 2 and len(set(rads)) == 1:
            perm = list(range(n))
            rng.shuffle(perm)
            e = c.copy()
            e.renumber_qudits(perm)
            # qudit i moves to perm[i]: U' = P U P^dagger with P moving factor i to position perm[i]
            inv_perm = [perm.index(i) for i in range(n)]
            P = PermutationMatrix.from_qudit_location(n, rads[0], inv_perm).numpy
            if not np.allclose(e.get_unitary(), P @ U.numpy @ P.conj().T, atol=1e-9):
                ctx.violation(dict(call='renumber_qudits', symptom='not-conjugation'), dict(circuit=cc.snap(c), perm=perm), 'P U P^dagger', 'different', 'renumbering is not conjugation by the qudit permutation')
        if n >= 2 and c.num_operations >= 2:
            e = c.copy()
            try:
                pts = [(cy, op.location[0]) for cy, op in e.operations_with_cycles()][:2]
                region = e.get_region(pts)
                e.fold(region)
                if not np.allclose(e.get_unitary(), U, atol=1e-9):
                    ctx.violation(dict(call='fold', symptom='unitary-changed'), dict(circuit=cc.snap(c)), 'same unitary', 'different', 'fold changed the unitary')
                e.unfold_all()
                e.compress()
                if not np.allclose(e.get_unitary(), U, atol=1e-9):
                    ctx.violation(dict(call='unfold_all/compress', symptom='unitary-changed'), dict(circuit=cc.snap(c)), 'same unitary', 'different', 'unfold_all/compress changed the unitary')
            except ValueError:
                pass


def replay(ctx: vf.Ctx, data):
    replay_case(ctx, data, WANT, classify)
