"""C11 - block-wise and control-flow passes apply bodies exactly as specified
(+ the PassData/Circuit field half of C16: copy/become total in every field).

Tie to /repo, checked on every run:
  (a) translator harness/gen/gen_fields.py -> coq/gen/{PassDataFields,CircuitFields}.v
      (records + copy/become/update/clear/update_error_mul generated from the method bodies);
      the generated verdict is cross-checked against a live probe of the real classes.
  (b) correspondence: the extracted models (coq/ctl/ForEach.v, coq/ctl/Control.v, run with
      the GENERATED copy/become) are fed the same scripted scenarios as the real control
      passes: instrumented bodies (harness/c11_passes.py), scripted predicates/conditions,
      nestings to depth 3; direct `asyncio.run(pass.run(circuit, data))` where no runtime is
      needed, one shared `Compiler(num_workers=2)` for ForEachBlockPass / ParallelDo.
      Compared: execution traces (per parallel context), resulting circuits, data fields
      (placement, both mappings, error, seed, model, user keys), block data of ForEach.
  (c) property oracle on the implementation, independent of the model: body ran once per
      selected block on exactly its operations; accepted results written at the originals'
      positions, everything else untouched; reported error = update_error_mul of the accepted
      errors and >= the actual distance up to the second-order term; a rejected top-level
      DoThenDecide leaves circuit AND data (incl. mappings) unchanged; the numeric validity of
      the metric hypotheses of C11_error_bound for get_distance_from.
"""
from __future__ import annotations

import asyncio
import importlib.util
import json
import os
import shutil
import tempfile
import time
import warnings
from fractions import Fraction
from pathlib import Path

import vf

BUILD = dict(extracted=['ctl'], translators={'gen_fields'}, props=['C11', 'C16pd'])
FUEL = 80
D3_FIELDS = {'_initial_mapping', '_final_mapping'}
PUB = {'_initial_mapping': 'initial_mapping', '_final_mapping': 'final_mapping', '_placement': 'placement',
       '_error': 'error', '_seed': 'seed', '_model': 'model', '_data': 'keys', '_target': 'target'}


# ------------------------------------------------------------------------------------------
# small helpers
# ------------------------------------------------------------------------------------------
def fmt(x) -> str:
    if isinstance(x, (list, tuple)):
        return '[' + ' '.join(fmt(y) for y in x) + ']'
    if isinstance(x, bool):
        return '1' if x else '0'
    if x is None:
        return 'N'
    return str(x)


def parse(s: str):
    """inverse of the driver's `show`: ints, atoms, nested lists"""
    toks = s.replace('[', ' [ ').replace(']', ' ] ').split()
    pos = 0

    def item():
        nonlocal pos
        t = toks[pos]
        pos += 1
        if t == '[':
            out = []
            while toks[pos] != ']':
                out.append(item())
            pos += 1
            return out
        try:
            return int(t)
        except ValueError:
            return t
    out = []
    while pos < len(toks):
        out.append(item())
    return out[0] if len(out) == 1 else out


def qval(v):
    """model rational: [n d] (exact) or [F x]"""
    if isinstance(v, list) and len(v) == 2 and v[0] == 'F':
        return float(v[1])
    return Fraction(v[0], v[1])


def proj_canon(width: int, ops: list) -> list:
    """per-qudit projections: canonical form of an operation list up to commuting
    operations on disjoint qudits (lib/Trace.v: equal projections => equivalent)"""
    return [[[g, list(loc)] for g, loc in ops if q in loc] for q in range(width)]


def load_gen():
    p = vf.ROOT / 'harness' / 'gen' / 'gen_fields.py'
    spec = importlib.util.spec_from_file_location('c11_gen_fields', p)
    mod = importlib.util.module_from_spec(spec)
    spec.loader.exec_module(mod)
    return mod


# ------------------------------------------------------------------------------------------
# 1. fields: translator verdict vs live classes; D3 reproduction
# ------------------------------------------------------------------------------------------
def live_missing(make, fields_hint=None):
    """fill every attribute of a source object with a distinct sentinel, call
    receiver.become(source) / source.copy(), report the attributes that did not arrive"""
    out = {}
    for what in ('become_shallow', 'become_deep', 'copy'):
        recv, src = make(), make()
        names = list(vars(src))
        for f in names:
            src.__dict__[f] = 'sentinel:' + f
        try:
            if what == 'copy':
                got = src.copy()
            else:
                recv.become(src, what == 'become_deep')
                got = recv
            out[what] = [f for f in names if got.__dict__.get(f) != 'sentinel:' + f]
        except Exception as e:   # sentinel values rejected by a constructor in copy(): use real values
            out[what] = 'ERR ' + type(e).__name__
    return out


def check_fields(ctx, an):
    from bqskit.compiler.passdata import PassData
    from bqskit.ir.circuit import Circuit
    import c11_passes as P

    def mk_pd():
        return PassData(Circuit(2))

    def mk_c():
        c = Circuit(2)
        c.append_gate(P.CATALOGUE[3][0], (0, 1))
        return c

    lm = live_missing(mk_pd)
    ctx.case(('fields', 'PassData'), nontrivial=True)
    ctx.count('field_probe')
    missing = []
    for k in ('become_shallow', 'become_deep'):
        if isinstance(lm[k], list):
            missing += [f for f in lm[k] if f not in missing]
    order = an['PassData']['fields'] if an else sorted(missing)
    missing = [f for f in order if f in missing] + [f for f in missing if f not in order]
    if an is not None and set(missing) != set(an['PassData']['become_missing']):
        ctx.broken_obligation('translator gen_fields disagrees with the live PassData.become',
                              f'translator: {an["PassData"]["become_missing"]} live probe: {missing}')
    if missing:
        # reproduce through the public API where the field has a property
        src, recv = mk_pd(), mk_pd()
        seen = {}
        for f in missing:
            pub = PUB.get(f)
            if pub in ('initial_mapping', 'final_mapping', 'placement'):
                setattr(src, pub, [1, 0])
                seen[f] = None
            else:
                src.__dict__[f] = 'sentinel:' + f
        recv.become(src)
        for f in missing:
            seen[f] = repr(recv.__dict__.get(f))
        ctx.violation(
            dict(call='PassData.become', missing=','.join(missing)),
            dict(kind='become', cls='PassData', fields=missing),
            'after x.become(y) every field assigned in __init__ equals the field of y',
            dict(receiver_after=seen, source={f: repr(src.__dict__.get(f)) for f in missing}),
            'PassData.become does not copy ' + ', '.join(missing)
            + ' (rejected DoThenDecide / ParallelDo adoption leave stale qudit mappings)',
            corr='C16_passdata_become_verdict / C11_rejected_restores_generated_verdict',
        )
    if isinstance(lm['copy'], list) and lm['copy']:
        ctx.violation(dict(call='PassData.copy', missing=','.join(lm['copy'])),
                      dict(kind='copy', cls='PassData', fields=lm['copy']),
                      'copy() equal to the original in every field', lm['copy'], 'PassData.copy drops fields')
    # Circuit: become with real values (copy() constructs, so sentinels would be rejected)
    ctx.case(('fields', 'Circuit'), nontrivial=True)
    for deep in (True, False):
        a, b = Circuit(3, [2, 3, 2]), mk_c()
        a.become(b, deep)
        bad = [f for f in vars(b) if a.__dict__.get(f) != b.__dict__[f]]
        bad += [f for f in vars(a) if f not in vars(b)]
        if bad:
            ctx.violation(dict(call='Circuit.become', missing=','.join(sorted(bad))),
                          dict(kind='become', cls='Circuit', deep=deep, fields=bad),
                          'every field equal to the source', bad, 'Circuit.become drops fields')
    b = mk_c()
    cp = b.copy()
    bad = [f for f in vars(b) if cp.__dict__.get(f) != b.__dict__[f]]
    if bad:
        ctx.violation(dict(call='Circuit.copy', missing=','.join(sorted(bad))),
                      dict(kind='copy', cls='Circuit', fields=bad),
                      'every field equal to the original', bad, 'Circuit.copy drops fields')
    if an is not None:
        lv = set(vars(mk_c()))
        if lv != set(an['Circuit']['fields']):
            ctx.broken_obligation('translator gen_fields: Circuit field list differs from the live object',
                                  f'{sorted(lv)} vs {an["Circuit"]["fields"]}')
        lv = set(vars(mk_pd()))
        if lv != set(an['PassData']['fields']):
            ctx.broken_obligation('translator gen_fields: PassData field list differs from the live object',
                                  f'{sorted(lv)} vs {an["PassData"]["fields"]}')
    return missing


# ------------------------------------------------------------------------------------------
# 2. numeric validation of the metric hypotheses of C11_error_bound
# ------------------------------------------------------------------------------------------
def check_metric(ctx):
    import numpy as np
    from bqskit.qis.unitary.unitarymatrix import UnitaryMatrix
    rs = np.random.RandomState(ctx.rng.randrange(2 ** 31))
    tol = 2e-7    # sqrt(1 - x^2) near x = 1 carries ~1e-8 of rounding

    def d(a, b):
        return UnitaryMatrix(a, check_arguments=False).get_distance_from(UnitaryMatrix(b, check_arguments=False))

    def near(u, eps):
        h = rs.randn(*u.shape) + 1j * rs.randn(*u.shape)
        h = (h + h.conj().T) / 2
        w, v = np.linalg.eigh(h)
        return u @ (v @ np.diag(np.exp(1j * eps * w)) @ v.conj().T)

    for i in range(ctx.n(24, 200)):
        n = rs.choice([2, 4])
        A = UnitaryMatrix.random(int(np.log2(n))).numpy
        B = near(A, rs.choice([1e-3, 0.05, 1.0]))
        C = near(B, rs.choice([1e-3, 0.05, 1.0]))
        W = UnitaryMatrix.random(int(np.log2(n))).numpy
        eye = np.eye(2)
        checks = {
            'left_invariance': abs(d(W @ A, W @ B) - d(A, B)),
            'right_invariance': abs(d(A @ W, B @ W) - d(A, B)),
            'embedding': max(abs(d(np.kron(A, eye), np.kron(B, eye)) - d(A, B)),
                             abs(d(np.kron(eye, A), np.kron(eye, B)) - d(A, B))),
            'triangle': max(0.0, d(A, C) - d(A, B) - d(B, C)),
            'refl': d(A, A),
        }
        ctx.case(('metric', i), nontrivial=True)
        ctx.count('metric_samples')
        for k, v in checks.items():
            if v > tol:
                ctx.violation(dict(call='UnitaryMatrix.get_distance_from', symptom=k), dict(kind='metric', dim=int(n)),
                              'hypothesis of C11_error_bound holds numerically', float(v),
                              f'metric hypothesis {k} fails for get_distance_from')


# ------------------------------------------------------------------------------------------
# 2b. Circuit.batch_replace / replace against the list-level model (in-process, no runtime)
# ------------------------------------------------------------------------------------------
def check_batch_replace(ctx):
    import c11_passes as P
    from bqskit.ir.circuit import Circuit
    from bqskit.ir.gates import CircuitGate
    from bqskit.ir.operation import Operation
    rng = ctx.rng
    lines, keep = [], []
    for i in range(ctx.n(150, 2000)):
        nq = rng.choice([2, 3, 3, 4, 5])
        circuit = Circuit(nq)
        for _ in range(rng.randrange(1, 10)):
            if rng.random() < 0.6:
                w = min(nq, rng.choice([1, 2, 2, 3]))
                sub = [[g, rng.sample(range(w), P.ARITY[g])] for g in
                       [rng.choice([x for x, a in P.ARITY.items() if a <= w]) for _ in range(rng.randrange(1, 4))]]
                c = make_circuit(w, sub)
                circuit.append_gate(CircuitGate(c), sorted(rng.sample(range(nq), w)), c.params)
            else:
                g = rng.choice([x for x, a in P.ARITY.items() if a <= nq])
                circuit.append_gate(P.CATALOGUE[g][0], rng.sample(range(nq), P.ARITY[g]), list(P.CATALOGUE[g][1]))
        before = [(int(cy), op) for cy, op in circuit.operations_with_cycles()]
        chosen = [k for k in range(len(before)) if rng.random() < 0.5]
        rng.shuffle(chosen)                       # unsorted points: the stable sort matters
        points, newops, mnew = [], [], []
        malformed = rng.random() < 0.15
        bad_at = rng.randrange(len(chosen)) if malformed and chosen else None
        for j, k in enumerate(chosen):
            cy, op = before[k]
            w = op.num_qudits
            loc = [int(q) for q in op.location]
            if rng.random() < 0.1:
                rng.shuffle(loc)                  # same qudits, another order: the re-keying branch (unmodelled)
            sub = [[g, rng.sample(range(w), P.ARITY[g])] for g in
                   [rng.choice([x for x, a in P.ARITY.items() if a <= w]) for _ in range(rng.randrange(0, 4))]]
            c = make_circuit(w, sub)
            pt = [cy, int(rng.choice(list(op.location)))]
            if j == bad_at:
                kind = rng.choice(['idle', 'range', 'disjoint'])
                if kind == 'range':
                    pt = [circuit.num_cycles + rng.randrange(3), pt[1]]
                elif kind == 'idle':
                    idle = [(cc, q) for cc in range(circuit.num_cycles) for q in range(nq) if circuit.is_point_idle((cc, q))]
                    if idle:
                        pt = list(rng.choice(idle))
                else:
                    others = [q for q in range(nq) if q not in op.location]
                    if len(others) >= w:
                        loc = rng.sample(others, w)
            points.append(pt)
            newops.append(Operation(CircuitGate(c), loc, c.params))
            mnew.append([['C', P.flat_ops(c)], loc])
        ops = [[cy, op_repr(op), [int(q) for q in op.location]] for cy, op in before]
        ncyc = circuit.num_cycles
        try:
            circuit.batch_replace([tuple(p) for p in points], newops)
            got = ['OK', circuit.num_cycles,
                   [[int(cy), op_repr(op), [int(q) for q in op.location]] for cy, op in circuit.operations_with_cycles()]]
        except IndexError:
            got = ['ERR', 'IndexError']
        except ValueError:
            got = ['ERR', 'ValueError']
        case = dict(kind='br', nq=nq, ncyc=ncyc, ops=ops, points=points, newops=mnew)
        ctx.case(('br', i, fmt(ops), fmt(points)), nontrivial=len(chosen) >= 1)
        ctx.count('batch_replace_' + ('malformed' if bad_at is not None else 'valid'))
        lines.append(f'br {ncyc} {fmt(ops)} {fmt(points)} {fmt(mnew)}')
        keep.append((case, got))
    outs = vf.run_model('ctl', lines)
    for (case, got), ln in zip(keep, outs):
        m = parse(ln) if not ln.startswith('EXN') else ['EXN', ln]
        if m[0] == 'ERR' and m[1] == 'Unmodelled':
            ctx.count('batch_replace_unmodelled_branch')
            continue
        if m[0] == 'OK':
            cm = ['OK', m[1], [[cy, canon_gate(g, len(loc)), loc] for cy, g, loc in m[2]]]
            cg = got if got[0] != 'OK' else ['OK', got[1], [[cy, canon_gate(g, len(loc)), loc] for cy, g, loc in got[2]]]
        else:
            cm, cg = m, got
        if cm != cg:
            ctx.violation(dict(call='Circuit.batch_replace', symptom='model-mismatch'), case, cm, cg,
                          'Circuit.batch_replace differs from the positional write-back model', kind='correspondence',
                          corr='C11_batch_replace_positional: coq/ctl/ForEach.v vs bqskit/ir/circuit.py')


# ------------------------------------------------------------------------------------------
# 3. scenario generators
# ------------------------------------------------------------------------------------------
class Gen:
    def __init__(self, rng, nq, allow_par, block=False, allow_raise=True):
        self.rng, self.nq, self.allow_par, self.block, self.allow_raise = rng, nq, allow_par, block, allow_raise
        self.leaves = {}
        self.streams = []
        self.nconds = 0
        self.has_par = False
        self.has_raise = False

    def action(self):
        import c11_passes as P
        r, nq = self.rng, self.nq
        k = r.random()
        if self.block:
            # inside a ForEach body: qudit 0 always exists; wider gates only when every block is wide
            if k < 0.45:
                g = r.choice([1, 2, 5, 6, 7, 10, 11] + ([3, 4] if nq >= 2 else []))
                loc = [0] if P.ARITY[g] == 1 else r.sample(range(nq), 2)
                return ['app', g, loc]
            if k < 0.75:
                return ['rm', r.randrange(nq)]
            if k < 0.80:
                return ['clr']
            if k < 0.92:
                return ['err', r.randrange(0, 17), 64]
            return ['key', r.randrange(4), r.randrange(9)]
        if k < 0.30:
            g = r.choice([g for g, a in P.ARITY.items() if a <= nq])
            return ['app', g, r.sample(range(nq), P.ARITY[g])]
        if k < 0.42:
            return ['rm', r.randrange(nq)]
        if k < 0.45:
            return ['clr']
        if k < 0.55:
            p = list(range(nq)); r.shuffle(p)
            return ['pl', p]
        if k < 0.65:
            p = list(range(nq)); r.shuffle(p)
            return ['im', p]
        if k < 0.75:
            p = list(range(nq)); r.shuffle(p)
            return ['fm', p]
        if k < 0.82:
            return ['err', r.randrange(0, 33), 64]
        if k < 0.88:
            return ['mul', r.randrange(0, 17), 64]
        if k < 0.95:
            return ['key', r.randrange(4), r.randrange(9)]
        if k < 0.975:
            return ['seed', r.randrange(100)]
        return ['model', r.randrange(2)]

    def leaf(self, actions=None):
        lid = len(self.leaves)
        if actions is None:
            actions = [self.action() for _ in range(self.rng.choice([0, 1, 1, 2, 2, 3]))]
            if self.allow_raise and self.rng.random() < 0.012:
                actions.insert(self.rng.randrange(len(actions) + 1), ['raise'])
                self.has_raise = True
        self.leaves[lid] = actions
        return ['L', lid]

    def pred(self):
        r = self.rng
        n = r.choice([0, 1, 1, 2, 2, 3, 4])
        self.streams.append([r.random() < 0.65 for _ in range(n)])
        return len(self.streams) - 1

    def tree(self, depth):
        r = self.rng
        if depth <= 0 or r.random() < 0.22:
            return self.leaf()
        kinds = ['S', 'S', 'I', 'W', 'D', 'T'] + (['P'] if self.allow_par else [])
        k = r.choice(kinds)
        if k == 'S':
            return ['S', [self.tree(depth - 1) for _ in range(r.choice([1, 2, 2, 3]))]]
        if k == 'I':
            q = self.pred()
            t = self.tree(depth - 1)
            return ['I', q, t, self.tree(depth - 1)] if r.random() < 0.6 else ['I', q, t]
        if k == 'W':
            q = self.pred()
            return ['W', q, self.tree(depth - 1)]
        if k == 'D':
            q = self.pred()
            return ['D', q, self.tree(depth - 1)]
        if k == 'T':
            c = 4 * self.nconds + r.choice([0, 0, 1, 2, 3])
            self.nconds += 1
            return ['T', c, self.tree(depth - 1)]
        self.has_par = True
        return ['P', [self.tree(depth - 1) for _ in range(r.choice([1, 2, 2, 3]))], r.randrange(4)]


def depth_of(t):
    k = t[0]
    if k == 'L':
        return 0
    if k == 'S':
        return max([depth_of(x) for x in t[1]] + [0])   # a Workflow is not a control level
    if k == 'I':
        return 1 + max(depth_of(t[2]), depth_of(t[3]) if len(t) > 3 else 0)
    if k in ('W', 'D', 'T'):
        return 1 + depth_of(t[2])
    return 1 + max(depth_of(x) for x in t[1])


def static_ctx(tree):
    """event key -> parallel context (tuple of (par node number, branch)) for trace grouping"""
    out = {}
    counter = [0]

    def walk(t, c):
        k = t[0]
        if k == 'L':
            out[('leaf', t[1])] = c
        elif k == 'S':
            for x in t[1]:
                walk(x, c)
        elif k == 'I':
            out[('pred', t[1])] = c
            walk(t[2], c)
            if len(t) > 3:
                walk(t[3], c)
        elif k in ('W', 'D'):
            out[('pred', t[1])] = c
            walk(t[2], c)
        elif k == 'T':
            out[('cond', t[1])] = c
            walk(t[2], c)
        else:
            me = counter[0]
            counter[0] += 1
            for i, x in enumerate(t[1]):
                walk(x, c + ((me, i),))
    walk(tree, ())
    return out


def gen_control(rng, direct: bool):
    nq = rng.choice([1, 2, 2, 3, 3, 4])
    g = Gen(rng, nq, allow_par=not direct)
    depth = rng.choice([1, 2, 2, 3, 3])
    tree = g.tree(depth)
    if not direct and not g.has_par:
        tree = ['S', [tree, ['P', [g.tree(1), g.tree(1)], rng.randrange(4)]]]
        g.has_par = True
    if tree[0] == 'L':
        tree = ['S', [tree]]
    import c11_passes as P
    ops = []
    for _ in range(rng.randrange(0, 6)):
        gid = rng.choice([x for x, a in P.ARITY.items() if a <= nq])
        ops.append([gid, rng.sample(range(nq), P.ARITY[gid])])
    perm = lambda: rng.sample(range(nq), nq)   # noqa: E731
    data0 = dict(pl=perm() if rng.random() < 0.3 else list(range(nq)),
                 im=perm() if rng.random() < 0.4 else list(range(nq)),
                 fm=perm() if rng.random() < 0.4 else list(range(nq)),
                 err=[rng.choice([0, 0, 1, 4, 8]), 64], seed=None, model=0,
                 keys=[[k, rng.randrange(9)] for k in range(4) if rng.random() < 0.3])
    return dict(kind='ctl', direct=direct, nq=nq, ops=ops, data0=data0, tree=tree,
                leaves={str(k): v for k, v in g.leaves.items()}, streams=[[int(b) for b in s] for s in g.streams],
                has_raise=g.has_raise)


def gen_foreach(rng, force_raise=False):
    import c11_passes as P
    nq = rng.choice([2, 3, 3, 4, 4, 5])
    steps = []
    minw = 9
    nblocks = 0
    for _ in range(rng.randrange(1, 9)):
        if rng.random() < 0.6:
            w = rng.choice([1, 2, 2, 3]) if nq >= 3 else rng.choice([1, 2])
            w = min(w, nq)
            loc = sorted(rng.sample(range(nq), w))
            if rng.random() < 0.08:
                rng.shuffle(loc)          # a block on a non-ascending location
            sub = []
            for _ in range(rng.randrange(1, 6)):
                gid = rng.choice([x for x, a in P.ARITY.items() if a <= w])
                sub.append([gid, rng.sample(range(w), P.ARITY[gid])])
            steps.append(['b', sub, w, loc])
            minw = min(minw, w)
            nblocks += 1
        else:
            gid = rng.choice([x for x, a in P.ARITY.items() if a <= nq])
            steps.append(['g', gid, rng.sample(range(nq), P.ARITY[gid])])
            minw = min(minw, P.ARITY[gid])
    cf = rng.choice(['default', 'default', 'default', 'all', 'wide', 'cg', 'none'])
    if cf in ('all',):
        pass
    ceb = rng.random() < 0.4
    rf = rng.choice(['always', 'always', 'lt', 'multi', 'many', 'r-lt', 'r-multi', 'r-many',
                     'rf-lt', 'rf-multi', 'rf-many', 'parity', 'parity'])
    # body: a control tree over leaves acting inside the block (no ParallelDo inside bodies)
    bw = 1 if cf in ('all', 'default') or minw < 2 else 2
    if cf == 'wide':
        bw = 2
    g = Gen(rng, bw, allow_par=False, block=True, allow_raise=False)
    probe_in = g.leaf([])
    inner = g.tree(rng.choice([0, 1, 1, 2]))
    probe_out = g.leaf([])
    if force_raise:
        inner = ['S', [inner, g.leaf([['raise']])]]
    tree = ['S', [probe_in, inner, probe_out]]
    return dict(kind='fe', nq=nq, steps=steps, cf=cf, rf=rf, ceb=ceb, model=rng.choice([0, 0, 1]),
                gateset=rng.choice(['default', 'cx-h-t-rz', 'all']),
                placement=(rng.sample(range(nq), nq) if rng.random() < 0.15 else list(range(nq))),
                e0=[rng.choice([0, 0, 2, 8]), 64],
                body=dict(tree=tree, leaves={str(k): v for k, v in g.leaves.items()},
                          streams=[[int(b) for b in s] for s in g.streams]),
                has_raise=force_raise)


# ------------------------------------------------------------------------------------------
# 4. running the implementation
# ------------------------------------------------------------------------------------------
def build_pass(t, leaves, streams, tp, see_ids=()):
    import c11_passes as P
    from bqskit.compiler.workflow import Workflow
    from bqskit.passes.control.dothendecide import DoThenDecide
    from bqskit.passes.control.dowhileloop import DoWhileLoopPass
    from bqskit.passes.control.ifthenelse import IfThenElsePass
    from bqskit.passes.control.paralleldo import ParallelDo
    from bqskit.passes.control.whileloop import WhileLoopPass
    k = t[0]
    rec = lambda x: build_pass(x, leaves, streams, tp, see_ids)   # noqa: E731
    if k == 'L':
        return P.ScriptedLeaf(t[1], leaves[str(t[1])], tp, see=t[1] in see_ids)
    if k == 'S':
        return Workflow([rec(x) for x in t[1]])
    if k == 'I':
        return IfThenElsePass(P.ScriptedPredicate(t[1], streams[t[1]], tp), rec(t[2]), rec(t[3]) if len(t) > 3 else None)
    if k == 'W':
        return WhileLoopPass(P.ScriptedPredicate(t[1], streams[t[1]], tp), rec(t[2]))
    if k == 'D':
        return DoWhileLoopPass(P.ScriptedPredicate(t[1], streams[t[1]], tp), rec(t[2]))
    if k == 'T':
        return DoThenDecide(P.Cond(t[1] % 4, t[1], tp), rec(t[2]))
    if k == 'P':
        return ParallelDo([rec(x) for x in t[1]], P.LessThan(t[2]))
    raise ValueError(k)


def make_circuit(nq, ops):
    import c11_passes as P
    from bqskit.ir.circuit import Circuit
    c = Circuit(nq)
    for g, loc in ops:
        gate, params = P.CATALOGUE[g]
        c.append_gate(gate, loc, list(params))
    return c


def read_trace(tp):
    if tp is None:
        import c11_passes as P
        return [list(e) for e in P.TRACE]
    if not os.path.exists(tp):
        return []
    return [json.loads(ln) for ln in open(tp).read().splitlines() if ln.strip()]


def data_view(data, nq):
    import c11_passes as P
    return dict(pl=[int(x) for x in data.placement], im=[int(x) for x in data.initial_mapping],
                fm=[int(x) for x in data.final_mapping], err=float(data.error),
                seed=data.seed, model=P.model_tag(data.model),
                keys=sorted([k, int(data._data[name])] for k, name in P.USER_KEYS.items() if name in data._data))


def free_ports(n):
    import socket
    socks = [socket.socket() for _ in range(n)]
    for sk in socks:
        sk.bind(('localhost', 0))
    ports = [sk.getsockname()[1] for sk in socks]
    for sk in socks:
        sk.close()
    return ports


def make_compiler(num_workers):
    """The real Compiler + attached server + workers, but on free ports: attached servers listen on
    the fixed ports 7472/7474 by default, so concurrent checks on one machine would hijack each
    other's runtime.  Only the launch string changes (AttachedServer already takes `port`)."""
    import subprocess
    import sys
    from bqskit.compiler import Compiler

    class PortCompiler(Compiler):
        def _start_server(self, num_workers, runtime_log_level, worker_port, num_blas_threads):
            params = (f'{num_workers}, log_level={runtime_log_level}, worker_port={worker_port}, '
                      f'num_blas_threads={num_blas_threads}, port={PortCompiler._port}')
            launch = f'from bqskit.runtime.attached import start_attached_server; start_attached_server({params})'
            self.p = subprocess.Popen([sys.executable, '-c', launch])

    port, wport = free_ports(2)
    PortCompiler._port = port
    return PortCompiler(port=port, worker_port=wport, num_workers=num_workers)


class hard_timeout:
    """SIGALRM-based wall-clock limit around runtime calls (a lost worker must not hang the check)"""

    def __init__(self, seconds):
        self.seconds = seconds

    def __enter__(self):
        import signal

        def on_alarm(signum, frame):
            raise TimeoutError(f'runtime call exceeded {self.seconds}s')
        self.old = signal.signal(signal.SIGALRM, on_alarm)
        signal.setitimer(signal.ITIMER_REAL, self.seconds)

    def __exit__(self, *a):
        import signal
        signal.setitimer(signal.ITIMER_REAL, 0)
        signal.signal(signal.SIGALRM, self.old)
        return False


class Runner:
    def __init__(self, tmp):
        self.tmp = tmp
        self.comp = None
        self.compiles = 0

    def compiler(self):
        if self.comp is None:
            from bqskit.passes import NOOPPass
            from bqskit.ir.circuit import Circuit
            with hard_timeout(240):
                self.comp = make_compiler(2)
                ids = [self.comp.submit(Circuit(1), [NOOPPass()]) for _ in range(4)]    # warm both workers
                for i in ids:
                    self.comp.result(i)
        return self.comp

    def drop(self):
        if self.comp is not None:
            try:
                self.comp.close()
            except Exception:
                pass
            self.comp = None

    def close(self):
        self.drop()

    def run_ctl(self, i, sc):
        import c11_passes as P
        from bqskit.compiler.passdata import PassData
        from bqskit.compiler.workflow import Workflow
        circuit = make_circuit(sc['nq'], sc['ops'])
        d0 = sc['data0']
        tp = None if sc['direct'] else os.path.join(self.tmp, f'ctl{i}.trace')
        wf = build_pass(sc['tree'], sc['leaves'], sc['streams'], tp)
        init = dict(placement=d0['pl'], initial_mapping=d0['im'], final_mapping=d0['fm'],
                    error=d0['err'][0] / d0['err'][1], seed=d0['seed'], model=P.models(sc['nq'])[d0['model']])
        for k, v in d0['keys']:
            init[P.USER_KEYS[k]] = v
        status = 'DONE'
        if sc['direct']:
            data = PassData(circuit)
            data.update(init)
            P.TRACE.clear()
            try:
                asyncio.run(Workflow([wf]).run(circuit, data))
            except RuntimeError as e:
                if 'c11 scripted failure' not in str(e):
                    raise
                status = 'RAISED'
            out = circuit
        else:
            try:
                comp = self.compiler()
                with hard_timeout(120):
                    out, data = comp.compile(circuit, [wf], request_data=True, data=init)
                self.compiles += 1
            except RuntimeError:
                status = 'RAISED'
                self.drop()
                out, data = None, None
            except TimeoutError:
                self.drop()
                raise
        res = dict(status=status, trace=read_trace(tp))
        if status == 'DONE':
            res['ops'] = P.flat_ops(out)
            res['data'] = data_view(data, sc['nq'])
        return res

    def run_fe(self, i, sc):
        import c11_passes as P
        from bqskit.compiler.gateset import GateSet
        from bqskit.compiler.machine import MachineModel
        from bqskit.ir.circuit import Circuit
        from bqskit.ir.gates import CircuitGate
        from bqskit.passes.control.foreach import ForEachBlockPass
        from bqskit.qis.graph import CouplingGraph
        nq = sc['nq']
        circuit = Circuit(nq)
        for st in sc['steps']:
            if st[0] == 'g':
                gate, params = P.CATALOGUE[st[1]]
                circuit.append_gate(gate, st[2], list(params))
            else:
                sub = make_circuit(st[2], st[1])
                circuit.append_gate(CircuitGate(sub), st[3], sub.params)
        cg = None if sc['model'] == 0 else CouplingGraph([(a, a + 1) for a in range(nq - 1)], nq)
        gs = {'default': None, 'cx-h-t-rz': GateSet({P.CATALOGUE[k][0] for k in (3, 2, 5, 6)}),
              'all': GateSet({g for g, _ in P.CATALOGUE.values()})}[sc['gateset']]
        mm = MachineModel(nq, cg, gs)
        tp = os.path.join(self.tmp, f'fe{i}.trace')
        b = sc['body']
        nleaf = len(b['leaves'])
        body = build_pass(b['tree'], b['leaves'], b['streams'], tp, see_ids=(0, nleaf - 1 if not sc['has_raise'] else nleaf - 2))
        rf = P.rf_parity if sc['rf'] == 'parity' else RF_NAMES[sc['rf']]
        fe = ForEachBlockPass(body, calculate_error_bound=sc['ceb'], collection_filter=P.COLLECTION_FILTERS[sc['cf']],
                              replace_filter=rf)
        before = [(int(cy), op) for cy, op in circuit.operations_with_cycles()]
        ncyc = circuit.num_cycles
        old_unitary = circuit.get_unitary() if sc['ceb'] else None
        init = dict(model=mm, error=sc['e0'][0] / sc['e0'][1], placement=sc['placement'])
        status = 'DONE'
        try:
            comp = self.compiler()
            with hard_timeout(120):
                out, data = comp.compile(circuit, [fe], request_data=True, data=init)
            self.compiles += 1
        except RuntimeError:
            status = 'RAISED'
            self.drop()
            out, data = None, None
        except TimeoutError:
            self.drop()
            raise
        return dict(status=status, before=before, ncyc=ncyc, mm=mm, out=out, data=data, trace=read_trace(tp),
                    old_unitary=old_unitary)


RF_NAMES = {'always': 'always', 'lt': 'less-than', 'multi': 'less-than-multi', 'many': 'less-than-many',
            'r-lt': 'less-than-respecting', 'r-multi': 'less-than-respecting-multi', 'r-many': 'less-than-respecting-many',
            'rf-lt': 'less-than-respecting-fully', 'rf-multi': 'less-than-respecting-fully-multi',
            'rf-many': 'less-than-respecting-fully-many'}


# ------------------------------------------------------------------------------------------
# 5. comparison: control scenarios
# ------------------------------------------------------------------------------------------
def ctl_line(sc) -> str:
    d0 = sc['data0']
    leaves = [[int(k), v] for k, v in sorted(sc['leaves'].items(), key=lambda kv: int(kv[0]))]
    state = [sc['nq'], [2] * sc['nq'], sc['ops'], d0['pl'], d0['im'], d0['fm'], d0['err'], d0['seed'], d0['model'], d0['keys']]
    return f"ctl {FUEL} {fmt(sc['tree'])} {fmt(leaves)} {fmt(sc['streams'])} {fmt(state)}"


def group_trace(events, sctx, impl: bool):
    """per parallel context: the sequence of (kind, id, value-or-obs)"""
    groups = {}
    for e in events:
        kind, ident = e[0], e[1]
        key = sctx.get((kind, ident), ('?',))
        val = e[2]
        groups.setdefault(str(key), []).append([kind, ident, val])
    return groups


def compare_ctl(ctx, i, sc, impl, mline, missing_fields):
    m = parse(mline) if not mline.startswith('EXN') else ['EXN', mline]
    case = dict(scenario=sc)
    sctx = static_ctx(sc['tree'])
    sig_base = dict(call='control')
    if m[0] == 'FUEL' or m[0] == 'EXN':
        ctx.broken_obligation('C11 control model could not run a scenario', f'{mline[:300]} :: {json.dumps(sc)[:1500]}')
        return
    if (m[0] == 'RAISED') != (impl['status'] == 'RAISED'):
        ctx.violation(dict(sig_base, symptom='raise_mismatch'), case, m[0], impl['status'],
                      'model and implementation disagree on whether the workflow raises', kind='correspondence',
                      corr='coq/ctl/Control.v vs bqskit/passes/control')
        return
    mtrace = m[1] if m[0] == 'RAISED' else m[9]
    mg = group_trace(mtrace, sctx, False)
    ig = group_trace(impl['trace'], sctx, True)
    if m[0] == 'RAISED':
        # sequential prefix semantics only where nothing runs in parallel
        if not any(k != '()' for k in list(mg) + list(ig)) and mg != ig:
            ctx.violation(dict(sig_base, symptom='trace', node=first_diff_node(mg, ig)), case, mg, ig,
                          'execution trace up to the failing body differs', kind='correspondence',
                          corr='coq/ctl/Control.v vs bqskit/passes/control')
        return
    if mg != ig:
        ctx.violation(dict(sig_base, symptom='trace', node=first_diff_node(mg, ig)), case, mg, ig,
                      'bodies/predicates did not run in the order and number the predicate streams dictate',
                      kind='correspondence', corr='C11_control_trace: coq/ctl/Control.v vs bqskit/passes/control')
        return
    # final state
    nq = sc['nq']
    mops = [[o[0], o[1]] for o in m[1]]
    if proj_canon(nq, mops) != proj_canon(nq, impl['ops']):
        ctx.violation(dict(sig_base, symptom='circuit', node=top_kind(sc['tree'])), case, mops, impl['ops'],
                      'resulting circuit differs from the model', kind='correspondence',
                      corr='coq/ctl/Control.v vs bqskit/passes/control')
        return
    d = impl['data']
    mdata = dict(pl=m[2], im=m[3], fm=m[4], err=qval(m[5]), seed=None if m[6] == 'U' else m[6], model=m[7],
                 keys=sorted([kv[0], kv[1]] for kv in m[8]))
    bad = [k for k in ('pl', 'im', 'fm', 'seed', 'model', 'keys') if mdata[k] != d[k]]
    if abs(float(mdata['err']) - d['err']) > 1e-9:
        bad.append('err')
    if bad:
        ctx.violation(dict(sig_base, symptom='data', node=top_kind(sc['tree'])), dict(case, fields=bad),
                      {k: str(mdata[k]) for k in bad}, {k: d[k] for k in bad},
                      'resulting pass data differs from the model', kind='correspondence',
                      corr='coq/ctl/Control.v (generated copy/become) vs bqskit/passes/control')
        return
    # property oracle: a rejected top-level DoThenDecide leaves everything as it was
    t = sc['tree']
    if t[0] == 'S' and len(t[1]) == 1:
        t = t[1][0]
    if t[0] == 'T' and impl['trace'] and impl['trace'][-1][:3] == ['cond', t[1], 0]:
        d0 = sc['data0']
        init = dict(pl=d0['pl'], im=d0['im'], fm=d0['fm'], err=d0['err'][0] / d0['err'][1], seed=d0['seed'],
                    model=d0['model'], keys=sorted(d0['keys']))
        changed = [k for k in init if init[k] != d[k]]
        if proj_canon(nq, sc['ops']) != proj_canon(nq, impl['ops']):
            changed.append('circuit')
        ctx.count('oracle_rejected_dtd')
        if changed:
            priv = {'im': '_initial_mapping', 'fm': '_final_mapping'}
            if all(priv.get(k) in missing_fields for k in changed):
                sig = dict(call='PassData.become', missing=','.join(missing_fields))
            else:
                sig = dict(call='DoThenDecide.run', symptom='not_restored', fields=','.join(sorted(changed)))
            ctx.violation(sig, case, {k: init.get(k) for k in changed}, {k: d.get(k) for k in changed},
                          'a rejected DoThenDecide did not restore ' + ', '.join(changed))


def top_kind(t):
    if t[0] == 'S' and len(t[1]) == 1:
        return top_kind(t[1][0])
    return t[0]


def first_diff_node(mg, ig):
    for k in sorted(set(mg) | set(ig)):
        a, b = mg.get(k, []), ig.get(k, [])
        for x, y in zip(a, b):
            if x != y:
                return f'{x[0]}' if x[:2] == y[:2] else 'order'
        if len(a) != len(b):
            return 'count'
    return 'none'


def shrink_ctl(ctx, sc, missing, budget=60):
    """greedy shrinking of a failing direct control scenario (subtree as root, drop actions,
    drop initial operations, shorten streams); returns (scenario, violation-dict)"""
    def attempt(cand):
        tmp = vf.Ctx(ctx.prop, ctx.tier, 0)
        tmp.known = []
        try:
            r = Runner(None)
            impl = r.run_ctl(0, cand)
            out = vf.run_model('ctl', [ctl_line(cand)])
            compare_ctl(tmp, 0, cand, impl, out[0], missing)
        except Exception:
            return None
        return tmp.violations[0] if tmp.violations else None

    def kids(t):
        k = t[0]
        if k == 'S':
            return list(t[1])
        if k == 'I':
            return [t[2]] + ([t[3]] if len(t) > 3 else [])
        if k in ('W', 'D', 'T'):
            return [t[2]]
        if k == 'P':
            return list(t[1])
        return []

    def candidates(c):
        for sub in kids(c['tree']):
            yield dict(c, tree=sub if sub[0] != 'L' else ['S', [sub]])
        if c['tree'][0] == 'S' and len(c['tree'][1]) > 1:
            for j in range(len(c['tree'][1])):
                yield dict(c, tree=['S', c['tree'][1][:j] + c['tree'][1][j + 1:]])
        for lid, acts in c['leaves'].items():
            for j in range(len(acts)):
                lv = dict(c['leaves'])
                lv[lid] = acts[:j] + acts[j + 1:]
                yield dict(c, leaves=lv)
        for j in range(len(c['ops'])):
            yield dict(c, ops=c['ops'][:j] + c['ops'][j + 1:])
        for j, st in enumerate(c['streams']):
            if st:
                yield dict(c, streams=c['streams'][:j] + [st[:-1]] + c['streams'][j + 1:])

    cur, best = sc, None
    progress = True
    while progress and budget > 0:
        progress = False
        for cand in candidates(cur):
            budget -= 1
            if budget <= 0:
                break
            v = attempt(cand)
            if v is not None:
                cur, best, progress = cand, v, True
                break
    return cur, best


# ------------------------------------------------------------------------------------------
# 6. comparison: ForEach scenarios
# ------------------------------------------------------------------------------------------
def op_repr(op):
    """gate of a main-circuit op in the model's syntax (+ the width of a block)"""
    import c11_passes as P
    from bqskit.ir.gates import CircuitGate
    if isinstance(op.gate, CircuitGate):
        sub = op.gate._circuit.copy()
        sub.set_params(op.params)
        return ['C', P.flat_ops(sub)]
    return ['P', P.intern_op(op)]


def fe_common(sc, impl):
    import c11_passes as P
    before = impl['before']
    ops = [[cy, op_repr(op), [int(q) for q in op.location]] for cy, op in before]
    cf = P.COLLECTION_FILTERS[sc['cf']]
    if cf is None:
        from bqskit.passes.control.foreach import default_collection_filter as cf
    flags = [bool(cf(op)) for _, op in before]
    mm = impl['mm']
    pl = sc['placement']
    phys = {tuple(sorted((int(a), int(b)))) for a, b in mm.coupling_graph}
    edges = sorted([a, b] for a in range(sc['nq']) for b in range(a + 1, sc['nq'])
                   if tuple(sorted((pl[a], pl[b]))) in phys)
    medges = sorted(list(e) for e in phys)
    gs = [k for k, (g, _) in P.CATALOGUE.items() if g in mm.gate_set]
    return ops, flags, edges, medges, gs


def canon_gate(g, width):
    return ['C', proj_canon(width, [[o[0], o[1]] for o in g[1]])] if g[0] == 'C' else ['P', g[1]]


def compare_fe(ctx, i, sc, impl, calls_line, body_lines, fe_line_out, body_results):
    import c11_passes as P
    case = dict(scenario=sc)
    sig = dict(call='ForEachBlockPass.run')
    m = parse(fe_line_out) if not fe_line_out.startswith('EXN') else ['EXN']
    if m[0] == 'EXN':
        ctx.broken_obligation('C11 ForEach model could not run a scenario', fe_line_out[:300] + json.dumps(sc)[:1500])
        return
    if m[0] == 'ERR':
        if impl['status'] != 'RAISED':
            ctx.violation(dict(sig, symptom='raise_mismatch'), case, m, impl['status'],
                          'model says the run fails, the implementation succeeded', kind='correspondence',
                          corr='coq/ctl/ForEach.v vs foreach.py')
        return
    if impl['status'] == 'RAISED':
        ctx.violation(dict(sig, symptom='raise_mismatch'), case, 'OK', 'RAISED',
                      'implementation raised where the model succeeds', kind='correspondence',
                      corr='coq/ctl/ForEach.v vs foreach.py')
        return
    out, data = impl['out'], impl['data']
    nq = sc['nq']
    _, mncyc, mops, merr, mcalls, mflags, mpoints = m
    after = [[int(cy), op_repr(op), [int(q) for q in op.location]] for cy, op in out.operations_with_cycles()]
    width = lambda loc: len(loc)   # noqa: E731
    ca = [[cy, canon_gate(g, width(loc)), loc] for cy, g, loc in after]
    cm = [[cy, canon_gate(g, width(loc)), loc] for cy, g, loc in mops]
    if ca != cm or out.num_cycles != mncyc:
        pos = next((k for k, (x, y) in enumerate(zip(ca, cm)) if x != y), min(len(ca), len(cm)))
        ctx.violation(dict(sig, symptom='circuit'), dict(case, first_diff=pos), cm[pos:pos + 2], ca[pos:pos + 2],
                      'circuit after ForEachBlockPass differs from the model (write-back position / content)',
                      kind='correspondence', corr='C11_foreach_exact: coq/ctl/ForEach.v vs foreach.py + Circuit.batch_replace')
        return
    # block data
    bds = data['ForEachBlockPass_data'][-1] if 'ForEachBlockPass_data' in data else []
    iflags = [bool(bd['replaced']) for bd in bds]
    ipoints = [[int(bd['point'][0]), int(bd['point'][1])] for bd in bds]
    if iflags != [bool(x) for x in mflags] or ipoints != [c[2] for c in mcalls]:
        ctx.violation(dict(sig, symptom='block_data'), case, dict(flags=mflags, points=[c[2] for c in mcalls]),
                      dict(flags=iflags, points=ipoints), 'replaced flags / block points differ from the model',
                      kind='correspondence', corr='coq/ctl/ForEach.v vs foreach.py')
        return
    tol = 3e-6 if sc['ceb'] else 1e-12
    if abs(float(qval(merr)) - float(data.error)) > tol:
        ctx.violation(dict(sig, symptom='error'), case, str(qval(merr)), float(data.error),
                      'reported error differs from update_error_mul(sum of accepted block errors)',
                      kind='correspondence', corr='C11_foreach_exact (fo_error): coq/ctl/ForEach.v vs foreach.py')
        return
    # what each body execution was given (probe leaf 0) vs the model's call list
    probes_in = [e for e in impl['trace'] if e[0] == 'leaf' and e[1] == 0]
    nleaf = len(sc['body']['leaves'])
    probes_out = [e for e in impl['trace'] if e[0] == 'leaf' and e[1] == nleaf - 1]
    by_ctx = {}
    for e in probes_in:
        by_ctx.setdefault(tuple(e[3]), []).append(e)
    for c in mcalls:
        idx, sub, point, numbering, edges, radixes, ceb = c
        got = by_ctx.get(tuple(point), [])
        w = len(numbering)
        ok = (len(got) == 1 and proj_canon(w, got[0][4]) == proj_canon(w, [[o[0], o[1]] for o in sub])
              and got[0][5]['numbering'] == sorted(numbering)
              and got[0][5]['edges'] == sorted(sorted(e) for e in edges)
              and got[0][5]['radixes'] == radixes and got[0][5]['ceb'] == bool(ceb) and got[0][5]['width'] == w)
        if not ok:
            ctx.violation(dict(sig, symptom='body_input'), dict(case, block=idx), c, got,
                          'the body was not run exactly once on this block with the modelled block data',
                          kind='correspondence', corr='C11_foreach_body_once_per_block: coq/ctl/ForEach.v vs foreach.py')
            return
    if len(probes_in) != len(mcalls):
        ctx.violation(dict(sig, symptom='body_count'), case, len(mcalls), len(probes_in),
                      'number of body executions differs from the number of selected blocks')
        return
    # body-internal traces per block: model (ctl runs) vs implementation
    sctx = static_ctx(sc['body']['tree'])
    for c, bl in zip(mcalls, body_lines):
        bm = parse(bl)
        if bm[0] != 'DONE':
            continue
        point = c[2]
        mine = [[e[0], e[1], e[2]] for e in bm[9] if e[0] != 'cond']
        theirs = [[e[0], e[1], e[2]] for e in impl['trace'] if e[0] != 'cond' and e[3] == point]
        if mine != theirs:
            ctx.violation(dict(sig, symptom='body_trace'), dict(case, block=c[0]), mine, theirs,
                          'execution trace inside a block body differs from the model', kind='correspondence',
                          corr='C11_control_trace inside ForEach bodies')
            return
    mconds = sorted([e[1], e[2]] for bl in body_lines for e in (parse(bl)[9] if bl.startswith('[DONE') else []) if e[0] == 'cond')
    iconds = sorted([e[1], e[2]] for e in impl['trace'] if e[0] == 'cond')
    if mconds != iconds:
        ctx.violation(dict(sig, symptom='body_trace'), case, mconds, iconds, 'DoThenDecide decisions inside bodies differ',
                      kind='correspondence', corr='C11_control_trace inside ForEach bodies')
        return

    # ---------------- property oracle, independent of the model ----------------
    before = impl['before']
    cf = P.COLLECTION_FILTERS[sc['cf']]
    if cf is None:
        from bqskit.passes.control.foreach import default_collection_filter as cf
    sel = [k for k, (_, op) in enumerate(before) if cf(op)]
    after_ops = [(int(cy), op) for cy, op in out.operations_with_cycles()]
    fail = None
    if len(after_ops) != len(before) or out.num_cycles != impl['ncyc']:
        fail = ('shape', len(before), len(after_ops))
    elif len(bds) != len(sel):
        fail = ('blocks', len(sel), len(bds))
    else:
        outs = {}
        for e in probes_out:
            outs.setdefault(tuple(e[3]), []).append(e[4])
        for j, k in enumerate(sel):
            cy, op = before[k]
            pt = (cy, int(op.location[0]))
            given = by_ctx.get(pt, [])
            w = op.num_qudits
            if len(given) != 1 or proj_canon(w, given[0][4]) != proj_canon(w, op_repr(op)[1] if op_repr(op)[0] == 'C' else [[P.intern_op(op), list(range(w))]]):
                fail = ('body_not_once_on_block', k, given)
                break
            ncy, nop = after_ops[k]
            if iflags[j]:
                produced = outs.get(pt, [None])[-1]
                r = op_repr(nop)
                if ncy != cy or nop.location != op.location or r[0] != 'C' or produced is None \
                        or proj_canon(w, r[1]) != proj_canon(w, produced):
                    fail = ('accepted_not_written_at_position', k, r)
                    break
            elif (ncy, nop) != (cy, op):
                fail = ('rejected_block_changed', k, op_repr(nop))
                break
        if fail is None:
            for k, (cy, op) in enumerate(before):
                if k not in sel and after_ops[k] != (cy, op):
                    fail = ('unselected_operation_changed', k, op_repr(after_ops[k][1]))
                    break
    if fail is not None:
        ctx.violation(dict(sig, symptom='oracle_' + fail[0]), case, 'see C11 statement', list(map(str, fail)),
                      'ForEachBlockPass result violates the block-wise specification: ' + fail[0])
        return
    ctx.count('oracle_foreach_ok')
    # error: reference recomputation + soundness of the bound
    e0 = sc['e0'][0] / sc['e0'][1]
    s = 0.0
    for bd, fl in zip(bds, iflags):
        if fl:
            s += float(bd.error)
    ref = 1 - (1 - e0) * (1 - s) if sel else e0
    if abs(ref - float(data.error)) > 1e-12:
        ctx.violation(dict(sig, symptom='oracle_error_sum'), case, ref, float(data.error),
                      'reported error is not update_error_mul(e0, sum of the ACCEPTED block errors)')
        return
    if sc['ceb']:
        actual = out.get_unitary().get_distance_from(impl['old_unitary'])
        ctx.count('oracle_error_bound')
        # sound margin: second-order term e0*s plus sqrt-rounding of the distance near 0
        if actual > float(data.error) - e0 + e0 * s + 5e-7 * (1 + len(sel)) or float(data.error) < max(e0, min(s, 1.0)) - 1e-12:
            ctx.violation(dict(sig, symptom='oracle_error_bound'), case, f'<= {float(data.error)} (+ second order)', actual,
                          'reported error bound is smaller than the distance actually introduced')
            return
        ctx.cov['max_actual_over_reported'] = max(ctx.cov.get('max_actual_over_reported', 0.0),
                                                  actual / data.error if data.error > 1e-9 else 0.0)


# ------------------------------------------------------------------------------------------
# run
# ------------------------------------------------------------------------------------------
def run_scenarios(ctx, scs, missing):
    """implementation first (ForEach needs observed block errors when calculate_error_bound),
    then the model in three batches"""
    tmp = tempfile.mkdtemp(prefix='c11-')
    runner = Runner(tmp)
    impls = []
    t0 = time.time()
    try:
        for i, sc in enumerate(scs):
            try:
                impls.append(runner.run_ctl(i, sc) if sc['kind'] == 'ctl' else runner.run_fe(i, sc))
            except Exception as e:  # machinery, not a scripted failure
                impls.append(dict(status='CRASH', error=repr(e)))
                ctx.broken_obligation('C11 implementation runner crashed', repr(e) + json.dumps(sc)[:1500])
    finally:
        runner.close()
        shutil.rmtree(tmp, ignore_errors=True)
    ctx.cov['impl_seconds'] = round(time.time() - t0, 1)
    ctx.cov['compiler_compiles'] = runner.compiles

    # batch 1: control scenarios + ForEach call lists
    lines, owner = [], []
    fe_common_cache = {}
    for i, (sc, im) in enumerate(zip(scs, impls)):
        if im['status'] == 'CRASH':
            continue
        if sc['kind'] == 'ctl':
            lines.append(ctl_line(sc)); owner.append(('ctl', i))
        else:
            com = fe_common(sc, im)
            fe_common_cache[i] = com
            ops, flags, edges, medges, gs = com
            lines.append(f"fein {fmt(ops)} {fmt(flags)} {fmt(edges)} {fmt([2] * sc['nq'])} {fmt(sc['ceb'])}")
            owner.append(('fein', i))
    out1 = vf.run_model('ctl', lines) if lines else []
    if len(out1) != len(lines):
        ctx.broken_obligation('C11 model driver: wrong number of answers', f'{len(out1)} vs {len(lines)}')
        return
    calls = {}
    for (k, i), ln in zip(owner, out1):
        if k == 'ctl':
            nv = len(ctx.violations)
            compare_ctl(ctx, i, scs[i], impls[i], ln, missing)
            if len(ctx.violations) > nv and scs[i]['direct'] and not scs[i]['has_raise']:
                small, v = shrink_ctl(ctx, scs[i], missing)
                if v is not None and v['signature'] == ctx.violations[-1]['signature']:
                    ctx.violations[-1].update(case=v['case'], expected=v['expected'], observed=v['observed'])
        else:
            calls[i] = ln
    # batch 2: body of every block through the control model
    lines2, owner2 = [], []
    for i, ln in calls.items():
        sc = scs[i]
        if ln.startswith('EXN'):
            ctx.broken_obligation('C11 ForEach model (fein) failed', ln[:300])
            continue
        b = sc['body']
        leaves = [[int(k), v] for k, v in sorted(b['leaves'].items(), key=lambda kv: int(kv[0]))]
        for c in parse(ln) if ln != '[]' else []:
            idx, sub, point, numbering, edges, radixes, ceb = c
            w = len(numbering)
            state = [w, radixes, sub, list(range(w)), list(range(w)), list(range(w)), [0, 1], None, 0, []]
            lines2.append(f"ctl {FUEL} {fmt(b['tree'])} {fmt(leaves)} {fmt(b['streams'])} {fmt(state)}")
            owner2.append((i, idx))
    out2 = vf.run_model('ctl', lines2) if lines2 else []
    bodies = {}
    for (i, idx), ln in zip(owner2, out2):
        bodies.setdefault(i, []).append(ln)
    # batch 3: the ForEach model itself
    lines3, owner3 = [], []
    for i in calls:
        sc, im = scs[i], impls[i]
        if i not in fe_common_cache or calls[i].startswith('EXN'):
            continue
        ops, flags, edges, medges, gs = fe_common_cache[i]
        bl = []
        bds = []
        if im['status'] == 'DONE' and 'ForEachBlockPass_data' in im['data']:
            bds = im['data']['ForEachBlockPass_data'][-1]
        for j, ln in enumerate(bodies.get(i, [])):
            bm = parse(ln)
            if bm[0] != 'DONE':
                bl.append(['R'])
                continue
            w = len(parse(calls[i])[j][3])
            if sc['ceb']:
                # _sub_do_work overwrites block_data.error with the measured distance: taken from the run
                e = float(bds[j].error) if j < len(bds) else 0.0
                err = [round(e * 2 ** 24), 2 ** 24]
            else:
                err = bm[5] if bm[5][0] != 'F' else [0, 1]
            bl.append([[[o[0], o[1]] for o in bm[1]], w, err])
        lines3.append(f"fe {im['ncyc']} {fmt(ops)} {fmt(flags)} {sc['rf']} {fmt(gs)} {fmt(medges)} {fmt(edges)} "
                      f"{fmt([2] * sc['nq'])} {fmt(sc['ceb'])} {fmt(sc['e0'])} {fmt(bl)}")
        owner3.append(i)
    out3 = vf.run_model('ctl', lines3) if lines3 else []
    for i, ln in zip(owner3, out3):
        compare_fe(ctx, i, scs[i], impls[i], calls[i], bodies.get(i, []), ln, None)
    ctx.cov['model_queries'] = len(lines) + len(lines2) + len(lines3)


def nontrivial(sc) -> bool:
    if sc['kind'] == 'ctl':
        return depth_of(sc['tree']) >= 1
    return any(s[0] == 'b' for s in sc['steps'])


def run(ctx: vf.Ctx):
    ctx.uses_translators = BUILD['translators']
    tb = time.time()
    ctx.build(**BUILD)
    ctx.cov['build_seconds'] = round(time.time() - tb, 1)
    warnings.simplefilter('ignore')
    from bqskit.ir.circuit import Circuit  # noqa: F401  (import order)
    ctx.rule = ('corpus first; random scenarios from VERIF_SEED: (1) control trees over IfThenElse/While/DoWhile/'
                'DoThenDecide/ParallelDo/Workflow to depth 3 with scripted predicate streams (length 0-4), scripted '
                'leaf bodies (append/remove/clear, placement, both mappings, error set/mul, user keys, seed, model, '
                'raise), run directly or through Compiler(num_workers=2); (2) ForEachBlockPass on circuits of 2-5 '
                'qudits mixing primitive gates and CircuitGate blocks (width 1-3, alone in a cycle / adjacent / '
                'non-ascending location), 5 collection filters x 12 replace filters x calculate_error_bound x '
                'machine models x control-tree bodies; non-trivial = at least one control level / one block; '
                'distinct by canonical scenario text')
    ctx.assumptions += [
        'instrumented bodies and scripted predicates of harness/c11_passes.py stand for arbitrary bodies/predicates '
        '(the theorems quantify over all of them; the correspondence samples them)',
        'get_distance_from satisfies the metric hypotheses of C11_error_bound (validated numerically each run)',
        'pickling a circuit/pass data to a worker and back is value-preserving (C16)',
        'Circuit.__init__ stores a non-empty radixes argument unchanged (translator side-condition for Circuit.copy)',
    ]
    ctx.trusted = ['Coq 8.16.1 kernel', 'ExtrOcamlBasic extraction, OCaml 4.13.1, coq/extract/ctl_driver.ml',
                   'harness/gen/gen_fields.py (ast translator, cross-checked against live objects)',
                   'harness/props/c11.py canonicalisation (per-qudit projections) and oracle', 'numpy']

    gen = load_gen()
    an = None
    try:
        an = gen.analyse()
    except Exception as e:
        if 'gen_fields' not in ctx.translator_errors:
            ctx.broken_obligation('translator gen_fields cannot analyse the source', repr(e))
    missing = check_fields(ctx, an)
    meta = parse(vf.run_model('ctl', ['meta'])[0]) if ctx.extract_ok.get('ctl') else None
    if meta is not None and an is not None and sorted(meta[1]) != sorted(an['PassData']['become_missing']):
        ctx.broken_obligation('extracted model was not built from the current generated fields',
                              f'{meta} vs {an["PassData"]["become_missing"]}')
    ctx.cov['passdata_become_missing'] = missing
    check_metric(ctx)
    if not ctx.extract_ok.get('ctl'):
        return
    check_batch_replace(ctx)

    scs = []
    cdir = vf.ROOT / 'corpus' / 'C11'
    for f in sorted(cdir.glob('*.json')) if cdir.exists() else []:
        scs.append(json.loads(f.read_text()))
    ctx.cov['corpus'] = len(scs)
    rng = ctx.rng
    broken_before = bool(ctx.broken)
    mult = 3 if broken_before else 1       # an obligation is broken: search harder
    mult *= float(os.environ.get('C11_SCALE', '1'))    # debugging aid only
    for _ in range(int(ctx.n(300, 3000) * mult)):
        scs.append(gen_control(rng, direct=True))
    for _ in range(int(ctx.n(80, 900) * mult)):
        scs.append(gen_control(rng, direct=False))
    for _ in range(int(ctx.n(130, 1500) * mult)):
        scs.append(gen_foreach(rng))
    # raising bodies through the runtime cost a fresh Compiler each: few, and last
    tail = [s for s in scs if s.get('has_raise') and not s.get('direct', False)]
    scs = [s for s in scs if not (s.get('has_raise') and not s.get('direct', False))]
    scs += tail[:ctx.n(1, 10)]
    scs.append(gen_foreach(rng, force_raise=True))
    for sc in scs:
        ctx.case(sc, nontrivial=nontrivial(sc))
        ctx.count('scenario_' + sc['kind'] + ('_direct' if sc.get('direct') else '_runtime'))
        if sc['kind'] == 'ctl':
            ctx.count('depth_%d' % depth_of(sc['tree']))
            if sc['has_raise']:
                ctx.count('raising')
        else:
            ctx.count('rf_' + sc['rf']); ctx.count('cf_' + sc['cf']); ctx.count('ceb_%d' % sc['ceb'])
    for sc in scs[:2] + [s for s in scs if s['kind'] == 'fe'][:1]:
        ctx.sample(sc)
    run_scenarios(ctx, scs, missing)
    ctx.cov['theorem_functions'] = ['ForEach.run', 'batch_replace', 'replace (in-place branch)', 'Control.run (all 7 pass kinds)',
                                    'pd_become/pd_copy/cf_become/cf_copy (generated)', 'pd_update_error_mul (generated)']
    ctx.cov['correspondence_only'] = ['replace_filter family (is_respecting, less_than*)', 'sub_edges / numbering (block data)',
                                      'leaf action semantics (Control.act)']
    ctx.cov['uncovered'] = ['Circuit.replace pop+insert branch (C04)', 'pick_first=True scheduling (model takes the finishers as an oracle; '
                            'not exercised against the runtime)', 'ForEachBlockPass nested inside another ForEach body',
                            'pass-down keys of ForEachBlockPass']


def replay_br(ctx, case) -> bool:
    """re-run one recorded Circuit.batch_replace case (circuits there are built by appends only,
    so re-appending in iteration order reproduces the cycle layout; checked)"""
    import c11_passes as P
    from bqskit.ir.circuit import Circuit
    from bqskit.ir.gates import CircuitGate
    from bqskit.ir.operation import Operation

    def mk(g, loc):
        if g[0] == 'C':
            c = make_circuit(len(loc), g[1])
            return Operation(CircuitGate(c), loc, c.params)
        gate, params = P.CATALOGUE[g[1]]
        return Operation(gate, loc, list(params))
    circuit = Circuit(case['nq'])
    for cy, g, loc in case['ops']:
        circuit.append(mk(g, loc))
    again = [[int(cy), op_repr(op), [int(q) for q in op.location]] for cy, op in circuit.operations_with_cycles()]
    if again != case['ops']:
        return False
    newops = [mk(g, loc) for g, loc in case['newops']]
    try:
        circuit.batch_replace([tuple(p) for p in case['points']], newops)
        got = ['OK', circuit.num_cycles,
               [[int(cy), canon_gate(op_repr(op), op.num_qudits), [int(q) for q in op.location]]
                for cy, op in circuit.operations_with_cycles()]]
    except IndexError:
        got = ['ERR', 'IndexError']
    except ValueError:
        got = ['ERR', 'ValueError']
    ln = vf.run_model('ctl', [f"br {case['ncyc']} {fmt(case['ops'])} {fmt(case['points'])} {fmt(case['newops'])}"])[0]
    m = parse(ln)
    if m[0] == 'OK':
        m = ['OK', m[1], [[cy, canon_gate(g, len(loc)), loc] for cy, g, loc in m[2]]]
    ctx.case(('br-replay', fmt(case['ops']), fmt(case['points'])), nontrivial=True)
    if m != got and not (m[0] == 'ERR' and m[1] == 'Unmodelled'):
        ctx.violation(dict(call='Circuit.batch_replace', symptom='model-mismatch'), case, m, got,
                      'Circuit.batch_replace differs from the positional write-back model', kind='correspondence',
                      corr='C11_batch_replace_positional: coq/ctl/ForEach.v vs bqskit/ir/circuit.py')
    return True


def replay(ctx, data):
    warnings.simplefilter('ignore')
    from bqskit.ir.circuit import Circuit  # noqa: F401
    case = data.get('case', {})
    gen = load_gen()
    try:
        an = gen.analyse()
    except Exception:
        an = None
    if case.get('kind') in ('become', 'copy'):
        check_fields(ctx, an)
        return
    if case.get('kind') == 'metric':
        check_metric(ctx)
        return
    if case.get('kind') == 'br':
        if not replay_br(ctx, case):
            check_batch_replace(ctx)
        return
    sc = case.get('scenario')
    if sc is None:
        return
    missing = check_fields(ctx, an)
    ctx.case(sc, nontrivial=True)
    run_scenarios(ctx, [sc], missing)
