"""C08 - partitioning regroups operations without changing the program.

Proof side: coq/part/{PartSpec,PartCheck,Quick,QuickThm}.v, statements in coq/props/C08.v.
Tie to /repo, on every run:
 * correspondence  - the extracted QuickPartitioner model (coq/part/Quick.v) against the real
   QuickPartitioner on random circuits (set-iteration order of `overlapping_bins` replayed);
 * verified oracle - the extracted `check_partition` (sound by C08_check_sound) on the output of EVERY
   partitioner (Quick, Scan, Clustering, Greedy, GroupSingleQuditGate, ExtendBlockSize, GTQCP, TDAG);
 * an independent Python re-implementation of the oracle cross-checks the extracted one.
 * correspondence  - the extracted ScanPartitioner model (coq/part/Scan.v) against the real ScanPartitioner
   (the list returned by calculate_qudit_groups is recorded and replayed; the model checks it);
Quick and Scan are `proved` (Scan: safety half, barrier clause refuted); the others are `oracle-checked` per run.
"""
from __future__ import annotations

import collections
import json
import logging
import multiprocessing as mp
import os
import random
import time
import warnings
from pathlib import Path

import vf

BUILD = dict(extracted=['part'], translators=set())

PARTITIONERS = ['Quick', 'Scan', 'Clustering', 'Greedy', 'Single', 'Extend', 'GTQCP', 'TDAG']
CLASSNAME = dict(Quick='QuickPartitioner', Scan='ScanPartitioner', Clustering='ClusteringPartitioner',
                 Greedy='GreedyPartitioner', Single='GroupSingleQuditGatePass', Extend='ExtendBlockSizePass',
                 GTQCP='GTQCPartitioner', TDAG='TDAGPartitioner')
# documented refusals: gates wider than the block size
DOCUMENTED_REJECT = (
    'cannot handle gates larger than',          # Scan / GTQCP / TDAG  (RuntimeError)
    'Initial region is too large',              # Clustering: surround() of a gate wider than block_size
)

# --------------------------------------------------------------------------------------------
# implementation side (imported lazily: workers and the main process)
# --------------------------------------------------------------------------------------------
_impl = {}


def impl():
    if _impl:
        return _impl
    warnings.simplefilter('ignore')
    logging.disable(logging.CRITICAL)
    from bqskit.ir.circuit import Circuit
    import bqskit.ir.gates as G
    from bqskit.ir.gates.barrier import BarrierPlaceholder
    from bqskit.ir.gates.circuitgate import CircuitGate
    from bqskit.compiler.passdata import PassData
    import bqskit.passes.partitioning as P
    import bqskit.passes.partitioning.quick as quickmod
    from bqskit.passes.util.extend import ExtendBlockSizePass
    import numpy as np
    _impl.update(Circuit=Circuit, G=G, Barrier=BarrierPlaceholder, CircuitGate=CircuitGate, PassData=PassData,
                 P=P, quickmod=quickmod, Extend=ExtendBlockSizePass, np=np)
    return _impl


G1 = ['HGate', 'XGate', 'TGate', 'SGate', 'SXGate', 'RZGate', 'RXGate', 'U3Gate']
G2 = ['CNOTGate', 'CZGate', 'SwapGate', 'RZZGate']
G3 = ['CCXGate']


def build(spec):
    """spec = dict(width, ops=[...]); op = ['g', name, loc, params] | ['b'|'m', loc] | ['r', q] |
    ['k', loc, [inner 'g' ops with local locations]] (an already-blocked input block)."""
    im = impl()
    G = im['G']
    c = im['Circuit'](spec['width'])
    for o in spec['ops']:
        t = o[0]
        if t == 'g':
            c.append_gate(getattr(G, o[1])(), o[2], o[3])
        elif t == 'b':
            c.append_gate(im['Barrier'](len(o[1])), o[1])
        elif t == 'm':
            c.append_gate(G.MeasurementPlaceholder([('c', spec['width'])], {q: ('c', q) for q in o[1]}), o[1])
        elif t == 'r':
            c.append_gate(G.Reset(), [o[1]])
        elif t == 'k':
            sub = im['Circuit'](len(o[1]))
            for io in o[2]:
                sub.append_gate(getattr(G, io[1])(), io[2], io[3])
            c.append_circuit(sub, o[1], True)
        else:
            raise ValueError(t)
    return c


def rand_gate(rng, ar):
    im = impl()
    name = rng.choice(G1 if ar == 1 else G2 if ar == 2 else G3)
    n = getattr(im['G'], name)().num_params
    return name, [round(rng.uniform(-3, 3), 3) for _ in range(n)]


def gen_spec(rng, width, nops, p1, p3, pbar, meas, preblock, marker0=0):
    ops = []
    marker = marker0
    for _ in range(nops):
        if rng.random() < pbar:
            kk = rng.randint(1, min(width, 4))
            loc = sorted(rng.sample(range(width), kk))
            r = rng.random()
            if not meas or r < 0.5:
                ops.append(['b', loc])
            elif r < 0.8:
                ops.append(['m', loc])
            else:
                ops.append(['r', loc[0]])
            continue
        if rng.random() < preblock:
            kk = rng.randint(1, min(width, 3))
            loc = rng.sample(range(width), kk)
            marker += 1
            inner = [['g', 'RZGate', [0], [round(marker * 0.001, 6)]]]   # unique marker: the block cannot be confused
            for _ in range(rng.randint(1, 3)):
                ar = rng.randint(1, min(kk, 2))
                nm, ps = rand_gate(rng, ar)
                inner.append(['g', nm, rng.sample(range(kk), ar), ps])
            ops.append(['k', loc, inner])
            continue
        r = rng.random()
        ar = 1 if r < p1 else (3 if r > 1 - p3 and width >= 3 else 2)
        ar = min(ar, width)
        nm, ps = rand_gate(rng, ar)
        ops.append(['g', nm, rng.sample(range(width), ar), ps])
    return dict(width=width, ops=ops)


def gkey(g):
    im = impl()
    if isinstance(g, im['CircuitGate']):
        return ('blk', tuple((cy, gkey(o.gate), tuple(o.location)) for cy, o in g._circuit.operations_with_cycles()))
    if isinstance(g, im['G'].MeasurementPlaceholder):
        return ('measure', tuple(sorted(g.measurements.items())), tuple(g.classical_regs))
    return (type(g).__name__, g.num_qudits, tuple(g.radixes))


def kind_of(g):
    im = impl()
    if isinstance(g, im['Barrier']):
        return 'B'
    if isinstance(g, im['G'].MeasurementPlaceholder):
        return 'M'
    if isinstance(g, im['G'].Reset):
        return 'R'
    return 'G'


class Intern:
    """(gate, parameter tuple) -> (gate id, params id), both small positive numbers."""

    def __init__(self):
        self.g, self.p, self.known = {}, {}, set()

    def ids(self, op, add):
        gk = gkey(op.gate)
        pk = tuple(round(float(p), 9) for p in op.params)
        if add:
            self.g.setdefault(gk, len(self.g) + 1)
            self.p.setdefault(pk, len(self.p) + 1)
            self.known.add((self.g[gk], self.p[pk]))
        if gk in self.g and pk in self.p and (self.g[gk], self.p[pk]) in self.known:
            return self.g[gk], self.p[pk]
        return None


def flat_in(c, it):
    res = []
    for cy, o in c.operations_with_cycles():
        g, p = it.ids(o, True)
        res.append((cy, g, tuple(o.location), p, kind_of(o.gate)))
    return res


FOREIGN = (0, 0)


def flat_out(c, it):
    """Top-level items of a partitioned circuit; blocks made by the partitioner are unfolded recursively
    (ClusteringPartitioner nests), blocks that were operations of the input stay atomic.
    item = ('L', g, loc, p, kind, cycle) | ('K', loc, [(g, loc, p, kind) ...], cycle)"""
    im = impl()
    out = []

    def body_of(o, loc, acc):
        inner = o.gate._circuit
        if inner.num_params and len(o.params) == inner.num_params:
            inner = inner.copy()
            inner.set_params(o.params)
        for io in inner:
            gl = tuple(loc[q] for q in io.location)
            i = it.ids(io, False)
            if i is None and isinstance(io.gate, im['CircuitGate']):
                body_of(io, gl, acc)
            else:
                g, p = i or FOREIGN
                acc.append((g, gl, p, kind_of(io.gate)))

    for cy, o in c.operations_with_cycles():
        i = it.ids(o, False)
        if i is not None:
            out.append(('L', i[0], tuple(o.location), i[1], kind_of(o.gate), cy))
        elif isinstance(o.gate, im['CircuitGate']):
            body = []
            body_of(o, tuple(o.location), body)
            out.append(('K', tuple(o.location), body, cy))
        else:
            out.append(('L', 0, tuple(o.location), 0, kind_of(o.gate), cy))
    return out


def run_pass(p, c, data=None):
    # PassData(c) would compute the unitary of c (<= 8 qudits): give it an empty circuit of the same shape
    co = p.run(c, data if data is not None else impl()['PassData'](impl()['Circuit'](c.num_qudits, c.radixes)))
    try:
        co.send(None)
    except StopIteration:
        return
    raise RuntimeError('pass awaited something')


def run_quick_recorded(c, k):
    """QuickPartitioner.run with the iteration order of `overlapping_bins = list({...})` recorded
    (the module-level name `list` is shadowed from outside; /repo is not edited)."""
    qm = impl()['quickmod']
    base = qm.Bin.id
    hints = []

    def rec_list(x=()):
        r = list(x)
        if isinstance(x, set):
            hints.append([b.id - base for b in r])
        return r
    qm.list = rec_list
    err = None
    try:
        run_pass(qm.QuickPartitioner(k), c)
    except RuntimeError as e:
        if 'Unable to process all pending bins' not in str(e):
            raise
        err = 'EPending'
    finally:
        del qm.list
    return hints, err


# --------------------------------------------------------------------------------------------
# independent Python oracle (textbook re-implementation of good_partition)
# --------------------------------------------------------------------------------------------
def py_oracle(k, inp, out, relaxed=False):
    """inp: [(g, loc, p, kind)], out: items.  Returns the sorted list of violated clauses."""
    probs = set()
    unf = []
    for it in out:
        if it[0] == 'L':
            unf.append((it[1], tuple(it[2]), it[3], it[4]))
        else:
            loc, body = tuple(it[1]), it[2]
            wid = max([k] + [len(b[1]) for b in body])
            if len(loc) > wid:
                probs.add('block_too_wide')
            if len(set(loc)) != len(loc):
                probs.add('block_location_repeats')
            for b in body:
                if b[3] != 'G' and not relaxed:
                    probs.add('barrier_in_block')
                if not set(b[1]) <= set(loc):
                    probs.add('op_outside_block')
                unf.append((b[0], tuple(b[1]), b[2], b[3]))
    inp = [(g, tuple(loc), p, kd) for g, loc, p, kd in inp]
    if any(u[0] == 0 for u in unf):
        probs.add('foreign_op')
    if collections.Counter(unf) != collections.Counter(inp):
        probs.add('multiset')
    qs = {q for x in unf + inp for q in x[1]}
    for q in qs:
        if [x for x in unf if q in x[1]] != [x for x in inp if q in x[1]]:
            probs.add('order')
            break
    return sorted(probs)


# --------------------------------------------------------------------------------------------
# text protocol of the extracted model
# --------------------------------------------------------------------------------------------
def f_loc(loc):
    return '[' + ' '.join(map(str, loc)) + ']'


def f_op(o, relaxed=False):
    g, loc, p, kd = o
    return '[%d %s %d %s]' % (g, f_loc(loc), p, 'G' if relaxed else kd)


def f_item(it, relaxed=False):
    if it[0] == 'L':
        return '[L %d %s %d %s]' % (it[1], f_loc(it[2]), it[3], 'G' if relaxed else it[4])
    return '[K %s [%s]]' % (f_loc(it[1]), ' '.join(f_op(b, relaxed) for b in it[2]))


def check_line(k, inp, out, relaxed=False):
    return 'check %d [%s] [%s]' % (k, ' '.join(f_op(o, relaxed) for o in inp), ' '.join(f_item(i, relaxed) for i in out))


def quick_line(k, fx, width, ncyc, cin, hints):
    ops = ' '.join('[%d %d %s %d %s]' % (cy, g, f_loc(loc), p, kd) for cy, g, loc, p, kd in cin)
    return 'quick %d %d %d %d [%s] [%s]' % (k, fx, width, ncyc, ops, ' '.join(f_loc(h) for h in hints))


def scan_line(k, width, ncyc, cin, groups):
    ops = ' '.join('[%d %d %s %d %s]' % (cy, g, f_loc(loc), p, kd) for cy, g, loc, p, kd in cin)
    return 'scan %d %d %d [%s] [%s]' % (k, width, ncyc, ops, ' '.join(f_loc(g) for g in groups))


def groups_oracle(k, width, cin, groups):
    """What the Scan theorems need from calculate_qudit_groups (groups_okb of coq/part/Scan.v), evaluated
    independently on the implementation's value."""
    probs = []
    for g in groups:
        if len(g) == 0:
            probs.append('empty_group')
        if len(set(g)) != len(g):
            probs.append('repeated_qudit')
        if len(g) > k:
            probs.append('group_wider_than_block')
        if any(q < 0 or q >= width for q in g):
            probs.append('qudit_outside_circuit')
    covered = {q for g in groups for q in g}
    if any(q not in covered for x in cin for q in x[2]):
        probs.append('active_qudit_in_no_group')
    return sorted(set(probs))


def parse_val(s):
    toks = s.replace('[', ' [ ').replace(']', ' ] ').split()
    pos = 0

    def rd():
        nonlocal pos
        t = toks[pos]
        pos += 1
        if t == '[':
            l = []
            while toks[pos] != ']':
                l.append(rd())
            pos += 1
            return l
        try:
            return int(t)
        except ValueError:
            return t
    return rd()


def foata(seq):
    """Canonical form of a sequence of (key, loc) up to swapping neighbours on disjoint qudits."""
    last = {}
    lev = []
    for key, loc in seq:
        l = 1 + max([last.get(q, 0) for q in loc] + [0])
        for q in loc:
            last[q] = l
        lev.append((l, min(loc) if loc else -1, key, tuple(loc)))
    return sorted(lev, key=lambda x: (x[0], x[1]))


def canon_items(items):
    seq = []
    for it in items:
        if it[0] == 'L':
            seq.append((('L', it[1], it[3], it[4]), tuple(it[2])))
        else:
            body = foata([((b[0], b[2], b[3]), tuple(b[1])) for b in it[2]])
            seq.append((('K', tuple(it[1]), tuple(body)), tuple(it[1])))
    return foata(seq)


def model_items(v):
    """parsed `[OK [items]]` -> items in the flat_out format (without cycles)"""
    res = []
    for x in v:
        if x[0] == 'L':
            res.append(('L', x[1], tuple(x[2]), x[3], x[4]))
        else:
            res.append(('K', tuple(x[1]), [(b[0], tuple(b[1]), b[2], b[3]) for b in x[2]]))
    return res


# --------------------------------------------------------------------------------------------
# one case = (spec, k, seed); evaluated in a worker
# --------------------------------------------------------------------------------------------
def has_barrier(spec):
    return any(o[0] in 'bmr' for o in spec['ops'])


def max_arity(spec):
    return max([len(o[2]) if o[0] == 'g' else len(o[1]) if o[0] in 'bmk' else 1 for o in spec['ops']] + [0])


class _Hang(Exception):
    pass


_scan_groups = []   # calculate_qudit_groups results of the last ScanPartitioner run in this process
_hangs = collections.Counter()   # per worker process: a partitioner that hung twice is not run again


def _alarm(signum, frame):
    raise _Hang()


def run_partitioner(name, c, k, seed, m=None, limit=None):
    """Returns ('ok', circuit) | ('rejected', msg) | ('exc', 'Type: msg').  A run that burns more than
    `limit` seconds of CPU time (ITIMER_PROF: independent of machine load) is reported as 'exc' Timeout:
    an endless loop is a failure to return."""
    import signal
    im = impl()
    P = im['P']
    im['np'].random.seed(seed % (2 ** 31))
    random.seed(seed)
    limit = limit or float(os.environ.get('VERIF_C08_LIMIT', '240'))
    if _hangs[name] >= 2:
        return 'exc', 'Timeout: not run again after two hangs of this partitioner in this worker'
    old = signal.signal(signal.SIGPROF, _alarm)
    try:
        signal.setitimer(signal.ITIMER_PROF, limit)
        if name == 'Quick':
            run_pass(P.QuickPartitioner(k), c)
        elif name == 'Scan':
            # the result of calculate_qudit_groups is recorded (instance attribute shadows the method;
            # /repo is not edited) and replayed to the Coq model, which checks it
            sp = P.ScanPartitioner(k)
            orig = sp.calculate_qudit_groups
            _scan_groups.clear()

            def rec_groups(circ):
                r = orig(circ)
                _scan_groups.append([list(g) for g in r])
                return r
            sp.calculate_qudit_groups = rec_groups
            run_pass(sp, c)
        elif name == 'Clustering':
            run_pass(P.ClusteringPartitioner(k, 4), c)
        elif name == 'Greedy':
            run_pass(P.GreedyPartitioner(k), c)
        elif name == 'Single':
            run_pass(P.GroupSingleQuditGatePass(), c)
        elif name == 'GTQCP':
            run_pass(P.GTQCPartitioner(k), c)
        elif name == 'TDAG':
            run_pass(P.TDAGPartitioner(k), c)
        elif name == 'Extend':
            try:
                run_pass(P.QuickPartitioner(k), c)
            except RuntimeError as e:
                return 'rejected', 'QuickPartitioner stage failed (reported under Quick): ' + str(e)[:40]
            run_pass(im['Extend'](m), c)
        else:
            raise ValueError(name)
    except _Hang:
        _hangs[name] += 1
        return 'exc', 'Timeout: no result after %ds of CPU time' % limit
    except Exception as e:  # noqa
        msg = '%s: %s' % (type(e).__name__, str(e).split('\n')[0][:90])
        if any(d in msg for d in DOCUMENTED_REJECT):
            return 'rejected', msg
        return 'exc', msg
    finally:
        signal.setitimer(signal.ITIMER_PROF, 0)
        signal.signal(signal.SIGPROF, old)
    return 'ok', c


# the extracted Scan model looks operations up in a list (Peano qudits): bounded size in the quick tier
SCAN_MODEL_MAX_OPS = dict(quick=160, thorough=10 ** 9)


def eval_partitioner(name, spec, k, seed, want_lines=True):
    """Run one partitioner of /repo on the case; python oracle verdict + the query lines for the
    extracted oracle.  Returns dict(status, symptoms, lines, kk, inp, out)."""
    c = build(spec)
    it = Intern()
    cin = flat_in(c, it)
    inp = [x[1:] for x in cin]
    ncyc0 = c.num_cycles
    m = None
    kk = k
    if name == 'Single':
        kk = 1
    if name == 'Extend':
        m = 2 + seed % 3
        if m > spec['width']:
            m = spec['width']
        kk = max(k, m)
    _scan_groups.clear()
    st, r = run_partitioner(name, c, k, seed, m)
    res = dict(status=st, symptoms=[], lines=[], kk=kk, msg=None)
    if name == 'Scan':
        res['scan'] = dict(cin=cin, ncyc=ncyc0, groups=_scan_groups[0] if _scan_groups else [],
                           ngroup_calls=len(_scan_groups))
    if st != 'ok':
        res['msg'] = r
        if st == 'exc':
            res['symptoms'] = ['exception:' + r.split(':')[0] + ':' + exc_class(r)]
        return res
    out = flat_out(r, it)
    res['symptoms'] = py_oracle(kk, inp, out)
    res['relaxed_symptoms'] = py_oracle(kk, inp, out, relaxed=True)
    if want_lines:
        res['lines'] = [check_line(kk, inp, out), check_line(kk, inp, out, relaxed=True)]
    res['nblocks'] = sum(1 for x in out if x[0] == 'K')
    res['out'] = out
    res['inp'] = inp
    return res


def exc_class(msg):
    if msg.startswith('Timeout'):
        return 'hang'
    if 'Region goes off circuit' in msg:
        return 'region_off_circuit'
    if 'Unable to process all pending bins' in msg:
        return 'pending_bins'
    if 'Expected lower to be <= upper' in msg:
        return 'empty_circuit_fold'
    return 'other'


def eval_quick_model(spec, k, fx):
    """Correspondence data for Quick: the implementation's grid + the model query line."""
    c = build(spec)
    it = Intern()
    cin = flat_in(c, it)
    ncyc = c.num_cycles
    hints, err = run_quick_recorded(c, k)
    impl_res = ('ERR', err) if err else ('OK', canon_items(flat_out(c, it)))
    return cin, ncyc, hints, impl_res


def shrink(spec, k, seed, name, symptom, budget=150):
    """Greedy one-op-at-a-time removal while `symptom` persists for partitioner `name`."""
    def bad(s):
        try:
            r = eval_partitioner(name, s, k, seed, want_lines=False)
        except Exception:  # noqa
            return False
        return symptom in r['symptoms']
    cur = dict(spec, ops=list(spec['ops']))
    n = 0
    changed = True
    while changed and n < budget:
        changed = False
        i = len(cur['ops']) - 1
        while i >= 0 and n < budget:
            cand = dict(cur, ops=cur['ops'][:i] + cur['ops'][i + 1:])
            n += 1
            if cand['ops'] and bad(cand):
                cur = cand
                changed = True
            i -= 1
    return cur


def work(args):
    """A chunk of cases.  Returns (counts, violations, samples, hashes)."""
    chunk, fx, tier = args
    impl()
    counts = collections.Counter()
    viol = []
    samples = []
    cases = []
    lines = []
    todo = []   # (kind, info) per pair/single of lines
    for (cid, spec, k, seed, parts, klass) in chunk:
        nt = len(spec['ops']) >= 2
        cases.append((dict(spec=spec, k=k), nt))
        counts['class:' + klass] += 1
        counts['width:%s' % ('2-4' if spec['width'] <= 4 else '5-8' if spec['width'] <= 8 else '9-20')] += 1
        counts['block_size:%d' % k] += 1
        for name in parts:
            case = dict(partitioner=name, spec=spec, k=k, seed=seed)
            try:
                r = eval_partitioner(name, spec, k, seed)
            except Exception as e:  # noqa
                viol.append(dict(sig=dict(partitioner=CLASSNAME[name], symptom='harness_error'), case=case,
                                 expected='flattened output', observed=repr(e)[:300], what='harness could not evaluate the output'))
                continue
            counts['%s:%s' % (name, r['status'])] += 1
            if name == 'Scan' and 'scan' in r and (r['status'] in ('ok', 'rejected') or r['symptoms'] == ['exception:ValueError:empty_circuit_fold']):
                sc = r['scan']
                simpl = None
                if r['status'] == 'ok':
                    simpl = ('OK', canon_items(r['out']))
                elif 'cannot handle gates larger' in (r['msg'] or ''):
                    simpl = ('ERR', 'SWide')
                elif r['status'] == 'exc':
                    simpl = ('ERR', 'SEmptyFold')      # finding C08.S1: the model has it as an explicit error result
                whole = k > spec['width']
                if not whole:
                    gp = groups_oracle(k, spec['width'], sc['cin'], sc['groups']) if sc['ngroup_calls'] == 1 else ['calculate_qudit_groups_calls=%d' % sc['ngroup_calls']]
                    if gp:
                        viol.append(dict(sig=dict(partitioner='ScanPartitioner', symptom='bad_qudit_groups'), case=case,
                                         expected='groups: non-empty, no repeats, <= block size, inside the circuit, covering every active qudit',
                                         observed=dict(problems=gp, groups=sc['groups'][:40]),
                                         what='ScanPartitioner.calculate_qudit_groups returned a list the proved model rejects'))
                    else:
                        counts['Scan:groups_ok'] += 1
                if simpl is not None and len(spec['ops']) <= SCAN_MODEL_MAX_OPS[tier]:
                    lines.append(scan_line(k, spec['width'], sc['ncyc'], sc['cin'], sc['groups']))
                    todo.append(('scan', 'Scan', case, simpl))
                    counts['Scan:whole_circuit_fold' if whole else 'Scan:scanned'] += 1
                else:
                    counts['Scan:model_skipped_large'] += 1
            if r['status'] == 'exc' and 'not run again after two hangs' in (r['msg'] or ''):
                counts['%s:not_run_after_two_hangs' % name] += 1     # the two hangs themselves were reported with their inputs
                continue
            if r['status'] == 'exc':
                viol.append(dict(sig=sig_of(name, r['symptoms'][0], spec, k), case=case, expected='a partitioned circuit',
                                 observed=r['msg'], what='%s raised on an input it should accept' % CLASSNAME[name], symptom=r['symptoms'][0]))
                continue
            if r['status'] != 'ok':
                continue
            counts['%s:blocks' % name] += r['nblocks']
            lines += r['lines']
            todo.append(('check', name, case, r))
        if 'Quick' in parts:
            case = dict(partitioner='Quick', spec=spec, k=k, seed=seed)
            try:
                cin, ncyc, hints, impl_res = eval_quick_model(spec, k, fx)
            except Exception as e:  # noqa
                viol.append(dict(sig=dict(partitioner='QuickPartitioner', symptom='harness_error'), case=case,
                                 expected='recorded run', observed=repr(e)[:300], what='harness could not record QuickPartitioner'))
                continue
            if impl_res[0] == 'ERR':
                counts['Quick:pending_bins'] += 1
            lines.append(quick_line(k, fx, spec['width'], ncyc, cin, hints))
            todo.append(('quick', 'Quick', case, impl_res))
            counts['Quick:hint_sets>1'] += sum(1 for h in hints if len(h) > 1)
            if len(samples) < 2 and impl_res[0] == 'OK':
                samples.append(dict(spec=spec, k=k, quick_blocks=[[x[2][1], len(x[2][2])] for x in impl_res[1] if x[2][0] == 'K'][:8]))
    outl = vf.run_model('part', lines) if lines else []
    pos = 0
    for kind, name, case, r in todo:
        if kind == 'check':
            strict, relaxed = outl[pos], outl[pos + 1]
            pos += 2
            sym, rsym = r['symptoms'], r['relaxed_symptoms']
            if (strict == 'T') != (not sym) or (relaxed == 'T') != (not rsym):
                viol.append(dict(sig=dict(partitioner=CLASSNAME[name], symptom='oracle_disagreement'), case=case,
                                 expected='extracted check_partition = python oracle', observed=dict(extracted=[strict, relaxed], python=[sym, rsym]),
                                 what='the verified oracle and the independent python oracle disagree', kind='correspondence'))
                continue
            counts['%s:%s' % (name, 'good' if strict == 'T' else 'bad')] += 1
            for s in sym:
                viol.append(dict(sig=sig_of(name, s, case['spec'], case['k']), case=case, expected='good_partition (check_partition = true)',
                                 observed=dict(violated=sym, extracted_oracle=strict, extracted_oracle_kinds_erased=relaxed),
                                 what='%s output violates the partition property: %s' % (CLASSNAME[name], s), symptom=s))
        elif kind == 'scan':
            got = outl[pos]
            pos += 1
            try:
                v = parse_val(got)
                model_res = ('OK', canon_items(model_items(v[1]))) if v[0] == 'OK' else ('ERR', v[1])
            except Exception:  # noqa
                model_res = ('BAD', got[:200])
            if model_res != r:
                viol.append(dict(sig=dict(partitioner='ScanPartitioner', symptom='model_mismatch'), case=case,
                                 expected=_short(model_res), observed=_short(r),
                                 what='Coq model of ScanPartitioner and the implementation disagree', kind='correspondence',
                                 corr='coq/part/Scan.v vs bqskit/passes/partitioning/scan.py'))
            else:
                counts['Scan:model_agrees'] += 1
                if model_res[0] == 'ERR':
                    counts['Scan:model_agrees_on_refusal'] += 1
        elif kind == 'quick':
            got = outl[pos]
            pos += 1
            impl_res = r
            try:
                v = parse_val(got)
                model_res = ('OK', canon_items(model_items(v[1]))) if v[0] == 'OK' else ('ERR', v[1])
            except Exception:  # noqa
                model_res = ('BAD', got[:200])
            if model_res != impl_res:
                viol.append(dict(sig=dict(partitioner='QuickPartitioner', symptom='model_mismatch'), case=case,
                                 expected=_short(model_res), observed=_short(impl_res),
                                 what='Coq model of QuickPartitioner and the implementation disagree', kind='correspondence',
                                 corr='coq/part/Quick.v vs bqskit/passes/partitioning/quick.py'))
            else:
                counts['Quick:model_agrees'] += 1
    return counts, viol, samples, cases


def _short(r):
    s = json.dumps(r, default=str)
    return s if len(s) < 3000 else s[:3000] + '...'


def sig_of(name, symptom, spec, k):
    sig = dict(partitioner=CLASSNAME[name], symptom=symptom)
    if symptom.startswith('exception:') and symptom.endswith('region_off_circuit'):
        sig['block_size_exceeds_width'] = k > spec['width']
    if symptom.endswith('pending_bins'):
        sig['barrier_like_ops'] = has_barrier(spec)
    return sig


# --------------------------------------------------------------------------------------------
# the check
# --------------------------------------------------------------------------------------------
DEADLOCK = dict(width=4, ops=[['g', 'CNOTGate', [0, 1], []], ['b', [1]], ['g', 'CNOTGate', [1, 2], []],
                              ['b', [2, 3]], ['g', 'CNOTGate', [0, 3], []]])


def detect_fx():
    """The expected tree has the C08.Q1 repair (/repo ff12728: blocked-qudit propagation when a BarrierBin is
    created) and is compared with the model `quick ... fx = true`.  A tree without it (a regression) is
    detected by running the 5-operation witness: that is reported as a VIOLATION and the rest of the
    correspondence run then uses the fx = false model so that further differences stay visible."""
    c = build(DEADLOCK)
    try:
        run_pass(impl()['P'].QuickPartitioner(3), c)
        return 1
    except RuntimeError:
        return 0


def make_cases(ctx):
    rng = ctx.rng
    cases = []
    cid = 0
    # corpus first
    cdir = vf.ROOT / 'corpus' / 'C08'
    for f in sorted(cdir.glob('*.json')) if cdir.exists() else []:
        d = json.loads(f.read_text())
        cases.append((f.name, d['spec'], d['k'], d.get('seed', 0), d.get('partitioners', PARTITIONERS), 'corpus'))
    nq = ctx.n(330, 3000)
    for i in range(nq):
        cid += 1
        r = rng.random()
        if r < 0.08:
            klass = 'malformed'      # shapes partitioners may refuse or special-case
            width = rng.randint(2, 6)
            sub = rng.choice(['empty', 'single', 'wide', 'idle'])
            if sub == 'empty':
                spec = dict(width=width, ops=[])
            elif sub == 'single':
                spec = gen_spec(rng, width, 1, 0.5, 0.2, 0.2, True, 0.0)
            elif sub == 'wide':
                spec = gen_spec(rng, max(width, 4), rng.randint(3, 20), 0.3, 0.5, 0.3, False, 0.0)
            else:
                spec = gen_spec(rng, width, rng.randint(2, 12), 0.3, 0.0, 0.0, False, 0.0)
                spec = dict(width=width + 2, ops=spec['ops'])
            klass += '-' + sub
        else:
            klass = rng.choice(['plain', 'plain', 'arity3', 'barrier', 'measure', 'preblocked', 'mixed'])
            big = rng.random() < ctx.n(15, 25) / 100.0
            width = rng.randint(9, 20) if big else rng.randint(2, 8)
            depth = rng.randint(1, ctx.n(60, 300)) if big or rng.random() < 0.3 else rng.randint(1, 14)
            nops = max(1, depth * width // 2)
            nops = min(nops, ctx.n(500, 3000))
            p3 = 0.0 if klass in ('plain',) else rng.choice([0.1, 0.3, 0.6])
            pbar = rng.choice([0.03, 0.1, 0.25]) if klass in ('barrier', 'measure', 'mixed') else 0.0
            pre = 0.15 if klass in ('preblocked', 'mixed') else 0.0
            spec = gen_spec(rng, width, nops, rng.choice([0.1, 0.4]), p3, pbar, klass in ('measure', 'mixed'), pre)
        k = rng.randint(2, 6)
        seed = rng.randrange(1 << 30)
        n = len(spec['ops'])
        parts = ['Quick', 'Single']
        if n <= 400:
            parts.append('Extend')
        # the region-growing partitioners are slow on wide / deep inputs: bounded sizes
        if spec['width'] <= 10 and n <= 250 and n > 0:
            parts += ['Scan', 'GTQCP', 'TDAG']
            if (k <= 4 and n <= 150) or n <= 40:     # surround() is exponential in the block size
                parts.append('Clustering')
            if n <= 15 or (k <= 4 and n <= 30) or (k <= 3 and n <= 50):     # surround() is exponential in the block size
                parts.append('Greedy')
        if n == 0:
            parts = ['Quick', 'Single']
        cases.append((cid, spec, k, seed, parts, klass))
    return cases


def run(ctx: vf.Ctx):
    ctx.uses_translators = set()
    ctx.build(**BUILD)
    ctx.rule = ('random circuits: width 2-20, 1/2/3-qudit gates (13 gate types, random parameters), barriers, measurements, '
                'resets, already-blocked input blocks, up to %d operations; block sizes 2-6; ~8%% malformed stream (empty, '
                'single op, gates wider than the block, idle qudits). Per case: QuickPartitioner vs the extracted Coq model '
                '(grid compared up to commutation on disjoint qudits), ScanPartitioner vs its extracted Coq model with the recorded '
                'qudit groups (same comparison), and the extracted verified check_partition + an '
                'independent python oracle on the output of every partitioner that accepts the input. non-trivial = '
                'at least 2 operations; distinct by canonical (circuit, block size)' % ctx.n(500, 3000))
    ctx.assumptions += [
        'ScanPartitioner: calculate_qudit_groups (MachineModel.get_locations over the circuit coupling graph) is not modelled; its value is replayed and CHECKED by the model (non-empty groups without repeats, at most block-size qudits, every active qudit covered) and by an independent python check; termination of the while loop / a non-empty best block are not proved (explicit error results of the model, never observed)',
        'ScanPartitioner.fold_circuit sorts a block by (cycle, location); the model keeps the input order, which is cycle order: equal up to commutation of operations in the same cycle',
        'Circuit.append/pop/insert place operations so that iteration order respects per-qudit order (C04/C05); the Quick model keeps the partitioned circuit as a list and outputs are compared up to commutation of operations on disjoint qudits',
        'the order of `for p in partitioned_circuit.rear` (a set) does not change the merged block up to commutation (argued in design_notes/C08.md, validated by every correspondence case)',
        'liveness of QuickPartitioner (no RuntimeError): refuted for the unchanged code with barriers (C08_quick_all_emitted_refuted, finding C08.Q1); proved for the repaired code and for barrier-free input (C08_quick_all_emitted); the two asserts of the main loop (model results EAssert/ENoBin/EFuel) are covered by correspondence only',
        'gates are interned by (gate, parameters) value; blocks already present in the input are atomic',
    ]
    ctx.trusted = ['Coq 8.16.1 kernel', 'ExtrOcamlBasic extraction, OCaml 4.13.1, coq/extract/part_driver.ml', 'recording of ScanPartitioner.calculate_qudit_groups (instance attribute)',
                   'harness/props/c08.py: flattening of Circuit objects, interning, Foata canonical form, python oracle']
    if not ctx.extract_ok.get('part'):
        return
    t0 = time.time()
    fx = detect_fx()
    ctx.cov['quick_barrier_block_fix_present'] = bool(fx)
    ctx.cov['quick_model_flag'] = 'fx = true (repaired algorithm, expected)' if fx else 'fx = false (tree WITHOUT the C08.Q1 repair: regression)'
    if not fx:
        c = dict(partitioner='Quick', spec=DEADLOCK, k=3, seed=0)
        ctx.violation(sig_of('Quick', 'exception:RuntimeError:pending_bins', DEADLOCK, 3), c, 'a partitioned circuit',
                      'RuntimeError: Unable to process all pending bins during partitioning.',
                      'QuickPartitioner deadlocks: blocked qudits are not propagated when a BarrierBin is created')
    cases = make_cases(ctx)
    nproc = min(int(os.environ.get('VERIF_NPROC', '14')), os.cpu_count() or 4)
    chunks = [[] for _ in range(nproc * 6)]
    # spread by cost
    order = sorted(range(len(cases)), key=lambda i: -len(cases[i][1]['ops']) * len(cases[i][4]))
    for j, i in enumerate(order):
        chunks[j % len(chunks)].append(cases[i])
    chunks = [c for c in chunks if c]
    stat = collections.Counter()
    found = {}     # canonical signature -> [smallest violation, count]
    with mp.Pool(nproc) as pool:
        for counts, viol, samples, cs in pool.imap_unordered(work, [(c, fx, ctx.tier) for c in chunks]):
            stat.update(counts)
            for key, nt in cs:
                ctx.case(key, nontrivial=nt)
            for s in samples:
                ctx.sample(s)
            for v in viol:
                kx = vf.canon(v['sig'])
                if kx not in found:
                    found[kx] = [v, 0]
                found[kx][1] += 1
                if len(v['case']['spec']['ops']) < len(found[kx][0]['case']['spec']['ops']):
                    found[kx][0] = v
    for kx, (v, cnt) in sorted(found.items()):
        report(ctx, v, cnt)
    for kx, v in sorted(stat.items()):
        if ':' in kx and kx.split(':')[0] in PARTITIONERS:
            continue
        ctx.count(kx, v)
    per = {}
    for name in PARTITIONERS:
        per[CLASSNAME[name]] = dict(
            status=('proved (safety for all inputs; liveness for the repaired code and barrier-free input; unbounded) + model correspondence + oracle-checked' if name == 'Quick'
                    else 'proved (safety without the barrier clause for all inputs, scoring functions and checked qudit groups: C08_scan_regrouping; barrier clause refuted: C08_scan_barrier_absorbed; termination not proved) + model correspondence + oracle-checked' if name == 'Scan'
                    else 'oracle-checked'),
            accepted=stat.get(name + ':ok', 0), rejected_documented=stat.get(name + ':rejected', 0),
            raised=stat.get(name + ':exc', 0), good=stat.get(name + ':good', 0), bad=stat.get(name + ':bad', 0),
            blocks=stat.get(name + ':blocks', 0))
    per['QuickPartitioner']['model_agrees'] = stat.get('Quick:model_agrees', 0)
    per['QuickPartitioner']['hint_sets_with_choice'] = stat.get('Quick:hint_sets>1', 0)
    per['QuickPartitioner']['raised_pending_bins'] = stat.get('Quick:pending_bins', 0)
    for kx in ('model_agrees', 'model_agrees_on_refusal', 'scanned', 'whole_circuit_fold', 'model_skipped_large', 'groups_ok'):
        per['ScanPartitioner'][kx] = stat.get('Scan:' + kx, 0)
    ctx.cov['partitioners'] = per
    ctx.cov['functions_with_theorems'] = ['QuickPartitioner.run (partial correctness for all inputs: C08_quick_correct_partial; no RuntimeError for the repaired code / barrier-free input: C08_quick_all_emitted)',
                                          'ScanPartitioner.run + calculate_block + FastRegionIterator + find_best_block + fold_circuit (C08_scan_block_closed, C08_scan_step_inv, C08_scan_regrouping, C08_scan_good_partition for barrier-free input; barrier clause refuted C08_scan_barrier_absorbed)',
                                          'check_partition (C08_check_sound)']
    ctx.cov['correspondence_only'] = ['ScanPartitioner: termination of the while loop and non-emptiness of the chosen blocks (model results SLoop/SEmptyBlock/SFuel), the properties of calculate_qudit_groups (checked by the model on the replayed value: SBadGroups; and by groups_oracle)',
                                      'the two asserts of QuickPartitioner.run (EAssert/ENoBin/EFuel of the model)', 'Circuit.append/pop cycle placement', 'order-independence of `for p in partitioned_circuit.rear`']
    ctx.cov['uncovered'] = ['ClusteringPartitioner, GreedyPartitioner, GTQCPartitioner, TDAGPartitioner, GroupSingleQuditGatePass, ExtendBlockSizePass have no model: decided per run by the verified oracle']
    if not ctx.quick():
        # independent re-check of the compiled proofs
        rc, o_, e_ = vf.sh(['coqchk', '-silent', '-o', '-Q', str(vf.COQ), 'BQ', 'BQ.props.C08'], cwd=str(vf.COQ), timeout=1500)
        ctx.cov['coqchk'] = 'ok' if rc == 0 else 'failed'
        if rc != 0:
            ctx.broken_obligation('coqchk rejects the compiled proofs of props/C08.vo', (o_ + e_)[-2000:])
    ctx.cov['c08_wall_s'] = round(time.time() - t0, 1)


def report(ctx, v, cnt=1):
    """Shrink (unless it is a known finding) and hand to the violation protocol."""
    case = v['case']
    name = case['partitioner']
    if ctx._match_known(v['sig']) is None and v.get('symptom') and len(case['spec']['ops']) <= 200:
        try:
            sp = shrink(case['spec'], case['k'], case['seed'], name, v['symptom'])
            case = dict(case, spec=sp)
            v = dict(v, case=case, sig=sig_of(name, v['symptom'], sp, case['k']))
        except Exception:  # noqa
            pass
    for _ in range(cnt):
        ctx.violation(v['sig'], v['case'], v['expected'], v['observed'], v['what'], kind=v.get('kind', 'input'), corr=v.get('corr'))


def replay(ctx, data):
    impl()
    case = data['case']
    name = case['partitioner']
    spec, k, seed = case['spec'], case['k'], case.get('seed', 0)
    ctx.case(dict(spec=spec, k=k))
    fx = detect_fx()
    counts, viol, _, _ = work(([('replay', spec, k, seed, [name], 'replay')], fx, ctx.tier))
    for v in viol:
        report(ctx, v)
