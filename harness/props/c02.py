"""C02 - compile() output is executable on the target machine model.

Proof side: the workflow trees are regenerated from the live build_workflow objects
(harness/gen/gen_workflows.py -> coq/gen/Workflows.v), one reflective theorem per configuration
(coq/gen/WorkflowThms*.v, verified checker coq/wf/Check.v), statements in coq/props/C02.v.
When a generated theorem fails, the checker's counter-branch is turned into a concrete input class and
the REAL compile() is run on it.  On every run: a supporting real-compile() search with an independent
native-gates / coupling / width check, the reproduction of the known findings, and the extracted-model
correspondence for MachineModel.is_compatible and the ForEachBlockPass replace filters.
"""
from __future__ import annotations

import itertools
import random
import sys
import warnings
from pathlib import Path

import vf

sys.path.insert(0, str(Path(__file__).resolve().parent.parent))
sys.path.insert(0, str(Path(__file__).resolve().parent.parent / 'gen'))
import wfcommon as W  # noqa: E402

BUILD = dict(extracted=['wfcompat'], translators={'gen_workflows'})
WF_NAME = {'circuit': 'circuit', 'unitary': 'synthesis', 'state': 'stateprep', 'system': 'statemap'}


# ----------------------------------------------------------------------------------------------
# job sets
# ----------------------------------------------------------------------------------------------

model_spec = W.model_spec


def quick_jobs(rng: random.Random) -> list[dict]:
    J = []
    shapes = [
        ('line3', W.rand_circuit(rng, 3, 6), model_spec(3, 'line', 'default')),
        ('star4zx', W.rand_circuit(rng, 4, 6), model_spec(4, 'star', 'zx')),
        ('ccxgate', W.rand_circuit(rng, 3, 5, three=True), model_spec(3, 'line', 'czu3')),
        ('wide', W.rand_circuit(rng, 2, 4), model_spec(4, 'line', 'default')),
        ('barmeas', W.rand_circuit(rng, 3, 5, barrier=True, measure=True), model_spec(3, 'line', 'default')),
        ('block', W.rand_circuit(rng, 3, 5, block=True), model_spec(4, 'star', 'default')),
    ]
    for tag, cs, ms in shapes:
        for lvl in (1, 2):
            J.append(W.job('circuit', cs, ms, lvl, seed=rng.randrange(1000), tag=tag))
    J.append(W.job('unitary', None, model_spec(2, 'all', 'default'), 1, n=2, iseed=1, tag='utry'))
    return known_jobs() + vendor_jobs() + placement_jobs() + J


DEMO_SQ = dict(n=2, ops=[['h', [0], []], ['t', [1], []], ['cx', [0, 1], []], ['h', [1], []]])
ASYM7 = [(0, 1), (0, 2), (1, 2), (2, 3), (3, 4), (3, 5), (3, 6)]      # triangle 0-1-2, tail 2-3, star around 3


def placement_jobs() -> list[dict]:
    """Machine wider than the circuit, coupling graph that is NOT vertex transitive (the qudits the mapper picks and the
    qudits with the circuit's own indices have different neighbourhoods), level 3: every block is re-synthesised
    against the sub-model of the physical qudits it is placed on."""
    import numpy as np
    r = np.random.default_rng(20240917)
    ops = []
    for a, b in [(0, 1), (1, 2), (0, 2)]:
        for q in range(3):
            ops.append(['u3', [q], [float(x) for x in r.uniform(-np.pi, np.pi, 3)]])
        ops.append(['cx', [a, b], []])
    for q in range(3):
        ops.append(['u3', [q], [float(x) for x in r.uniform(-np.pi, np.pi, 3)]])
    ms = dict(n=7, edges=[list(e) for e in ASYM7], gates=None, gs='default', shape='asym7')
    return [W.job('circuit', dict(n=3, ops=ops), ms, 3, seed=1234, tag='placement-asym7-L3')]


def vendor_jobs(classes=('rzry', 'h1like', 'u1rx', 'u1sx', 'rzrx')) -> list[dict]:
    """One small run per gate-set class without a general single-qudit gate: vendor-like (RZ without SX / RX,
    Quantinuum-like) and the ZX bases {U1,RX}, {U1,SX}, {RZ,RX} ({RZ,SX} is in the main stream)."""
    return [W.job('circuit', DEMO_SQ, model_spec(2, 'all', mc), 1, seed=1234, tag='vendor-' + mc) for mc in classes]


def known_jobs() -> list[dict]:
    """Inputs that reproduce the open findings (they must keep reproducing, or the finding is stale)."""
    return [
        W.job('circuit', dict(n=3, ops=[['cx', [0, 2], []], ['u3', [0], [2.5, 0.6, 1.2]], ['cx', [1, 0], []],
                                        ['u3', [1], [0.3, 1.6, 2.2]], ['cx', [2, 1], []], ['cx', [0, 2], []],
                                        ['u3', [2], [1.3, 0.2, 0.7]], ['cx', [0, 1], []]]),
              model_spec(3, 'line', 'ccx'), 1, seed=0, tag='known-many'),
        W.job('circuit', dict(n=1, ops=[['h', [0], []], ['t', [0], []]]), model_spec(3, 'line', 'default'), 4,
              tag='known-noplace'),
        W.job('unitary', None, model_spec(3, 'line', 'default'), 1, n=2, iseed=2, tag='known-noplace-utry'),
    ]


def thorough_jobs(rng: random.Random, count: int) -> list[dict]:
    J = []
    shapes = ['line', 'ring', 'star', 'grid', 'tree', 'rand', 'all']
    gsets = ['default', 'zx', 'czu3', 'czzx', 'default', 'default']
    for i in range(count):
        n = rng.choice([1, 2, 3, 3, 4, 4, 5])
        extra = rng.choice([0, 0, 0, 1, 2])
        shape = rng.choice(shapes)
        gs = rng.choice(gsets)
        ms = model_spec(n + extra, shape, gs, rng)
        cs = W.rand_circuit(rng, n, rng.randint(3, 8), three=rng.random() < 0.3, barrier=rng.random() < 0.2,
                            measure=rng.random() < 0.2, block=rng.random() < 0.2)
        for lvl in (1, 2, 3, 4):
            J.append(W.job('circuit', cs, ms, lvl, seed=rng.randrange(1000) if rng.random() < 0.5 else None,
                           err=1e-3 if rng.random() < 0.2 else None, tag=f'rand{i}'))
    for i in range(max(4, count // 8)):
        n = rng.choice([1, 2, 2, 3])
        for kind in ('unitary', 'state', 'system'):
            gs = rng.choice(['default', 'zx', 'czu3'])
            J.append(W.job(kind, None, model_spec(n, rng.choice(['line', 'all']), gs), rng.choice([1, 2, 3, 4]), n=n,
                           iseed=i, tag=f'{kind}{i}'))
    return J + known_jobs()


# ----------------------------------------------------------------------------------------------
# judging one result
# ----------------------------------------------------------------------------------------------

def judge(ctx: vf.Ctx, js: dict, r: dict, source: str) -> bool:
    """Evaluate the C02 property on one real compile() result.  Returns True when a violation was reported."""
    kind, lvl = js['kind'], js['level']
    ms = js['model']
    gsname = ms.get('gs', 'default')
    width = js['circuit']['n'] if kind == 'circuit' else js['n']
    key = dict(kind=kind, level=lvl, model=gsname, shape=ms.get('shape'), n=ms['n'], tag=js.get('tag'),
               circ=js.get('circuit'), iseed=js.get('iseed'), seed=js.get('seed'))
    if r.get('skipped'):
        return False
    if r.get('timeout') or r.get('worker_failed'):
        ctx.count('compile_timeout' if r.get('timeout') else 'compile_worker_failed')
        return False
    ctx.case(key, nontrivial=True)
    ctx.count(f'compile_{kind}_L{lvl}')
    ctx.count(f'model_{gsname}_{ms.get("shape")}')
    if not r.get('ok'):
        ctx.count('compile_raised')
        ctx.cov.setdefault('compile_exceptions', [])
        if len(ctx.cov['compile_exceptions']) < 5:
            ctx.cov['compile_exceptions'].append(dict(tag=js.get('tag'), exc=r.get('exc')))
        return False
    o = r['c02']
    base = dict(workflow=WF_NAME[kind], level=lvl, model=gsname)
    many = gsname == 'ccx'
    noplace = kind != 'circuit' or (lvl == 4 and width == 1)
    found = False

    def viol(sym, expected, observed, what, **extra):
        nonlocal found
        sig = dict(base, symptom=sym, **extra)
        case = dict(job=js, source=source)
        if ctx.violation(sig, case, expected, observed, what):
            found = True
    if not o['width']:
        viol('width', f'{ms["n"]} qudits', f'{r["out_n"]} qudits', 'output does not have the model\'s width / radixes',
             no_apply_placement=noplace)
    if o['mq_bad']:
        viol('mq_not_native', 'only native multi-qudit gates', o['mq_bad'], 'non-native multi-qudit gate in the output')
    if o['sq_bad'] and gsname == 'nosq':
        # gate set without single-qudit gates: compile() only promises its best effort and logs a WARNING
        ctx.count('nosq_best_effort_sq_left')
    elif o['sq_bad']:
        viol('sq_not_native', 'only native single-qudit gates', o['sq_bad'], 'non-native single-qudit gate in the output')
    if not o['coupled']:
        viol('uncoupled', 'multi-qudit gates on coupled qudits only', o['uncoupled'],
             'multi-qudit gate on qudits that are not coupled in the model', model_has_many_qudit_gate=many)
    if o['is_compatible_stripped'] != o['independent']:
        viol('is_compatible_disagrees', o['independent'], o['is_compatible_stripped'],
             'MachineModel.is_compatible disagrees with the independent three-condition check', call='is_compatible')
    if o['has_placeholder'] and o['independent'] and o['is_compatible_raw'] is not True:
        viol('placeholder_rejected', True, o['is_compatible_raw'],
             'is_compatible rejects an executable circuit because it contains a barrier / measurement placeholder',
             call='is_compatible')
    if len(ctx.samples) < 4:
        ctx.sample(dict(tag=js.get('tag'), kind=kind, level=lvl, model=gsname, shape=ms.get('shape'),
                        input=js.get('circuit', {}).get('ops') if kind == 'circuit' else f'{kind} on {width} qudits',
                        out_ops=len(r['out']), pi=r['pi'], pf=r['pf'], oracle={k: o[k] for k in ('width', 'native', 'coupled', 'independent')}))
    return found


# ----------------------------------------------------------------------------------------------
# is_compatible / replace-filter correspondence (in process, no compile)
# ----------------------------------------------------------------------------------------------

def fmt(x) -> str:
    if isinstance(x, (list, tuple)):
        return '[' + ' '.join(fmt(y) for y in x) + ']'
    if isinstance(x, bool):
        return 'T' if x else 'F'
    return str(x)


def predicate_constants(ctx: vf.Ctx, budget: float):
    """The model-only predicates are evaluated by the LIVE predicate code for every configuration's gate set (that is
    what the generated trees are checked with) and, independently, by their documented meaning; a disagreement is a
    concrete gate set, confirmed through a real compile()."""
    import gen_workflows as G
    dis = G.constant_disagreements()
    ctx.cov['predicate_constant_checks'] = 5 * len(G.model_classes())
    for mc in G.model_classes():
        ctx.case(('predicate-constants', mc), nontrivial=True)
        ctx.count('predicate_constants_model')
    if not dis:
        return
    ctx.cov['predicate_disagreements'] = dis
    classes = sorted({d['model'] for d in dis if d['model'] in W.GATESETS})
    jobs = vendor_jobs(classes)
    hits = []

    def on_result(i, r):
        if judge(ctx, jobs[i], r, 'predicate %s disagrees with its documented meaning on this gate set' %
                 [d['predicate'] for d in dis if d['model'] == jobs[i]['model']['gs']]):
            hits.append(i)
        return len(hits) >= 2
    res = W.run_jobs(jobs, budget, on_result=on_result) if jobs else []
    if not hits:
        ctx.broken_obligation('a model-only predicate disagrees with its documented meaning (no failing compile() found)',
                              repr(dis))


def submodel_probe(ctx: vf.Ctx, count: int):
    """Pass-level probe of ForEachBlockPass.run: for random placements on random (non-symmetric) graphs the sub-model
    handed to each block must carry the machine graph restricted to placement[location] (this is what the abstract
    semantics assumes of a block: `block_inits` keeps `cpl` relative to the placed qudits)."""
    import asyncio
    from bqskit.ir.circuit import Circuit
    from bqskit.compiler.basepass import BasePass
    from bqskit.compiler.machine import MachineModel
    from bqskit.compiler.passdata import PassData
    from bqskit.ir.gates import CircuitGate, CNOTGate, HGate
    from bqskit.passes.control import foreach as fe

    class Probe(BasePass):
        async def run(self, circuit, data):
            data['probe_edges'] = sorted(tuple(sorted(e)) for e in data.model.coupling_graph)
            data['probe_n'] = data.model.num_qudits

    class FakeRuntime:
        def map(self, fn, *iters, **kw):
            async def go():
                return [await fn(*a) for a in zip(*iters)]
            return go()
    rng = ctx.rng
    saved = fe.get_runtime
    fe.get_runtime = lambda: FakeRuntime()
    try:
        for i in range(count):
            n = rng.randint(3, 7)
            w = rng.randint(2, min(4, n))
            es = [tuple(e) for e in W.graph_edges(rng.choice(['rand', 'tree', 'star', 'line', 'rand']), n, rng)]
            if i == 0:
                n, w, es = 7, 3, list(ASYM7)
            model = MachineModel(n, es)
            placement = rng.sample(range(n), w) if i else [0, 2, 3]
            circ = Circuit(w)
            locs = []
            for _ in range(rng.randint(1, 3)):
                k = rng.randint(1, min(3, w))
                loc = sorted(rng.sample(range(w), k))
                inner = Circuit(k)
                inner.append_gate(HGate(), 0)
                if k > 1:
                    inner.append_gate(CNOTGate(), (0, 1))
                circ.append_gate(CircuitGate(inner, True), loc)
                locs.append(loc)
            data = PassData(circ)
            data.model = model
            data.placement = placement
            key = ('submodel', n, tuple(es), tuple(placement), tuple(map(tuple, locs)))
            ctx.case(key, nontrivial=placement != list(range(w)))
            ctx.count('submodel_probe_' + ('identity' if placement == list(range(w)) else 'placed'))
            try:
                asyncio.run(fe.ForEachBlockPass(Probe()).run(circ, data))
                bds = data[fe.ForEachBlockPass.key][-1]
            except Exception as e:  # noqa
                ctx.broken_obligation('ForEachBlockPass sub-model probe raised', repr(e))
                return
            edges = {tuple(sorted(e)) for e in es}
            for bd in bds:
                sub = bd['subnumbering']
                loc = sorted(sub, key=lambda q: sub[q])
                want = sorted(tuple(sorted((sub[a], sub[b]))) for a in loc for b in loc
                              if a < b and tuple(sorted((placement[a], placement[b]))) in edges)
                got = bd['probe_edges']
                if got != want or bd['probe_n'] != len(loc):
                    ctx.violation(dict(call='ForEachBlockPass.run', symptom='submodel_ignores_placement'),
                                  dict(n=n, edges=es, placement=placement, location=loc, probe='submodel'), want, got,
                                  'the sub-model handed to a block is not the machine graph restricted to the physical '
                                  'qudits the block is placed on')
    finally:
        fe.get_runtime = saved


def sq_leaf_probe(ctx: vf.Ctx):
    """Pass-level validation of the assumed-and-tested `sq_native` contract of the single-qudit retarget leaves, per
    gate-set class: the block body of the LIVE build_single_qudit_retarget_workflow (IfThenElse over SinglePhysical /
    HasGeneral / ZX selecting GeneralSQDecomposition / ZXZXZDecomposition) is run directly (asyncio, PassData with the
    class's model) on a few 1-qubit blocks; only native single-qudit gates may come out and the unitary must be kept up to
    a global phase.  Classes whose selected leaf is the numerical single-qudit search are left to the compile() runs."""
    import asyncio
    import numpy as np
    import gen_workflows as G
    from bqskit.ir.circuit import Circuit
    from bqskit.compiler.compile import build_single_qudit_retarget_workflow
    from bqskit.compiler.passdata import PassData
    from bqskit.compiler.workflow import Workflow
    from bqskit.passes.control.foreach import ForEachBlockPass

    def leaves(p, acc):
        if isinstance(p, Workflow):
            for x in p:
                leaves(x, acc)
            return acc
        acc.append(type(p).__name__)
        for v in vars(p).values():
            if isinstance(v, Workflow):
                leaves(v, acc)
        return acc

    def find_body(p):
        if isinstance(p, ForEachBlockPass) and 'GeneralSQDecomposition' in leaves(p.workflow, []):
            return p.workflow
        subs = list(p) if isinstance(p, Workflow) else [v for v in vars(p).values() if isinstance(v, Workflow)]
        for x in subs:
            r = find_body(x)
            if r is not None:
                return r
        return None
    try:
        body = find_body(Workflow(build_single_qudit_retarget_workflow(1)))
    except Exception as e:  # noqa
        body = None
        ctx.cov['sq_leaf_probe_error'] = repr(e)
    if body is None:
        ctx.broken_obligation('single-qudit retarget leaf probe: block body not found in build_single_qudit_retarget_workflow', '')
        return
    gt = W.gate_table()
    r = np.random.RandomState(11)
    blocks = [[('h', [])], [('t', []), ('h', []), ('s', [])], [('x', [])],
              [('u3', [float(x) for x in r.uniform(-3, 3, 3)])],
              [('rz', [0.7]), ('rx', [1.9]), ('ry', [-2.3])],
              [('u3', [float(x) for x in r.uniform(-3, 3, 3)]), ('sx', [])]]
    for mc in G.model_classes():
        model = G.build_model(mc, 2)
        live = G.cfg_constants(model)
        if live['nosq_model'] or not (live['has_gen'] or live['zx_model']):
            ctx.count('sq_leaf_probe_skipped_search_class')
            continue
        native = set(model.gate_set)
        for ops in blocks:
            c = Circuit(1)
            for g, ps in ops:
                c.append_gate(gt[g], 0, ps)
            u_in = c.get_unitary().numpy
            data = PassData(c)
            data.model = model
            key = ('sq-leaf', mc, tuple((g, tuple(ps)) for g, ps in ops))
            ctx.case(key, nontrivial=True)
            ctx.count('sq_leaf_probe')
            case = dict(probe='sq_leaf', model=mc, gates=sorted(g.name for g in native), block=ops)
            try:
                asyncio.run(body.run(c, data))
            except Exception as e:  # noqa
                ctx.violation(dict(call='sq_retarget_leaf', model=mc, symptom='raised'), case, 'a native 1-qubit circuit',
                              repr(e)[:300], 'the single-qudit retarget leaf raised on a 1-qubit block')
                continue
            c.unfold_all()
            bad = sorted({op.gate.name for op in c if op.gate not in native})
            if bad:
                ctx.violation(dict(call='sq_retarget_leaf', model=mc, symptom='sq_not_native'), case,
                              'only gates of ' + str(case['gates']), bad,
                              'the single-qudit retarget leaf selected for this gate set emits a gate the model lacks')
            ov = abs(np.trace(u_in.conj().T @ c.get_unitary().numpy)) / 2
            if ov < 1 - 1e-8:
                ctx.violation(dict(call='sq_retarget_leaf', model=mc, symptom='unitary_changed'), case, 'overlap 1', float(ov),
                              'the single-qudit retarget leaf changed the block unitary (beyond a global phase)')


def corpus_calls(ctx: vf.Ctx):
    """corpus/C02/call-*.json: witnesses of (fixed) findings about is_compatible / _is_respecting: run first."""
    import json
    from bqskit.ir.circuit import Circuit
    from bqskit.compiler.machine import MachineModel
    from bqskit.passes.control import foreach as fe
    gt = W.gate_table()
    for f in sorted((vf.ROOT / 'corpus' / 'C02').glob('call-*.json')):
        d = json.loads(f.read_text())
        m = MachineModel(d['n'], [tuple(e) for e in d['edges']], {gt[g] for g in d['gates']})
        c = Circuit(d['width'])
        for g, loc in d['ops']:
            c.append_gate(gt[g], loc, [0.1] * gt[g].num_params)
        if d['call'] == 'is_compatible':
            got = bool(m.is_compatible(c, d['placement']))
        else:
            got = bool(fe._is_respecting(c, d['loc'], m, d['fully']))
        ctx.case(('corpus', f.stem), nontrivial=True)
        ctx.count('corpus_call')
        if got != d['expected']:
            ctx.violation(dict(call=d['call'], symptom='corpus_witness_fails'), dict(corpus=f.name, **d), d['expected'], got,
                          'a corpus witness of a fixed finding fails again')


def correspondence(ctx: vf.Ctx, count: int):
    from bqskit.ir.circuit import Circuit  # noqa: F401
    from bqskit.compiler.machine import MachineModel
    from bqskit.ir.operation import Operation
    from bqskit.ir.gates import CircuitGate, BarrierPlaceholder, MeasurementPlaceholder, Reset
    from bqskit.passes.control import foreach as fe
    rng = ctx.rng
    gt = W.gate_table()
    PH = ['barrier2', 'barrier3', 'measure1', 'measure2', 'reset1']      # placeholders: not gates (C02-F5, fixed in 3be8a2b)
    names = ['h', 't', 'u3', 'rz', 'sx', 'cx', 'cz', 'swap', 'ccx'] + PH
    NG = len(names) - len(PH)
    gid = {n: i for i, n in enumerate(names)}
    arity = {'cx': 2, 'cz': 2, 'swap': 2, 'ccx': 3, 'barrier2': 2, 'barrier3': 3, 'measure2': 2}
    lines, expect = [], []

    def rcirc(n, k, allow_barrier):
        ops = []
        for _ in range(k):
            g = rng.choice(names if allow_barrier else names[:NG])
            a = arity.get(g, 1)
            if a > n:
                continue
            ops.append((g, rng.sample(range(n), a)))
        return ops

    def real_circ(n, ops):
        c = Circuit(n)
        for g, loc in ops:
            if g.startswith('barrier'):
                c.append_gate(BarrierPlaceholder(len(loc)), loc)
            elif g.startswith('measure'):
                c.append_gate(MeasurementPlaceholder([('c', len(loc))], {i: ('c', i) for i in range(len(loc))}), loc)
            elif g == 'reset1':
                c.append_gate(Reset(), loc)
            else:
                gate = gt[g]
                c.append_gate(gate, loc, [0.1] * gate.num_params)
        return c

    def mtxt(n, gs, es):
        return f'{n} {fmt([gid[g] for g in gs])} {fmt([list(e) for e in es])} {fmt([2] * n)}'

    def ctxt(n, ops):
        return f'{n} {fmt([2] * n)} {fmt([[gid[g], loc] for g, loc in ops])}'
    for i in range(count):
        n = rng.randint(1, 6)
        shape = rng.choice(['line', 'ring', 'star', 'grid', 'tree', 'rand', 'all'])
        es = W.graph_edges(shape, n, rng)
        if es is None:
            es = [(a, b) for a in range(n) for b in range(a + 1, n)]
        es = [tuple(e) for e in es if e[0] != e[1]]
        if rng.random() < 0.3:      # edges given in either orientation (the constructor normalises)
            es = [(b, a) if rng.random() < 0.5 else (a, b) for a, b in es]
        gs = rng.sample(names[:NG], rng.randint(1, NG))
        if not any(g in arity for g in gs):
            gs.append('cx')
        model = MachineModel(n, es if es else None, {gt[g] for g in gs}) if n > 1 or es else MachineModel(n, None, {gt[g] for g in gs})
        if not es:
            es = [(a, b) for a in range(n) for b in range(a + 1, n)]
        w = rng.randint(1, n) if rng.random() < 0.85 else n + 1       # malformed stream: circuit wider than machine
        ops = rcirc(w, rng.randint(0, 6), rng.random() < 0.15)
        circ = real_circ(w, ops)
        mode = rng.random()
        if mode < 0.35 or w > n:
            pl, pltxt = None, 'none'
        else:
            pl = rng.sample(range(n), w)
            if mode < 0.6:
                pl = sorted(pl)
            pltxt = fmt(pl)
        # placeholders (finding C02-F5, repaired in 3be8a2b): the raw circuit goes to the placeholder-aware model
        # (is_compatible_ph) AND its verdict must be the verdict on the circuit with the placeholders removed
        has_ph = any(g in PH for g, _ in ops)
        if has_ph:
            try:
                raw = 'T' if model.is_compatible(circ, pl) else 'F'
            except Exception:  # noqa
                raw = 'ERR'
            key_ph = ('compatph', n, tuple(es), tuple(gs), w, tuple((g, tuple(l)) for g, l in ops), tuple(pl) if pl else None)
            ctx.case(key_ph, nontrivial=True)
            lines.append(f'compatph {fmt([gid[g] for g in PH])} {mtxt(n, gs, es)} {ctxt(w, ops)} {pltxt}')
            expect.append(('compat', raw, key_ph, None))
            ops = [(g, l) for g, l in ops if g not in PH]
            circ = real_circ(w, ops)
            try:
                stripped = 'T' if model.is_compatible(circ, pl) else 'F'
            except Exception:  # noqa
                stripped = 'ERR'
            ctx.count('compat_with_placeholder')
            if stripped != raw:
                ctx.violation(dict(call='is_compatible', symptom='placeholder_rejected' if raw == 'F' else 'placeholder_changes_verdict'),
                              dict(n=n, edges=es, gates=gs, width=w, ops=[list(k) for k in key_ph[5]], placement=pl, barrier=True), stripped, raw,
                              'is_compatible gives a different verdict for a circuit with and without its barrier / '
                              'measurement / reset placeholders')
        try:
            impl = 'T' if model.is_compatible(circ, pl) else 'F'
        except Exception:  # noqa
            impl = 'ERR'
        key = ('compat', n, tuple(es), tuple(gs), w, tuple((g, tuple(l)) for g, l in ops), tuple(pl) if pl else None)
        ctx.case(key, nontrivial=len(ops) > 0)
        ctx.count('compat_' + ('identity' if pl is None else 'monotone' if pl == sorted(pl) else 'nonmonotone'))
        lines.append(f'compat {mtxt(n, gs, es)} {ctxt(w, ops)} {pltxt}')
        expect.append(('compat', impl, key, None))
        # independent oracle on the implementation's answer
        plx = pl if pl is not None else list(range(w))
        if w <= n:
            edges = {tuple(sorted(e)) for e in es}
            native = all(g in gs for g, _ in ops)
            coupled = all(tuple(sorted((plx[a], plx[b]))) in edges for g, loc in ops for a, b in itertools.combinations(loc, 2))
            indep = 'T' if native and coupled else 'F'
            has_bar = False
            mono = all(plx[min(a, b)] <= plx[max(a, b)] for g, loc in ops for a, b in itertools.combinations(loc, 2))
            if impl != indep and not has_bar:
                sig = dict(call='is_compatible', symptom='wrong_verdict', monotone_placement=mono)
                ctx.violation(sig, dict(n=n, edges=es, gates=gs, width=w, ops=ops, placement=pl), indep, impl,
                              'MachineModel.is_compatible differs from the independent check (native gates, coupling after placement)')
            lines.append(f'spec {mtxt(n, gs, es)} {ctxt(w, ops)} {fmt(plx)}')
            expect.append(('spec', f'[{indep} {"T" if mono else "F"}]', key, None))
        # replace filters on a block at a location
        if n >= 2:
            bw = rng.randint(1, min(3, n))
            loc = rng.sample(range(n), bw)
            if rng.random() < 0.6:
                loc = sorted(loc)
            old_ops = rcirc(bw, rng.randint(0, 4), False)
            new_ops = rcirc(bw, rng.randint(0, 4), False)
            oldc, newc = real_circ(bw, old_ops), real_circ(bw, new_ops)
            fully = rng.random() < 0.5
            impl_r = 'T' if fe._is_respecting(newc, loc, model, fully) else 'F'
            # independent meaning of "respecting": native multi-qudit gates (all gates when fully), every
            # interacting pair of the block coupled at its location
            edges_s = {tuple(sorted(e)) for e in es}
            want_r = (all(g in gs for g, l in new_ops if len(l) >= 2) and (not fully or all(g in gs for g, l in new_ops if len(l) < 2))
                      and all(tuple(sorted((loc[a], loc[b]))) in edges_s for g, l in new_ops for a, b in itertools.combinations(l, 2)))
            if (impl_r == 'T') != want_r:
                inc = all(loc[min(a, b)] <= loc[max(a, b)] for g, l in new_ops for a, b in itertools.combinations(l, 2))
                ctx.violation(dict(call='_is_respecting', symptom='wrong_verdict', increasing_location=inc),
                              dict(n=n, edges=es, gates=gs, loc=loc, block=new_ops, fully=fully), want_r, impl_r == 'T',
                              '_is_respecting differs from its documented meaning (block can run on the machine at the location)')
            lines.append(f'resp {mtxt(n, gs, es)} {ctxt(bw, new_ops)} {fmt(loc)} {fmt(fully)}')
            expect.append(('resp', impl_r, ('resp',) + key[1:4] + (tuple(loc), fully, tuple((g, tuple(l)) for g, l in new_ops)), None))
            old_is_cg = rng.random() < 0.8
            if old_is_cg:
                old_op = Operation(CircuitGate(oldc, True), loc, oldc.params)
                oldtxt = f'[{ctxt(bw, old_ops)}]'
            else:
                old_op = Operation(gt['u3'], [loc[0]], [0, 0, 0])
                oldtxt = 'none'
            method = rng.choice(['less-than-respecting', 'less-than-respecting-multi', 'less-than-respecting-many'])
            if fully:
                method = method.replace('respecting', 'respecting-fully')
            inner = {'less-than-respecting': fe._less_than, 'less-than-respecting-multi': fe._less_than_multi,
                     'less-than-respecting-many': fe._less_than_many}[method.replace('-fully', '')]
            fn = bool(inner(newc, old_op))
            flt = fe.gen_replace_filter(method, model)
            impl_f = 'T' if flt(newc, old_op) else 'F'
            lines.append(f'ltr {mtxt(n, gs, es)} {fmt(fully)} {ctxt(bw, new_ops)} {oldtxt} {fmt(loc)} {fmt(fn)}')
            expect.append(('ltr', impl_f, ('ltr', method) + key[1:4] + (tuple(loc),), None))
            ctx.count('filter_' + method)
            # property oracle: a respecting old block is never replaced by a non-respecting one
            if old_is_cg and fe._is_respecting(oldc, loc, model, fully) and impl_f == 'T' and impl_r == 'F':
                ctx.violation(dict(call='replace_filter', symptom='accepts_non_respecting'),
                              dict(n=n, edges=es, gates=gs, loc=loc, old=old_ops, new=new_ops, method=method), 'rejected',
                              'accepted', 'replace filter accepted a block that stops respecting the model')
    out = vf.run_model('wfcompat', lines)
    if len(out) != len(lines):
        ctx.broken_obligation('correspondence wfcompat: wrong number of answers', f'{len(out)} vs {len(lines)}')
        return
    mism = 0
    for line, got, (kind, impl, key, _) in zip(lines, out, expect):
        if kind == 'compat' and got == 'ERR' and impl != 'ERR':
            # the model declines (index out of range in the model's view) but the code answered: malformed stream only
            ctx.count('compat_model_declines')
            continue
        if got != impl and not (kind == 'compat' and impl == 'ERR'):
            mism += 1
            ctx.mismatch(f'coq/wf/IsCompat.v ({kind}) vs bqskit', dict(query=line), got, impl)
    ctx.cov['model_queries'] = len(lines)
    ctx.cov['model_mismatches'] = mism


# ----------------------------------------------------------------------------------------------
# main
# ----------------------------------------------------------------------------------------------

def run(ctx: vf.Ctx):
    warnings.simplefilter('ignore')
    ctx.uses_translators = BUILD['translators']
    ctx.build(**BUILD)
    import gen_workflows as G
    cfgs = G.configs()
    ctx.cov['workflow_configurations'] = len(cfgs)
    ctx.rule = ('proof: one reflective theorem per build_workflow configuration (input kind x level x error_threshold x '
                'seed x model class x width; list in coq/gen/Workflows.v). cases: (a) real compile() runs in an isolated '
                'child (independent width / native-gate / coupling check + is_compatible on the result): seeded random '
                'circuits over line/star/ring/grid/tree/random graphs and gate sets, incl. 3-qudit gates, barriers, '
                'measurements, pre-blocked gates, machines wider than the circuit, plus the inputs reproducing the open '
                'findings; (b) extracted-model correspondence for is_compatible / _is_respecting / replace filters on '
                'random circuits x graphs x gate sets x placements. non-trivial = the circuit has at least one operation '
                '(compile jobs: always); distinct by canonical case text')
    ctx.assumptions += [
        'leaf contracts of coq/wf/Contracts.v (AssumedAndTested: synthesis, rebase, scanning removal, ZXZXZ / general '
        'SQ decomposition, PAM passes; ProvedElsewhere: partitioners, unfold, measurements, SABRE, placement)',
        'qubit models only (radix 2); qutrit workflows are not generated',
        'numerical tuning options of the leaves (instantiate options, SABRE weights, heuristics) do not change the contracts',
    ]
    ctx.trusted = ['Coq 8.16.1 kernel + vm_compute', 'harness/gen/gen_workflows.py (walks the live Workflow objects, fail-closed)',
                   'ExtrOcamlBasic extraction + OCaml 4.13.1 + coq/extract/wfcompat_driver.ml',
                   'harness/wfcommon.py oracles (numpy), python harness']
    import time
    broken_before = len(ctx.broken)
    t_c = time.time()
    if ctx.broken:
        W.theorem_failure_search(ctx, 'c02', 420 if ctx.quick() else 1200, judge, thorough_jobs)
    # ---- correspondence ---------------------------------------------------------------------
    corpus_calls(ctx)
    submodel_probe(ctx, ctx.n(60, 600))
    sq_leaf_probe(ctx)
    predicate_constants(ctx, 120 if ctx.quick() else 600)
    if ctx.extract_ok.get('wfcompat'):
        correspondence(ctx, ctx.n(400, 4000))
    # ---- supporting real-compile() search ------------------------------------------------------
    jobs = W.corpus_jobs('C02') + (quick_jobs(ctx.rng) if ctx.quick() else thorough_jobs(ctx.rng, 100))
    ctx.cov['corpus_jobs'] = sum(1 for j in jobs if str(j.get('tag', '')).startswith('corpus:'))
    budget = max(60.0, 175.0 - (time.time() - t_c)) if ctx.quick() else 1500
    res = W.run_jobs(jobs, budget)
    for js, r in zip(jobs, res):
        judge(ctx, js, r, 'supporting search')
    ctx.cov['compile_jobs'] = len(jobs)
    ctx.cov['compile_runner'] = getattr(W.run_jobs, 'last_info', None)
    ctx.cov['compile_jobs_finished'] = sum(1 for r in res if r.get('ok'))
    ctx.cov['compile_seconds'] = [r.get('secs') for r in res if r.get('ok')]


def replay(ctx: vf.Ctx, data: dict):
    warnings.simplefilter('ignore')
    case = data.get('case') or {}
    if isinstance(case, dict) and 'job' in case:
        js = case['job']
        res = W.run_jobs([js], 600)
        judge(ctx, js, res[0], 'replay')
        return
    if data.get('kind') == 'broken-obligation':
        run(ctx)
        return
    if isinstance(case, dict) and case.get('probe') == 'sq_leaf':
        sq_leaf_probe(ctx)
        return
    if isinstance(case, dict) and case.get('probe') == 'submodel':
        submodel_probe(ctx, 5)
        return
    # correspondence / is_compatible cases
    if isinstance(case, dict) and 'placement' in case:
        from bqskit.ir.circuit import Circuit
        from bqskit.compiler.machine import MachineModel
        gt = W.gate_table()
        m = MachineModel(case['n'], [tuple(e) for e in case['edges']], {gt[g] for g in case['gates']})
        c = Circuit(case['width'])
        for g, loc in case['ops']:
            c.append_gate(gt[g], loc, [0.1] * gt[g].num_params)
        pl = case['placement']
        plx = pl if pl is not None else list(range(case['width']))
        edges = {tuple(sorted(e)) for e in case['edges']}
        indep = all(g in case['gates'] for g, _ in case['ops']) and all(
            tuple(sorted((plx[a], plx[b]))) in edges for g, loc in case['ops'] for a, b in itertools.combinations(loc, 2))
        impl = bool(m.is_compatible(c, pl))
        ctx.case(('replay', str(case)))
        if impl != indep:
            ctx.violation(data.get('signature', dict(call='is_compatible')), case, indep, impl, data.get('what', 'is_compatible differs'))
