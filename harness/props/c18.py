"""C18 - every library gate obeys the gate contract for all parameters.

Proof side: coq/props/C18.v (unitarity, gradient = derivative, inverse for ALL real
parameters, for the transcribed classes; generic theorems for the composed gates).
This module ties the transcription to /repo:

 (a) correspondence: for every concrete class exported by bqskit.ir.gates x constructor
     grid x parameter vectors, the Coq transcription (extracted model `gates`, printed as
     S-expressions, evaluated in floats by harness/exprval.py) == get_unitary / get_grad /
     get_unitary_and_grad;
 (b) property oracle, independent of the model: unitarity, advertised dim/radixes, gradient
     vs central finite differences, get_unitary_and_grad, inverse, calc_params, optimize,
     composed gates == numpy composition of their parts, eq/hash/pickle, Qiskit reference.
A class with no transcription is listed in evidence coverage['uncovered'].
"""
from __future__ import annotations

import inspect
import itertools
import math
import pickle
import warnings

import numpy as np

import exprval
import vf

BUILD = dict(extracted=['gates'], translators=set())


# panics of the native expression backend (pyo3_runtime.PanicException) derive from BaseException,
# so the per-clause handlers catch BaseException (interpreter exits are re-raised at the top level)
CATCH = BaseException


PI = math.pi
ALIASES = {'CXGate': 'CNOTGate', 'ToffoliGate': 'CCXGate', 'MargolusGate': 'RCCXGate',
           'SXGate': 'SqrtXGate', 'SXdgGate': 'SqrtXdgGate'}
# exported names that are not unitary-valued library gates (base classes, circuit pseudo-ops)
NOT_GATES = {'ComposedGate': 'abstract base', 'QuditGate': 'abstract base', 'GeneralGate': 'abstract base',
             'Reset': 'pseudo-operation (get_unitary raises by design)',
             'MeasurementPlaceholder': 'pseudo-operation', 'BarrierPlaceholder': 'pseudo-operation (identity placeholder)'}
# classes checked by the oracle only (no transcription): reported as uncovered
ORACLE_ONLY = {'PauliGate': 'matrix exponential (scipy expm / dexpmv)',
               'VariableUnitaryGate': 'closest unitary via SVD',
               'VariableLocationGate': 'softmax mixture + closest unitary via SVD',
               'ConstantUnitaryGate': 'arbitrary float matrix',
               'PermutationGate': 'PermutationMatrix (property C20)',
               'CircuitGate': 'circuit simulation (property C06)'}


# ----------------------------------------------------------------------------------------
# gate descriptions:  JSON-able dicts  ->  (implementation object, model spec string)
# ----------------------------------------------------------------------------------------
def G():
    import bqskit.ir.gates as g
    return g


def D(cls, *args, **kw):
    return dict(cls=cls, args=list(args), kw=kw)


def build(d):
    """description -> Gate instance (constructor exceptions propagate)."""
    g = G()
    cls = d['cls']
    kw = dict(d.get('kw', {}))
    if cls in ('U1qPiGate', 'U1qPi2Gate'):
        return getattr(g, cls)
    if 'inner' in d:
        inner = build(d['inner'])
        if cls == 'FrozenParameterGate':
            return g.FrozenParameterGate(inner, {int(k): v for k, v in d['frozen']})
        if cls == 'VariableLocationGate':
            return g.VariableLocationGate(inner, [tuple(l) for l in d['args'][0]], *d['args'][1:])
        return getattr(g, cls)(inner, *d['args'], **kw)
    if cls == 'ConstantUnitaryGate':
        from bqskit.qis.unitary.unitarymatrix import UnitaryMatrix
        rng = np.random.default_rng(d['args'][0])
        dim = int(np.prod(d['args'][1]))
        q, _ = np.linalg.qr(rng.normal(size=(dim, dim)) + 1j * rng.normal(size=(dim, dim)))
        return g.ConstantUnitaryGate(UnitaryMatrix(q, d['args'][1]), d['args'][1])
    if cls == 'CircuitGate':
        from bqskit.ir.circuit import Circuit
        c = Circuit(2)
        c.append_gate(g.U3Gate(), 0)
        c.append_gate(g.CNOTGate(), (0, 1))
        c.append_gate(g.RZGate(), 1)
        return g.CircuitGate(c)
    return getattr(g, cls)(*d['args'], **kw)


def _ints(l):
    return '[' + ' '.join(str(int(x)) for x in l) + ']'


def _frac(x: float):
    n, dd = float(x).as_integer_ratio()
    return n, dd


def spec(d, fixed_idx):
    """description -> spec string for the extracted model, or None (no transcription)."""
    cls = d['cls']
    a = d.get('args', [])
    kw = d.get('kw', {})
    if cls in fixed_idx and not a and not kw and 'inner' not in d:
        return f'[fixed {fixed_idx[cls]}]'
    if cls in ('HGate', 'ShiftGate', 'ClockGate', 'SwapGate', 'CSUMGate'):
        dflt = {'HGate': 2, 'ShiftGate': 2, 'ClockGate': 3, 'SwapGate': 2, 'CSUMGate': 3}[cls]
        r = a[0] if a else kw.get('radix', dflt)
        return '[%s %d]' % ({'HGate': 'H', 'ShiftGate': 'Shift', 'ClockGate': 'Clock', 'SwapGate': 'Swap',
                             'CSUMGate': 'CSUM'}[cls], r)
    if cls == 'PDGate':
        return '[PD %d %d]' % (a[0], a[1] if len(a) > 1 else 3)
    if cls == 'SubSwapGate':
        r = a[0]
        (l1, l2) = [tuple(int(x) for x in s.split(',')) for s in a[1].split(';')]
        return '[SubSwap %d %d %d]' % (r, l1[0] * r + l1[1], l2[0] * r + l2[1])
    if cls == 'IdentityGate':
        n = a[0] if a else 1
        rx = a[1] if len(a) > 1 and a[1] else [2] * n
        return '[Identity %s]' % _ints(rx)
    if cls == 'ArbitraryCPhaseGate':
        rx = a[0] if a and a[0] else [2, 2]
        return '[ACP %s]' % _ints(rx)
    if cls == 'DiagonalGate':
        return '[Diag %d]' % (a[0] if a else 2)
    if cls in ('MPRYGate', 'MPRZGate'):
        n = a[0]
        t = a[1] if len(a) > 1 else -1
        if t == -1:
            t = n - 1
        return '[%s %d %d]' % (cls[:4], n, t)
    if cls == 'PauliZGate':
        return '[PauliZ %d]' % a[0]
    if cls == 'RSU3Gate':
        return '[RSU3 %d]' % a[0]
    if cls in ('CKMGate', 'CKMdgGate'):
        # two transcriptions of get_grad exist: the one of the pinned commit (proved NOT to be the
        # derivative, C18_grad_CKM_refuted) and the repaired one of fixes/C18-F1.patch (proved correct).
        # The implementation must equal one of them; which one is decided by a finite-difference probe.
        return '[%s%s]' % (cls[:-4], 'fixed' if _ckm_is_repaired(cls) else '')
    if cls in ('U1qPiGate', 'U1qPi2Gate'):
        n, dd = _frac(PI if cls == 'U1qPiGate' else PI / 2)
        return '[frozen [fixed %d] [[0 %d %d]]]' % (fixed_idx['U1qGate'], n, dd)
    if 'inner' not in d:
        return None
    s = spec(d['inner'], fixed_idx)
    if s is None:
        return None
    if cls == 'DaggerGate':
        return f'[dagger {s}]'
    if cls == 'TaggedGate':
        return f'[tagged {s}]'
    if cls == 'PowerGate':
        return '[power %s %d]' % (s, a[0] if a else kw.get('power', 1))
    if cls == 'FrozenParameterGate':
        ent = []
        for k, v in d['frozen']:
            n, dd = _frac(v)
            if abs(n) >= 2 ** 61 or dd >= 2 ** 61:
                return None
            ent.append('[%d %d %d]' % (int(k), n, dd))
        return '[frozen %s [%s]]' % (s, ' '.join(ent))
    if cls == 'ControlledGate':
        nc = a[0] if len(a) > 0 else kw.get('num_controls', 1)
        cr = a[1] if len(a) > 1 else kw.get('control_radixes', 2)
        cl = a[2] if len(a) > 2 else kw.get('control_levels', None)
        crs = '[int %d]' % cr if isinstance(cr, int) else '[list %s]' % _ints(cr)
        if cl is None:
            cls_ = 'none'
        elif isinstance(cl, int):
            cls_ = '[int %d]' % cl
        else:
            cls_ = '[list [%s]]' % ' '.join('[int %d]' % x if isinstance(x, int) else '[list %s]' % _ints(x) for x in cl)
        return '[ctrl %s %d %s %s]' % (s, nc, crs, cls_)
    if cls == 'EmbeddedGate':
        er = a[0]
        em = a[1] if len(a) > 1 else kw.get('level_maps', None)
        ers = '[int %d]' % er if isinstance(er, int) else '[list %s]' % _ints(er)
        if em is None:
            ems = 'none'
        elif em and isinstance(em[0], int):
            ems = '[one %s]' % _ints(em)
        else:
            ems = '[list [%s]]' % ' '.join(_ints(x) for x in em)
        return '[embedded %s %s %s]' % (s, ers, ems)
    return None


def input_class(d):
    """coarse class of the constructor arguments, part of the violation signature."""
    cls = d['cls']
    a = d.get('args', [])
    if cls == 'ArbitraryCPhaseGate':
        rx = a[0] if a and a[0] else [2, 2]
        return 'all_qubits_or_all_qutrits' if set(rx) in ({2}, {3}) else 'other_radixes'
    if cls in ('MPRZGate', 'MPRYGate'):
        return 'n=1' if a and a[0] == 1 else 'n>=2'
    if cls == 'FrozenParameterGate':
        return 'some_frozen' if d.get('frozen') else 'none_frozen'
    if cls == 'ControlledGate':
        try:
            return 'constant_inner' if build(d['inner']).num_params == 0 else 'parameterized_inner'
        except CATCH:  # noqa
            return None
    if cls == 'PowerGate' and 'inner' in d:
        try:
            k = a[0] if a else d.get('kw', {}).get('power', 1)
            if k == 0 and set(build(d['inner']).radixes) not in ({2}, {3}):
                return 'power0_other_radixes'
        except CATCH:  # noqa
            return None
    if cls == 'EmbeddedGate':
        try:
            inner = build(d['inner'])
            if inner.num_params == 0:
                gr = np.asarray(inner.get_grad([]))
                if gr.ndim != 3 and len(gr) > 0:
                    return 'inner_grad_malformed'
        except CATCH:  # noqa
            return None
    return None


def _guessable(rx):
    return set(rx) in ({2}, {3})


_RC_CACHE: dict = {}


def root_cause(d):
    key = vf.canon(d)
    if key not in _RC_CACHE:
        _RC_CACHE[key] = _root_cause(d)
    return _RC_CACHE[key]


def _root_cause(d):
    """If this description itself has the shape of a known root cause (known_findings.d/C18.json),
    name it; used to keep consequences of a defective sub-gate out of the generated compositions."""
    cls = d['cls']
    try:
        if cls in ('CKMGate', 'CKMdgGate', 'VariableLocationGate'):
            return cls
        if cls == 'ArbitraryCPhaseGate' and input_class(d) == 'other_radixes':
            return 'ACP_other_radixes'
        if cls == 'EmbeddedGate' and input_class(d) == 'inner_grad_malformed':
            return 'embedded_over_malformed_grad'
        if cls == 'ControlledGate' and 'inner' in d:
            inner = build(d['inner'])
            if inner.num_params == 0 and len(np.asarray(inner.get_grad([])).shape) != 3:
                return 'controlled_over_1d_empty_grad'
        if cls == 'PowerGate':
            k = d['args'][0] if d['args'] else d.get('kw', {}).get('power', 1)
            if k == 0 and not _guessable(build(d['inner']).radixes):
                return 'power0_other_radixes'
    except CATCH:  # noqa
        return None
    return None


def tainted(d):
    """a strict sub-gate of d is a known root cause (d's own failures would be consequences)."""
    x = d
    while 'inner' in x:
        x = x['inner']
        if root_cause(x):
            return True
    return False


def optimize_owner(d):
    """the class whose optimize() is actually executed: Tagged/Dagger delegate to the inner gate."""
    while d['cls'] in ('TaggedGate', 'DaggerGate') and 'inner' in d:
        d = d['inner']
    return d


def _ckm_is_repaired(cls):
    g = getattr(G(), cls)()
    p = np.array([0.3, -0.7, 1.1, 0.9])
    h = 1e-6
    fd = np.array([(np.asarray(g.get_unitary(p + h * e)) - np.asarray(g.get_unitary(p - h * e))) / (2 * h) for e in np.eye(4)])
    return bool(np.abs(fd - np.asarray(g.get_grad(p))).max() < 1e-6)


def root_cls(d):
    while 'inner' in d:
        d = d['inner']
    return d['cls']


# ----------------------------------------------------------------------------------------
# constructor grids
# ----------------------------------------------------------------------------------------
def base_grid(ctx, fixed_names):
    ds = [D(n) for n in fixed_names]
    for r in (2, 3, 4, 5):
        ds += [D('HGate', r), D('ShiftGate', r), D('ClockGate', r)]
        ds += [D('PDGate', i, r) for i in range(r)]
    for r in (2, 3, 4) + ((5,) if not ctx.quick() else ()):
        ds += [D('SwapGate', r), D('CSUMGate', r)]
    ds += [D('HGate'), D('ShiftGate'), D('ClockGate'), D('SwapGate'), D('CSUMGate'), D('PDGate', 1)]
    # grid points beyond the vm_compute table GateLib.grid_gates: the families proved for EVERY
    # radix / size (C18_contract_{Shift,Clock,PD,ArbitraryCPhase,Diagonal,MPRZ,PauliZ}_all) are tied
    # to the classes at larger constructor arguments too
    ds += [D('ShiftGate', 6), D('ShiftGate', 7), D('ClockGate', 6), D('ClockGate', 7), D('PDGate', 2, 6),
           D('PDGate', 5, 7), D('PauliZGate', 4), D('DiagonalGate', 4), D('MPRZGate', 4, 1),
           D('ArbitraryCPhaseGate', [4, 4])]
    ds += [D('SubSwapGate', 2, '0,1;1,0'), D('SubSwapGate', 3, '0,1;1,0'), D('SubSwapGate', 3, '0,2;2,1'),
           D('SubSwapGate', 4, '1,1;2,2'), D('SubSwapGate', 3, '1,1;1,1')]
    ds += [D('IdentityGate'), D('IdentityGate', 2), D('IdentityGate', 1, [3]), D('IdentityGate', 2, [2, 3]),
           D('IdentityGate', 3, [3, 2, 2])]
    ds += [D('ArbitraryCPhaseGate'), D('ArbitraryCPhaseGate', [2, 2]), D('ArbitraryCPhaseGate', [3, 3]),
           D('ArbitraryCPhaseGate', [2, 2, 2]), D('ArbitraryCPhaseGate', [2, 3]), D('ArbitraryCPhaseGate', [4, 2]),
           D('ArbitraryCPhaseGate', [5]), D('ArbitraryCPhaseGate', [3])]
    ds += [D('DiagonalGate'), D('DiagonalGate', 1), D('DiagonalGate', 3)]
    for n in (1, 2, 3):
        ds += [D('MPRYGate', n), D('MPRZGate', n)]
        ds += [D('MPRYGate', n, t) for t in range(n)] + [D('MPRZGate', n, t) for t in range(n)]
        ds += [D('PauliZGate', n)]
    ds += [D('RSU3Gate', i) for i in range(8)]
    ds += [D('CKMGate'), D('CKMdgGate'), D('U1qPiGate'), D('U1qPi2Gate')]
    # oracle-only classes
    ds += [D('PauliGate', 1), D('PauliGate', 2), D('VariableUnitaryGate', 1), D('VariableUnitaryGate', 2),
           D('VariableUnitaryGate', 1, [3]), D('VariableUnitaryGate', 2, [2, 3]),
           D('ConstantUnitaryGate', 1, [2]), D('ConstantUnitaryGate', 2, [2, 2]), D('ConstantUnitaryGate', 3, [3]),
           D('ConstantUnitaryGate', 4, [2, 3]),
           D('PermutationGate', 2, [1, 0]), D('PermutationGate', 3, [1, 2, 0]), D('PermutationGate', 3, [2, 0]),
           D('CircuitGate')]
    ds += [dict(cls='VariableLocationGate', inner=D('CNOTGate'), args=[[[0, 1], [1, 0]]], kw={}),
           dict(cls='VariableLocationGate', inner=D('U3Gate'), args=[[[0], [1]]], kw={}),
           dict(cls='VariableLocationGate', inner=D('CNOTGate'), args=[[[0, 1], [1, 2], [2, 0]]], kw={})]
    return ds


def wrap(cls, inner, *args, **kw):
    d = dict(cls=cls, inner=inner, args=list(args), kw=kw)
    return d


def frozen(inner, fz):
    """fz: dict or list of (index, value) pairs; the INSERTION ORDER is kept (it is what the
    constructor receives and must not matter)."""
    items = list(fz.items()) if isinstance(fz, dict) else list(fz)
    return dict(cls='FrozenParameterGate', inner=inner, args=[], kw={}, frozen=[[k, v] for k, v in items])


def composed_grid(ctx):
    rng = ctx.rng
    q1 = [D('U3Gate'), D('RXGate'), D('RYGate'), D('HGate'), D('XGate'), D('SqrtXGate'), D('TGate'), D('U2Gate'),
          D('PhasedXZGate'), D('U1qGate')]
    q2 = [D('CNOTGate'), D('CRYGate'), D('RZZGate'), D('FSIMGate'), D('CUGate'), D('SqrtISwapGate'), D('ISwapGate')]
    t1 = [D('HGate', 3), D('ShiftGate', 3), D('ClockGate', 3), D('U8Gate'), D('RSU3Gate', 4), D('PDGate', 1, 3),
          D('ShiftGate', 4), D('HGate', 5)]
    t2 = [D('CSUMGate', 3), D('SwapGate', 3), D('ArbitraryCPhaseGate', [3, 3])]
    pool = q1 + q2 + t1 + t2
    ds = []
    # --- ControlledGate: controls 1-3, radixes 2-5, control levels (default/int/lists, multi-level)
    ctl_args = [
        (1, 2, None), (1, 3, None), (1, 4, None), (1, 5, None), (1, 3, 0), (1, 3, 1), (1, 3, [[0, 2]]), (1, 4, [[1, 3]]),
        (1, 2, 0), (1, 2, [0]), (1, [3], [2]), (1, 5, [[4, 0, 2]]),
        (2, 2, None), (2, 3, None), (2, [2, 3], None), (2, [3, 2], [1, [0, 1]]), (2, 3, [[0, 1], [2]]), (2, 2, 0),
        (2, [2, 4], [[1], [0, 3]]), (2, 3, 1),
        (3, 2, None), (3, [2, 3, 2], None), (3, 2, [1, 0, 1]), (3, [2, 2, 3], [[1], [0], [1, 2]]),
    ]
    inner_small = [D('U3Gate'), D('XGate'), D('RYGate'), D('HGate', 3), D('ShiftGate', 3), D('U2Gate'), D('TGate'),
                   D('CNOTGate'), D('RZZGate'), D('U8Gate'), D('ClockGate', 4), D('CSUMGate', 3), D('FSIMGate')]
    for (nc, cr, cl) in ctl_args:
        inners = inner_small if nc == 1 else rng.sample(inner_small, min(len(inner_small), ctx.n(4, 9)))
        for inn in inners:
            g_rx = _radixes_of(inn)
            crs = [cr] * nc if isinstance(cr, int) else list(cr)
            if int(np.prod(crs)) * int(np.prod(g_rx)) > ctx.n(54, 162):
                continue
            args = [nc, cr] + ([cl] if cl is not None else [])
            ds.append(wrap('ControlledGate', inn, *args))
    ds.append(wrap('ControlledGate', D('U3Gate')))
    ds.append(wrap('ControlledGate', D('U3Gate'), num_controls=2, control_levels=[1, 0]))
    # --- DaggerGate, TaggedGate
    for inn in pool:
        ds.append(wrap('DaggerGate', inn))
    for inn in rng.sample(pool, 6):
        ds.append(wrap('TaggedGate', inn, 'tag'))
    ds.append(wrap('TaggedGate', D('U3Gate'), {'a': 1}))
    # --- PowerGate -3..3
    for inn in pool:
        ks = range(-3, 4) if (inn['cls'] in ('U3Gate', 'CNOTGate', 'HGate', 'ShiftGate', 'CRYGate', 'U8Gate', 'TGate')
                              or not ctx.quick()) else rng.sample(range(-3, 4), 3)
        for k in ks:
            ds.append(wrap('PowerGate', inn, k))
    ds += [wrap('PowerGate', D('U3Gate')), wrap('PowerGate', D('RXGate'), 5), wrap('PowerGate', D('U3Gate'), -6),
           wrap('PowerGate', D('CRYGate'), 7), wrap('PowerGate', D('TGate'), 8), wrap('PowerGate', D('ShiftGate', 3), -4)]
    # --- FrozenParameterGate: every subset for small gates, sampled subsets for larger
    vals = [0.0, PI / 2, PI, -PI / 2, 1.5, -0.75, 2.25, 0.3, -2.7, 100.0]
    for inn, npar in [(D('U3Gate'), 3), (D('U2Gate'), 2), (D('U1qGate'), 2), (D('RXGate'), 1), (D('CUGate'), 4),
                      (D('FSIMGate'), 2), (D('PhasedXZGate'), 3), (D('U8Gate'), 8), (D('CRYGate'), 1),
                      (D('DiagonalGate', 2), 3), (D('MPRYGate', 2), 2)]:
        subsets = [s for r in range(0, npar + 1) for s in itertools.combinations(range(npar), r)]
        if len(subsets) > 8:
            subsets = rng.sample(subsets, min(len(subsets), ctx.n(8, 40)))
        for sub in subsets:
            order = list(sub)
            rng.shuffle(order)
            ds.append(frozen(inn, [(k, rng.choice(vals)) for k in order]))
    # every insertion order of 2- and 3-entry frozen dicts (ascending, descending, mixed)
    perm_cases = [(D('U3Gate'), [(0, 1), (0, 2), (1, 2), (0, 1, 2)]), (D('CUGate'), [(0, 3), (1, 2), (0, 2, 3), (1, 2, 3)]),
                  (D('U8Gate'), [(0, 2), (3, 5), (1, 4, 6), (0, 3, 7)]), (D('FSIMGate'), [(0, 1)]),
                  (D('PhasedXZGate'), [(0, 2), (0, 1, 2)]), (D('DiagonalGate', 2), [(0, 2), (0, 1, 2)])]
    for inn, subs in perm_cases:
        for sub in subs:
            orders = list(itertools.permutations(sub))
            if ctx.quick() and len(orders) > 4:
                orders = [orders[0], orders[-1]] + rng.sample(orders[1:-1], 2)
            for order in orders:
                ds.append(frozen(inn, [(k, round(0.1 + 0.37 * k, 6)) for k in order]))
    # --- EmbeddedGate
    emb = [
        (D('U3Gate'), 3, None), (D('U3Gate'), 3, [0, 2]), (D('U3Gate'), 3, [2, 1]), (D('U3Gate'), 4, [3, 1]),
        (D('XGate'), 3, [1, 2]), (D('HGate'), 5, [4, 0]), (D('RYGate'), [3], [[0, 1]]), (D('U3Gate'), 2, None),
        (D('CNOTGate'), 3, None), (D('CNOTGate'), [3, 2], None), (D('CNOTGate'), [3, 4], [[0, 2], [3, 1]]),
        (D('CNOTGate'), 3, [1, 2]), (D('CRYGate'), [2, 3], [[1, 0], [2, 0]]), (D('RZZGate'), 3, [[0, 1], [1, 2]]),
        (D('ShiftGate', 3), 4, [3, 0, 1]), (D('HGate', 3), 5, None), (D('U8Gate'), 4, [1, 2, 3]),
        (D('CSUMGate', 3), 4, None), (D('FSIMGate'), 3, [2, 0]),
    ]
    for inn, rx, lm in emb:
        ds.append(wrap('EmbeddedGate', inn, rx, *([lm] if lm is not None else [])))
    # --- nested compositions
    u3 = D('U3Gate')
    ds += [
        wrap('DaggerGate', wrap('ControlledGate', u3, 1, 3, [[0, 2]])),
        wrap('ControlledGate', wrap('DaggerGate', u3), 2),
        wrap('PowerGate', wrap('ControlledGate', D('RYGate'), 1, 3), -2),
        wrap('ControlledGate', wrap('PowerGate', D('RXGate'), 3), 1, 2, 0),
        wrap('PowerGate', frozen(u3, {1: 0.3}), 3),
        frozen(wrap('PowerGate', u3, -2), {0: 1.5, 2: -0.75}),
        wrap('DaggerGate', wrap('DaggerGate', u3)),
        wrap('DaggerGate', wrap('PowerGate', D('CRYGate'), 2)),
        wrap('PowerGate', wrap('DaggerGate', D('U2Gate')), -3),
        wrap('EmbeddedGate', wrap('ControlledGate', D('RYGate')), 3, [[0, 2], [1, 2]]),
        wrap('ControlledGate', wrap('EmbeddedGate', u3, 3, [0, 2]), 1, 3, 1),
        wrap('TaggedGate', wrap('PowerGate', u3, 2), 7),
        frozen(wrap('ControlledGate', D('CUGate'), 1, 2), {0: 2.25, 3: PI}),
        wrap('DaggerGate', frozen(D('PhasedXZGate'), {0: 1.5})),
        wrap('EmbeddedGate', wrap('PowerGate', D('U2Gate'), 2), 4, [1, 3]),
        wrap('PowerGate', wrap('PowerGate', D('RXGate'), 2), -2),
        wrap('ControlledGate', wrap('ControlledGate', D('XGate'), 1, 3, 1), 1, 2),
    ]
    ds = [d for d in ds if not tainted(d)]
    # --- the shapes of the known root causes (see known_findings.d/C18.json), kept explicit
    ds += [
        wrap('ControlledGate', D('HGate')), wrap('ControlledGate', wrap('PowerGate', D('XGate'), 2)),
        wrap('EmbeddedGate', wrap('ControlledGate', D('HGate')), 3),
        wrap('PowerGate', wrap('ControlledGate', D('RYGate'), 1, [3], [2]), 0),
        wrap('PowerGate', wrap('ControlledGate', D('RYGate'), 1, [4]), 0),
        wrap('PowerGate', wrap('ControlledGate', D('RYGate'), 1, [3], [2]), 2),
    ]
    return ds


def random_composed(ctx, count):
    """random nested compositions (depth 1-3) with valid arguments, dimension <= 36."""
    rng = ctx.rng
    bases = [D('U3Gate'), D('RXGate'), D('RYGate'), D('RZGate'), D('U2Gate'), D('U1qGate'), D('HGate'), D('XGate'),
             D('TGate'), D('SqrtXGate'), D('PhasedXZGate'), D('CNOTGate'), D('CRYGate'), D('CRZGate'), D('RZZGate'),
             D('RXXGate'), D('FSIMGate'), D('CUGate'), D('CPGate'), D('ISwapGate'), D('HGate', 3), D('ShiftGate', 3),
             D('ClockGate', 3), D('U8Gate'), D('RSU3Gate', 1), D('RSU3Gate', 5), D('PDGate', 2, 3), D('HGate', 4),
             D('ShiftGate', 5), D('MPRYGate', 2), D('MPRZGate', 2, 0), D('DiagonalGate', 2), D('PauliZGate', 2),
             D('ArbitraryCPhaseGate', [3, 3]), D('CSUMGate', 3), D('SwapGate', 3), D('SubSwapGate', 3, '0,1;2,2')]
    vals = [0.0, PI / 2, PI, -PI / 4, 1.5, -0.75, 2.25, 0.3, -2.7, 7.0]
    out = []
    tries = 0
    while len(out) < count and tries < 20 * count:
        tries += 1
        d = rng.choice(bases)
        try:
            for _ in range(rng.randint(1, 3)):
                g = build(d)
                rx, npar, dim = list(g.radixes), g.num_params, g.dim
                kind = rng.choice(['ctrl', 'ctrl', 'dagger', 'power', 'frozen', 'embedded', 'tagged'])
                if kind == 'ctrl':
                    nc = rng.choice([1, 1, 2])
                    cr = [rng.choice([2, 2, 3, 4]) for _ in range(nc)]
                    if int(np.prod(cr)) * dim > 36:
                        continue
                    form = rng.randrange(4)
                    if form == 0:
                        d = wrap('ControlledGate', d, nc, cr)
                    elif form == 1:
                        d = wrap('ControlledGate', d, nc, cr, [rng.randrange(r) for r in cr])
                    elif form == 2:
                        d = wrap('ControlledGate', d, nc, cr, [sorted(rng.sample(range(r), rng.randint(1, r))) for r in cr])
                    else:
                        r0 = rng.choice([2, 3])
                        if r0 ** nc * dim > 36:
                            continue
                        d = wrap('ControlledGate', d, nc, r0, rng.randrange(r0))
                elif kind == 'dagger':
                    d = wrap('DaggerGate', d)
                elif kind == 'tagged':
                    d = wrap('TaggedGate', d, rng.choice(['t', 3, 'x y']))
                elif kind == 'power':
                    d = wrap('PowerGate', d, rng.randint(-3, 3))
                elif kind == 'frozen':
                    if npar == 0:
                        continue
                    sub = rng.sample(range(npar), rng.randint(1, npar))     # random insertion order
                    d = frozen(d, [(k, rng.choice(vals)) for k in sub])
                else:
                    big = [r + rng.choice([0, 1, 1, 2]) for r in rx]
                    if int(np.prod(big)) > 36:
                        continue
                    maps = [rng.sample(range(b), r) for b, r in zip(big, rx)]
                    d = wrap('EmbeddedGate', d, big, maps)
            npow = 0
            x = d
            while 'inner' in x:
                npow += x['cls'] == 'PowerGate'
                x = x['inner']
            if 'inner' in d and npow <= 1 and not tainted(d) and build(d).dim <= 36:
                out.append(d)
        except CATCH:  # noqa  (generator bug, not an implementation failure: skip)
            continue
    return out


def _radixes_of(d):
    try:
        return list(build(d).radixes)
    except Exception:
        return [2]


def malformed_grid():
    """constructor arguments the classes must reject (the model answers NONE)."""
    u3 = D('U3Gate')
    return [
        wrap('ControlledGate', u3, 0), wrap('ControlledGate', u3, 1, 1), wrap('ControlledGate', u3, 1, 2, 2),
        wrap('ControlledGate', u3, 2, [2]), wrap('ControlledGate', u3, 1, 3, [[1, 1]]),
        wrap('ControlledGate', u3, 2, 2, [1]), wrap('ControlledGate', u3, 1, 3, 3),
        wrap('EmbeddedGate', u3, 1), wrap('EmbeddedGate', u3, 3, [0, 0]), wrap('EmbeddedGate', u3, 3, [0, 3]),
        wrap('EmbeddedGate', u3, 3, [0, 1, 2]), wrap('EmbeddedGate', D('HGate', 3), 2),
        wrap('EmbeddedGate', D('CNOTGate'), [3]), wrap('EmbeddedGate', D('CNOTGate'), 3, [[0, 1]]),
        frozen(u3, {3: 1.0}), frozen(D('RXGate'), {0: 1.0, 1: 2.0}),
        D('HGate', 1), D('ShiftGate', 0), D('PDGate', 3, 3), D('RSU3Gate', 8), D('SwapGate', 1),
        D('ArbitraryCPhaseGate', [1, 2]),
    ]


# ----------------------------------------------------------------------------------------
# parameter vectors
# ----------------------------------------------------------------------------------------
def param_vectors(rng: np.random.Generator, n: int, count: int):
    if n == 0:
        return np.zeros((1, 0))
    vs = [np.zeros(n), (PI / 2) * rng.integers(-4, 5, n), (PI / 2) * rng.integers(-9, 10, n),
          rng.uniform(-1, 1, n) * 10.0 ** rng.integers(2, 5, n)]
    while len(vs) < count:
        vs.append(rng.uniform(-PI, PI, n) * rng.choice([1.0, 1.0, 2.5]))
    return np.array(vs[:max(count, 4)])


# ----------------------------------------------------------------------------------------
# the checks
# ----------------------------------------------------------------------------------------
class Checker:
    def __init__(self, ctx: vf.Ctx, fixed_names):
        self.ctx = ctx
        self.fixed_idx = {n: i for i, n in enumerate(fixed_names)}
        self.nprng = np.random.default_rng(ctx.seed + 18)
        self.uncovered: dict[str, str] = {}
        self.covered: set[str] = set()
        self.theorem_classes: set[str] = set()
        self.seen_cls: set[str] = set()

    # -- reporting ------------------------------------------------------------------
    def bad(self, d, clause, p, expected, observed, what, extra=None):
        sd = d
        sig = {'gate': d['cls'], 'clause': clause}
        if clause in ('optimize', 'optimize_raises'):
            sd = optimize_owner(d)
            sig['gate'] = sd['cls']
            if sd is not d:
                sig['via'] = d['cls']
        if 'inner' in sd:
            sig['base'] = root_cls(sd)
        ic = input_class(sd)
        if ic:
            sig['input'] = ic
        if sd['cls'] == 'FrozenParameterGate' and len(sd.get('frozen', [])) > 1:
            ks = [int(k_) for k_, _ in sd['frozen']]
            sig['order'] = 'ascending' if ks == sorted(ks) else 'non_ascending'
        case = {'desc': d, 'params': None if p is None else [float(x) for x in p], 'clause': clause}
        if extra:
            case.update(extra)
        self.ctx.count('fail_' + clause)
        return self.ctx.violation(sig, case, expected, observed, what,
                                  corr='gate/GateLib.v transcription vs implementation' if clause.startswith('corr') else None)

    # -- one gate -------------------------------------------------------------------
    def check(self, d, model_line, npts):
        ctx = self.ctx
        cls = d['cls']
        self.seen_cls.add(cls)
        try:
            g = build(d)
        except CATCH as e:  # noqa
            if model_line is not None and model_line.startswith('OK'):
                self.bad(d, 'raises', None, 'constructible (model accepts the arguments)',
                         f'{type(e).__name__}: {e}', 'constructor rejects arguments the model accepts')
            else:
                ctx.count('ctor_rejected')
            return
        np_ = g.num_params
        P = param_vectors(self.nprng, np_, npts)
        ctx.count('gates_checked')
        ctx.count('cls_' + cls)
        model = None
        if model_line is None:
            self.uncovered.setdefault(cls, ORACLE_ONLY.get(cls, 'no transcription'))
        elif model_line.startswith('OK'):
            f = model_line.split('\t')
            model = dict(rx=[int(x) for x in f[1].split()], np=int(f[2]), U=exprval.parse(f[3]),
                         G=[exprval.parse(x) for x in f[4:]])
            self.covered.add(cls)
        elif model_line.startswith('NONE'):
            self.bad(d, 'raises', None, 'constructor raises (model rejects the arguments)', 'constructed',
                     'constructor accepts arguments the model rejects')
        else:
            ctx.broken_obligation('extracted gate model failed on a specification', model_line[:300] + ' :: ' + str(d))

        # ---- implementation values
        Us = []
        for p in P:
            try:
                Us.append(g.get_unitary(p))
            except CATCH as e:  # noqa
                self.bad(d, 'get_unitary_raises', p, 'a unitary', f'{type(e).__name__}: {e}', 'get_unitary raises')
                return
        Un = np.array([np.asarray(u.numpy if hasattr(u, 'numpy') else u) for u in Us])
        dim = Un.shape[-1]
        for p in P:
            ctx.case(('g', vf.canon(d), tuple(np.round(p, 9))), nontrivial=not (cls == 'IdentityGate'))
        grads = None
        differentiable = True
        try:
            grads = [np.asarray(g.get_grad(p)) for p in P]
        except NotImplementedError:
            differentiable = False
        except CATCH as e:  # noqa
            self.bad(d, 'grad_raises', P[0], 'a gradient', f'{type(e).__name__}: {e}', 'get_grad raises')
            differentiable = False

        # ---- (b) oracle: shape / radixes / unitarity
        adv_dim = int(np.prod(g.radixes)) if len(g.radixes) else 0
        if not (g.dim == dim == adv_dim and len(g.radixes) == g.num_qudits and tuple(Us[0].radixes) == tuple(g.radixes)):
            self.bad(d, 'dim', P[0], dict(dim=adv_dim, radixes=list(g.radixes), num_qudits=len(g.radixes)),
                     dict(dim=g.dim, matrix=dim, num_qudits=g.num_qudits, utry_radixes=list(Us[0].radixes)),
                     'advertised dim/radixes/num_qudits disagree with the returned unitary')
        scale = max(1.0, dim / 8)
        for p, U in zip(P, Un):
            e1 = np.abs(U @ U.conj().T - np.eye(dim)).max()
            utol = 1e-12 * scale * max(1.0, 1e-2 * (np.abs(p).max() if np_ else 0.0))   # angle rounding ~ eps*|p|
            if not e1 <= utol:
                self.bad(d, 'unitary', p, '<= %.1e' % utol, float(e1), 'get_unitary(p) is not unitary')
                break

        # ---- (a) correspondence with the transcription
        if model is not None:
            if model['rx'] != list(g.radixes) or model['np'] != np_:
                self.bad(d, 'corr_shape', None, dict(radixes=model['rx'], num_params=model['np']),
                         dict(radixes=list(g.radixes), num_params=np_), 'radixes/num_params differ from the model')
            else:
                V = P.T.copy()
                MU = exprval.eval_matrix(model['U'], V)
                for k, p in enumerate(P):
                    tol = 1e-12 * max(1.0, np.abs(p).max() if np_ else 1.0) * scale
                    e = np.abs(MU[k] - Un[k]).max()
                    if not e <= tol:
                        self.bad(d, 'corr_unitary', p, 'model == get_unitary within %.1e' % tol, float(e),
                                 'transcribed matrix differs from get_unitary', dict(entry=_argmax(MU[k] - Un[k])))
                        break
                if differentiable and np_ > 0:
                    MG = np.array([exprval.eval_matrix(t, V) for t in model['G']])   # (np, npts, d, d)
                    for k, p in enumerate(P):
                        gk = grads[k]
                        if gk.shape != (np_, dim, dim):
                            self.bad(d, 'grad_shape', p, (np_, dim, dim), gk.shape, 'get_grad has the wrong shape')
                            break
                        tol = 1e-12 * max(1.0, np.abs(p).max()) * scale * (1 + np.abs(gk).max())
                        e = np.abs(MG[:, k] - gk).max()
                        if not e <= tol:
                            self.bad(d, 'corr_grad', p, 'model == get_grad within %.1e' % tol, float(e),
                                     'transcribed gradient differs from get_grad', dict(entry=_argmax(MG[:, k] - gk)))
                            break

        # ---- gradient of a constant gate: empty along the parameter axis
        if differentiable and np_ == 0:
            gk = grads[0]
            if len(gk) != 0:
                self.bad(d, 'grad_shape', P[0], 'empty gradient (0 parameters)', list(gk.shape),
                         'get_grad of a constant gate is not empty along the parameter axis')
        # ---- (b) gradient vs central finite differences; get_unitary_and_grad
        if differentiable and np_ > 0:
            for p, U, gk in zip(P, Un, grads):
                if gk.shape != (np_, dim, dim):
                    self.bad(d, 'grad_shape', p, (np_, dim, dim), gk.shape, 'get_grad has the wrong shape')
                    break
                m = max(1.0, np.abs(p).max())
                h = 1e-5 * m ** 0.5
                fd = np.empty_like(gk)
                for k in range(np_):
                    e = np.zeros(np_)
                    e[k] = h
                    fd[k] = (np.asarray(g.get_unitary(p + e)) - np.asarray(g.get_unitary(p - e))) / (2 * h)
                sc = 1 + np.abs(gk).max()
                tol = (2e-5 * m) * sc ** 3
                err = np.abs(fd - gk).max()
                if not err <= tol:
                    self.bad(d, 'grad', p, 'get_grad == central difference within %.1e' % tol, float(err),
                             'get_grad is not the derivative of get_unitary', dict(entry=_argmax(fd - gk)))
                    break
        if differentiable:
            for p, U, gk in zip(P[:3], Un, grads):
                try:
                    U2, g2 = g.get_unitary_and_grad(p)
                except CATCH as e:  # noqa
                    self.bad(d, 'uag', p, 'a pair', f'{type(e).__name__}: {e}', 'get_unitary_and_grad raises')
                    break
                g2 = np.asarray(g2)
                ok = np.abs(np.asarray(U2) - U).max() <= 1e-12 * scale * max(1.0, np.abs(p).max() if np_ else 1.0) and tuple(getattr(U2, 'radixes', g.radixes)) == tuple(g.radixes)
                if np_ > 0:
                    ok = ok and g2.shape == gk.shape and np.abs(g2 - gk).max() <= 1e-12 * scale * max(1.0, np.abs(p).max()) * (1 + np.abs(gk).max())
                if not ok:
                    self.bad(d, 'uag', p, 'equal to (get_unitary, get_grad)', 'differs',
                             'get_unitary_and_grad disagrees with get_unitary/get_grad')
                    break

        # ---- inverse
        try:
            inv = g.get_inverse()
            for p, U in zip(P[:4], Un):
                ip = g.get_inverse_params(p)
                W = np.asarray(inv.get_unitary(ip))
                e = np.abs(W @ U - np.eye(dim)).max()
                if not e <= 1e-11 * scale:
                    self.bad(d, 'inverse', p, 'inverse(inverse_params) @ U == I', float(e),
                             'get_inverse().get_unitary(get_inverse_params(p)) is not the inverse')
                    break
        except CATCH as e:  # noqa
            self.bad(d, 'inverse', P[0], 'an inverse', f'{type(e).__name__}: {e}', 'get_inverse raises')

        # ---- composed == numpy composition of the parts
        if 'inner' in d and cls != 'VariableLocationGate':
            self.check_composed(d, g, P, Un, grads if differentiable else None)
        # ---- calc_params / optimize
        self.check_general(d, g, dim)
        # ---- eq / hash / pickle
        self.check_eq_hash(d, g)

    # -- composed gates against their parts -------------------------------------------
    def check_composed(self, d, g, P, Un, grads):
        cls = d['cls']
        inner = g.gate
        idim = inner.dim
        for k, p in enumerate(P[:4]):
            try:
                if cls == 'FrozenParameterGate':
                    # substitution by index: frozen value at its own index, free values in order elsewhere
                    fz = {int(k_): v_ for k_, v_ in d['frozen']}
                    free = iter(p)
                    full = [fz[i] if i in fz else next(free) for i in range(inner.num_params)]
                    exp = np.asarray(inner.get_unitary(full))
                    eg = np.asarray(inner.get_grad(full))[[i for i in range(inner.num_params) if i not in fz]] \
                        if inner.num_params else None
                else:
                    V = np.asarray(inner.get_unitary(p))
                    iG = np.asarray(inner.get_grad(p)) if inner.num_params and grads is not None else None
                    if cls in ('DaggerGate',):
                        exp, eg = V.conj().T, None if iG is None else np.array([x.conj().T for x in iG])
                    elif cls == 'TaggedGate':
                        exp, eg = V, iG
                    elif cls == 'PowerGate':
                        kk = g.power
                        B = V if kk >= 0 else V.conj().T
                        exp = np.linalg.matrix_power(B, abs(kk))
                        eg = None
                        if iG is not None:
                            dB = iG if kk >= 0 else np.array([x.conj().T for x in iG])
                            eg = np.array([sum(np.linalg.matrix_power(B, j) @ dBk @ np.linalg.matrix_power(B, abs(kk) - 1 - j)
                                               for j in range(abs(kk))) if kk != 0 else np.zeros_like(V) for dBk in dB])
                    elif cls == 'ControlledGate':
                        cr, cl = g.control_radixes, g.control_levels
                        cd = int(np.prod(cr))
                        exp = np.zeros((cd * idim, cd * idim), dtype=complex)
                        act = []
                        for c in range(cd):
                            digs = np.unravel_index(c, cr)
                            a = all(int(dg) in lv for dg, lv in zip(digs, cl))
                            act.append(a)
                            exp[c * idim:(c + 1) * idim, c * idim:(c + 1) * idim] = V if a else np.eye(idim)
                        eg = None
                        if iG is not None:
                            eg = np.zeros((len(iG), cd * idim, cd * idim), dtype=complex)
                            for c in range(cd):
                                if act[c]:
                                    eg[:, c * idim:(c + 1) * idim, c * idim:(c + 1) * idim] = iG
                    elif cls == 'EmbeddedGate':
                        big = int(np.prod(g.radixes))
                        tg = []
                        for i in range(idim):
                            digs = np.unravel_index(i, inner.radixes)
                            tg.append(int(np.ravel_multi_index([lm[int(x)] for lm, x in zip(g.level_maps, digs)], g.radixes)))
                        exp = np.eye(big, dtype=complex)
                        exp[np.ix_(tg, tg)] = V
                        eg = None
                        if iG is not None:
                            eg = np.zeros((len(iG), big, big), dtype=complex)
                            for q in range(len(iG)):
                                eg[q][np.ix_(tg, tg)] = iG[q]
                    else:
                        return
            except NotImplementedError:
                return
            e = np.abs(exp - Un[k]).max()
            if not e <= 1e-11:
                self.bad(d, 'composed', p, 'numpy composition of the parts', float(e),
                         f'{cls}.get_unitary differs from the algebraic composition of its parts')
                return
            if eg is not None and grads is not None and len(eg):
                e = np.abs(eg - grads[k]).max()
                if not e <= 1e-10 * (1 + np.abs(eg).max()):
                    self.bad(d, 'composed_grad', p, 'numpy composition of the parts', float(e),
                             f'{cls}.get_grad differs from the algebraic composition of its parts')
                    return

    # -- calc_params / optimize ---------------------------------------------------------
    def check_general(self, d, g, dim):
        from bqskit.ir.gates.generalgate import GeneralGate
        from bqskit.qis.unitary.optimizable import LocallyOptimizableUnitary
        from bqskit.qis.unitary.unitarymatrix import UnitaryMatrix
        rng = self.nprng
        cls = d['cls']
        if isinstance(g, GeneralGate):
            for t in range(3):
                if cls in ('U3Gate', 'PauliGate', 'VariableUnitaryGate'):
                    q, _ = np.linalg.qr(rng.normal(size=(dim, dim)) + 1j * rng.normal(size=(dim, dim)))
                    V = UnitaryMatrix(q, g.radixes)
                else:   # U8 / PauliZ parameterise a subset: use a member of the family
                    V = g.get_unitary(rng.uniform(-1.2, 1.2, g.num_params))
                try:
                    p = g.calc_params(V)
                    W = np.asarray(g.get_unitary(p))
                    dist = 1 - abs(np.trace(np.asarray(V).conj().T @ W)) / dim
                except CATCH as e:  # noqa
                    self.bad(d, 'calc_params', None, 'parameters', f'{type(e).__name__}: {e}', 'calc_params raises')
                    break
                self.ctx.count('calc_params')
                if not dist <= 1e-9:
                    self.bad(d, 'calc_params', [float(x) for x in np.ravel(p)], 'U(calc_params(V)) == V up to phase',
                             float(dist), 'calc_params does not reproduce its argument')
                    break
        if isinstance(g, LocallyOptimizableUnitary) and g.num_params > 0:
            if hasattr(g, 'is_locally_optimizable') and not g.is_locally_optimizable():
                return
            for t in range(2):
                env = rng.normal(size=(dim, dim)) + 1j * rng.normal(size=(dim, dim))
                try:
                    p = np.array(g.optimize(env), dtype=float)
                except NotImplementedError:
                    return
                except CATCH as e:  # noqa
                    self.bad(d, 'optimize_raises', None, 'parameters', f'{type(e).__name__}: {e}', 'optimize raises')
                    return

                def tr(x):
                    return complex(np.trace(env @ np.asarray(g.get_unitary(x))))
                self.ctx.count('optimize')
                if p.shape != (g.num_params,) or not np.all(np.isfinite(p)):
                    self.bad(d, 'optimize', None, 'finite vector of length num_params', repr(p), 'optimize returns garbage')
                    return
                # The docstring asks for argmax Re tr(env @ U).  Gates that cannot absorb a global phase
                # (GeneralGate via SVD + calc_params, DiagonalGate, ...) maximise |tr(env @ U)| instead, which
                # is what the phase-invariant instantiation cost needs.  A result is accepted if it is
                # maximal for either functional; which one is recorded.
                t0 = tr(p)
                worse_re = worse_abs = None
                for s_ in range(14):
                    x = rng.uniform(-PI, PI, g.num_params) if s_ < 7 else p + rng.normal(scale=0.05, size=g.num_params)
                    tx = tr(x)
                    if tx.real > t0.real + 1e-7 * (1 + abs(t0)) and worse_re is None:
                        worse_re = (x, tx.real)
                    if abs(tx) > abs(t0) + 1e-7 * (1 + abs(t0)) and worse_abs is None:
                        worse_abs = (x, abs(tx))
                if worse_re is None:
                    self.ctx.count('optimize_max_re_tr')
                elif worse_abs is None:
                    self.ctx.count('optimize_max_abs_tr_only')
                else:
                    x, v = worse_abs
                    self.bad(d, 'optimize', [float(v_) for v_ in x],
                             '|tr(env U(optimize(env)))| >= %.9g (or Re tr maximal)' % v, abs(t0),
                             'optimize maximises neither Re tr(env @ U) nor |tr(env @ U)|',
                             dict(opt=[float(v_) for v_ in p], env=[[[float(z.real), float(z.imag)] for z in row] for row in env]))
                    return

    # -- equality, hashing, pickling ---------------------------------------------------
    def check_eq_hash(self, d, g):
        try:
            g2 = build(d)
        except CATCH:  # noqa
            return
        self.ctx.count('eq_hash')
        try:
            same = (g == g2) and (g2 == g)
            hs = hash(g) == hash(g2)
        except CATCH as e:  # noqa
            self.bad(d, 'eq_hash', None, 'comparable and hashable', f'{type(e).__name__}: {e}', '==/hash raises')
            return
        if not same or not hs:
            self.bad(d, 'eq_hash', None, 'equal construction arguments => equal gates with equal hashes',
                     dict(eq=bool(same), hash_eq=bool(hs)), 'equal construction arguments give unequal gates/hashes')
            return
        try:
            g3 = pickle.loads(pickle.dumps(g))
            ok = (g3 == g) and hash(g3) == hash(g)
            if ok and g.num_params == 0:
                ok = np.abs(np.asarray(g3.get_unitary()) - np.asarray(g.get_unitary())).max() == 0
        except CATCH as e:  # noqa
            self.bad(d, 'pickle', None, 'picklable', f'{type(e).__name__}: {e}', 'pickle round trip raises')
            return
        if not ok:
            self.bad(d, 'pickle', None, 'pickled copy equal with equal hash', 'differs', 'pickled copy is not equal')


def _argmax(a):
    idx = np.unravel_index(int(np.abs(a).argmax()), a.shape)
    return [int(i) for i in idx]


# ----------------------------------------------------------------------------------------
# Qiskit reference for the standard named gates
# ----------------------------------------------------------------------------------------
QISKIT = {
    'XGate': ('XGate', 0), 'YGate': ('YGate', 0), 'ZGate': ('ZGate', 0), 'HGate': ('HGate', 0), 'SGate': ('SGate', 0),
    'SdgGate': ('SdgGate', 0), 'TGate': ('TGate', 0), 'TdgGate': ('TdgGate', 0), 'SqrtXGate': ('SXGate', 0),
    'SqrtXdgGate': ('SXdgGate', 0), 'CNOTGate': ('CXGate', 0), 'CYGate': ('CYGate', 0), 'CZGate': ('CZGate', 0),
    'CHGate': ('CHGate', 0), 'CSGate': ('CSGate', 0), 'SwapGate': ('SwapGate', 0), 'ISwapGate': ('iSwapGate', 0),
    'CCXGate': ('CCXGate', 0), 'ECRGate': ('ECRGate', 0), 'SqrtCNOTGate': ('CSXGate', 0), 'RCCXGate': ('RCCXGate', 0),
    'RC3XGate': ('RC3XGate', 0), 'RXGate': ('RXGate', 1), 'RYGate': ('RYGate', 1), 'RZGate': ('RZGate', 1),
    'RXXGate': ('RXXGate', 1), 'RYYGate': ('RYYGate', 1), 'RZZGate': ('RZZGate', 1), 'U1Gate': ('U1Gate', 1),
    'U2Gate': ('U2Gate', 2), 'U3Gate': ('U3Gate', 3), 'CRXGate': ('CRXGate', 1), 'CRYGate': ('CRYGate', 1),
    'CRZGate': ('CRZGate', 1), 'CPGate': ('CPhaseGate', 1), 'CUGate': ('CUGate', 4), 'IdentityGate': ('IGate', 0),
}


def check_qiskit(ck: Checker):
    ctx = ck.ctx
    try:
        import qiskit.circuit.library as L
        from qiskit.quantum_info import Operator
    except CATCH as e:  # noqa
        ctx.assumptions.append(f'Qiskit reference skipped: {type(e).__name__}: {e}')
        return
    g = G()
    rng = ck.nprng
    for name, (qn, npar) in sorted(QISKIT.items()):
        gate = getattr(g, name)()
        for t in range(1 if npar == 0 else ctx.n(4, 12)):
            p = rng.uniform(-2 * PI, 2 * PI, npar)
            ref = Operator(getattr(L, qn)(*p)).reverse_qargs().data
            try:
                U = np.asarray(gate.get_unitary(p))
            except CATCH as e:  # noqa
                ck.bad(D(name), 'get_unitary_raises', p, 'a unitary', f'{type(e).__name__}: {e}', 'get_unitary raises')
                break
            ctx.count('qiskit_ref')
            ctx.case(('qiskit', name, tuple(np.round(p, 9))))
            e = np.abs(U - ref).max()
            if not e <= 1e-12:
                ck.bad(D(name), 'qiskit', p, f'qiskit.circuit.library.{qn} (qubit order reversed)', float(e),
                       'named gate differs from the matrix Qiskit assigns to the same name')
                break


def check_distinct(ck: Checker):
    """different constructor arguments / classes with different unitaries must not be equal."""
    g = G()
    pairs = [
        (D('HGate', 2), D('HGate', 3)), (D('ShiftGate', 3), D('ShiftGate', 4)), (D('PDGate', 0, 3), D('PDGate', 1, 3)),
        (wrap('PowerGate', D('U3Gate'), 2), wrap('PowerGate', D('U3Gate'), 3)),
        (wrap('ControlledGate', D('XGate'), 1, 3, 1), wrap('ControlledGate', D('XGate'), 1, 3, 2)),
        (wrap('ControlledGate', D('XGate'), 1, 3), wrap('ControlledGate', D('XGate'), 1, 2)),
        (wrap('EmbeddedGate', D('XGate'), 3, [0, 1]), wrap('EmbeddedGate', D('XGate'), 3, [0, 2])),
        (frozen(D('U3Gate'), {0: 1.0}), frozen(D('U3Gate'), {0: 2.0})),
        (frozen(D('U3Gate'), {0: 1.0}), frozen(D('U3Gate'), {1: 1.0})),
        (wrap('TaggedGate', D('XGate'), 'a'), wrap('TaggedGate', D('XGate'), 'b')),
        (wrap('DaggerGate', D('SGate')), D('SGate')), (D('RSU3Gate', 1), D('RSU3Gate', 2)),
        (D('MPRYGate', 2, 0), D('MPRYGate', 2, 1)), (D('SubSwapGate', 3, '0,1;1,0'), D('SubSwapGate', 3, '0,2;2,0')),
        (D('DiagonalGate', 1), D('DiagonalGate', 2)), (D('ArbitraryCPhaseGate', [2, 2]), D('ArbitraryCPhaseGate', [3, 3])),
        (D('IdentityGate', 1), D('IdentityGate', 2)), (D('CSUMGate', 3), D('CSUMGate', 4)),
    ]
    for a, b in pairs:
        try:
            ga, gb = build(a), build(b)
        except CATCH:  # noqa
            continue
        ck.ctx.count('distinct_pairs')
        ck.ctx.case(('distinct', vf.canon(a), vf.canon(b)))
        if ga == gb:
            ck.bad(a, 'eq_distinct', None, 'unequal gates', 'a == b',
                   'gates with different construction arguments (different unitaries) compare equal', dict(other=b))


def check_equivalent_args(ck: Checker):
    """the same constructor call written with defaults / keywords must give equal gates, equal hashes."""
    from bqskit.utils.cachedclass import CachedClass
    pairs = [
        (D('HGate'), D('HGate', 2)), (D('HGate', 3), D('HGate', radix=3)), (D('ShiftGate'), D('ShiftGate', 2)),
        (D('ClockGate'), D('ClockGate', 3)), (D('PDGate', 1), D('PDGate', 1, 3)), (D('PDGate', 1, 4), D('PDGate', 1, radix=4)),
        (D('SwapGate'), D('SwapGate', 2)), (D('SwapGate', 3), D('SwapGate', radix=3)), (D('CSUMGate'), D('CSUMGate', 3)),
        (D('DiagonalGate'), D('DiagonalGate', 2)), (D('MPRYGate', 2), D('MPRYGate', 2, 1)), (D('MPRZGate', 3), D('MPRZGate', 3, 2)),
        (D('RSU3Gate', 1), D('RSU3Gate', index=1)), (D('IdentityGate'), D('IdentityGate', 1)),
        (D('IdentityGate', 2), D('IdentityGate', 2, [2, 2])), (D('ArbitraryCPhaseGate'), D('ArbitraryCPhaseGate', [2, 2])),
        (D('PauliZGate', 2), D('PauliZGate', num_qudits=2)), (D('PauliGate', 1), D('PauliGate', num_qudits=1)),
        (D('VariableUnitaryGate', 1), D('VariableUnitaryGate', 1, [2])),
        (wrap('PowerGate', D('U3Gate')), wrap('PowerGate', D('U3Gate'), 1)),
        (wrap('ControlledGate', D('U3Gate')), wrap('ControlledGate', D('U3Gate'), 1, 2, [[1]])),
        (wrap('ControlledGate', D('U3Gate'), 2, 3), wrap('ControlledGate', D('U3Gate'), 2, [3, 3], [2, 2])),
        (wrap('EmbeddedGate', D('XGate'), 3), wrap('EmbeddedGate', D('XGate'), [3], [[0, 1]])),
    ]
    for a, b in pairs:
        try:
            ga, gb = build(a), build(b)
        except CATCH:  # noqa
            continue
        ck.ctx.count('equivalent_arg_pairs')
        ck.ctx.case(('equiv', vf.canon(a), vf.canon(b)))
        try:
            same = (ga == gb) and (gb == ga) and hash(ga) == hash(gb)
        except CATCH as e:  # noqa
            same = False
        if not same:
            own_eq = type(ga).__eq__ is not object.__eq__
            sig_in = 'class_defines_eq' if own_eq else ('cached_class_identity_eq' if isinstance(ga, CachedClass) else 'no_eq')
            ck.ctx.count('fail_eq_equivalent_args')
            ck.ctx.violation({'gate': a['cls'], 'clause': 'eq_equivalent_args', 'input': sig_in},
                             dict(desc=a, other=b, clause='eq_equivalent_args'), 'equal gates, equal hashes',
                             dict(eq=bool(ga == gb), hash_eq=hash(ga) == hash(gb)),
                             'the same constructor call written with default / keyword arguments gives unequal gates')


def check_frozen_orders(ck: Checker):
    """the same frozen map given in every dict insertion order: the gates must be equal, hash equally,
    and have the same unitary and gradient - namely the substitution by index into the inner gate."""
    ctx = ck.ctx
    g = G()
    rng = ck.nprng
    cases = [('U3Gate', (0, 1)), ('U3Gate', (0, 2)), ('U3Gate', (0, 1, 2)), ('CUGate', (1, 3)), ('CUGate', (0, 2, 3)),
             ('U8Gate', (2, 5)), ('U8Gate', (1, 4, 6)), ('FSIMGate', (0, 1)), ('U2Gate', (0, 1))]
    for name, keys in cases:
        inner = getattr(g, name)()
        n = inner.num_params
        vals = {k: float(rng.uniform(-2, 2)) for k in keys}
        free = rng.uniform(-PI, PI, n - len(keys))
        it = iter(free)
        full = [vals[i] if i in vals else next(it) for i in range(n)]
        refU = np.asarray(inner.get_unitary(full))
        refG = np.asarray(inner.get_grad(full))[[i for i in range(n) if i not in vals]]
        first = None
        for order in itertools.permutations(keys):
            d = frozen(D(name), [(k, vals[k]) for k in order])
            ctx.count('frozen_orders')
            ctx.case(('frozen_order', name, order))
            try:
                fg = build(d)
                U = np.asarray(fg.get_unitary(free))
                Gr = np.asarray(fg.get_grad(free)) if len(free) else np.zeros((0,) + U.shape)
            except CATCH as e:  # noqa
                ck.bad(d, 'exception', free, 'no exception', f'{type(e).__name__}: {e}', 'frozen gate raises')
                continue
            if not (np.abs(U - refU).max() <= 1e-12 and (len(free) == 0 or np.abs(Gr - refG).max() <= 1e-11)):
                ck.bad(d, 'composed', free, 'inner gate at the parameters substituted by index',
                       float(np.abs(U - refU).max()),
                       'FrozenParameterGate is not the substitution by index of its frozen values '
                       '(depends on the insertion order of the frozen dict)', dict(full_by_index=[float(x) for x in full]))
                continue
            if first is None:
                first = (d, fg)
                continue
            d0, f0 = first
            eq = bool(fg == f0 and f0 == fg)
            if not eq:
                ck.bad(d, 'eq_hash', None, 'equal to the gate built from the same map in another order', 'unequal',
                       'frozen gates with the same frozen map compare unequal', dict(other=d0))
            elif hash(fg) != hash(f0):
                ctx.count('fail_hash_insertion_order')
                ctx.violation({'gate': 'FrozenParameterGate', 'clause': 'hash_insertion_order'},
                              dict(desc=d, other=d0, clause='hash_insertion_order'), 'equal gates => equal hashes',
                              dict(eq=True, hash_eq=False),
                              'equal FrozenParameterGates (same frozen map, different dict insertion order) hash differently')
    # TaggedGate with a dict tag has the same __hash__ construction
    t1, t2 = g.TaggedGate(g.XGate(), {'a': 1, 'b': 2}), g.TaggedGate(g.XGate(), {'b': 2, 'a': 1})
    ctx.count('frozen_orders')
    if t1 == t2 and hash(t1) != hash(t2):
        ctx.violation({'gate': 'TaggedGate', 'clause': 'hash_insertion_order'},
                      dict(desc=wrap('TaggedGate', D('XGate'), {'a': 1, 'b': 2}), other=wrap('TaggedGate', D('XGate'), {'b': 2, 'a': 1}),
                           clause='hash_insertion_order'), 'equal gates => equal hashes', dict(eq=True, hash_eq=False),
                      'equal TaggedGates (same dict tag, different insertion order) hash differently')


# ----------------------------------------------------------------------------------------
# CachedClass: which constructor calls return the same instance (model gate/EqHash.v)
# ----------------------------------------------------------------------------------------
def check_cached_class(ck: Checker):
    ctx = ck.ctx
    rng = ctx.rng
    g = G()
    classes = ['HGate', 'ShiftGate', 'ClockGate', 'PDGate', 'CSUMGate', 'IdentityGate', 'ArbitraryCPhaseGate',
               'SubSwapGate', 'DiagonalGate', 'MPRYGate', 'RSU3Gate']
    kwnames = {'radix': 0, 'index': 1, 'num_qudits': 2, 'radixes': 3, 'target_qubit': 4, 'qudit_levels': 5}
    strs = {'0,1;1,0': 0, '0,2;2,0': 1, '1,1;2,2': 2}

    def gen_call():
        c = rng.choice(classes)
        r = rng.choice([2, 3, 4])
        form = rng.randrange(3)
        if c in ('HGate', 'ShiftGate', 'ClockGate', 'CSUMGate'):
            return (c, [], {}) if form == 0 else (c, [r], {}) if form == 1 else (c, [], {'radix': r})
        if c == 'PDGate':
            i = rng.randrange(r)
            return [(c, [i, r], {}), (c, [i], {'radix': r}), (c, [], {'index': i, 'radix': r}),
                    (c, [], {'radix': r, 'index': i})][rng.randrange(4)]
        if c == 'IdentityGate':
            n = rng.choice([1, 2])
            rx = [rng.choice([2, 3]) for _ in range(n)]
            return [(c, [n], {}), (c, [n, tuple(rx)], {}), (c, [n, list(rx)], {}), (c, [n], {'radixes': tuple(rx)}),
                    (c, [n, (list(rx),)], {})][rng.randrange(5)]     # the last one: a tuple holding a list
        if c == 'ArbitraryCPhaseGate':
            rx = [rng.choice([2, 3]) for _ in range(2)]
            return [(c, [], {}), (c, [tuple(rx)], {}), (c, [list(rx)], {}), (c, [], {'radixes': tuple(rx)})][rng.randrange(4)]
        if c == 'SubSwapGate':
            s_ = rng.choice(sorted(strs))
            return (c, [3, s_], {}) if form else (c, [3], {'qudit_levels': s_})
        if c == 'DiagonalGate':
            n = rng.choice([1, 2])
            return (c, [], {}) if form == 0 else (c, [n], {}) if form == 1 else (c, [], {'num_qudits': n})
        if c == 'MPRYGate':
            n = rng.choice([1, 2])
            return (c, [n], {}) if form == 0 else (c, [n, n - 1], {}) if form == 1 else (c, [n], {'target_qubit': n - 1})
        i = rng.randrange(8)
        return (c, [i], {}) if form else (c, [], {'index': i})

    def enc(v):
        if isinstance(v, bool):
            raise ValueError
        if isinstance(v, int):
            return str(v)
        if isinstance(v, str):
            return '[s %d]' % strs[v]
        if v is None:
            return 'none'
        if isinstance(v, tuple):
            return '[t %s]' % ' '.join(enc(x) for x in v)
        return '[l %s]' % ' '.join(enc(x) for x in v)

    seqs = [[gen_call() for _ in range(rng.randint(4, 14))] for _ in range(ctx.n(40, 600))]
    lines = ['cc [%s]' % ' '.join('[%d [%s] [%s]]' % (classes.index(c), ' '.join(enc(x) for x in a),
                                                      ' '.join('[%d %s]' % (kwnames[k], enc(v)) for k, v in kw.items()))
                                  for c, a, kw in seq) for seq in seqs]
    outs = vf.run_model('gates', lines)
    for seq, out in zip(seqs, outs):
        ctx.count('cached_class_sequences')
        ctx.case(('cc', vf.canon([[c, repr(a), repr(kw)] for c, a, kw in seq])))
        model = out.split()
        if len(model) != len(seq):
            ctx.broken_obligation('CachedClass model failed on a call sequence', out[:300])
            continue
        objs = []
        for c, a, kw in seq:
            try:
                objs.append(getattr(g, c)(*a, **kw))
            except TypeError:
                objs.append('T')
            except CATCH as e:  # noqa
                objs.append('E:' + type(e).__name__)
        bad = None
        for i in range(len(seq)):
            if (model[i] == 'T') != (objs[i] == 'T'):
                bad = (i, i)
                break
            for j in range(i):
                if model[i] != 'T' and model[j] != 'T' and not isinstance(objs[i], str) and not isinstance(objs[j], str):
                    if (objs[i] is objs[j]) != (model[i] == model[j]):
                        bad = (j, i)
                        break
            if bad:
                break
        if bad:
            ctx.violation({'gate': seq[bad[1]][0], 'clause': 'cached_class_identity'},
                          dict(calls=[[c, repr(a), repr(kw)] for c, a, kw in seq], pair=list(bad), clause='cached_class_identity'),
                          'instances identical exactly when the model says so: ' + out,
                          ['T' if o == 'T' else (o if isinstance(o, str) else hex(id(o))) for o in objs],
                          'CachedClass instance identity differs from the model of cachedclass.py',
                          corr='gate/EqHash.v vs bqskit/utils/cachedclass.py')


# ----------------------------------------------------------------------------------------
def exported_classes():
    g = G()
    out = {}
    for n in sorted(set(g.__all__)):
        o = getattr(g, n)
        out[n] = o.__name__ if inspect.isclass(o) else type(o).__name__
    return out


def all_descs(ctx, fixed_names):
    return base_grid(ctx, fixed_names), composed_grid(ctx) + random_composed(ctx, ctx.n(60, 2500)), malformed_grid()


def run_descs(ctx, ck: Checker, ds, npts):
    specs = [spec(d, ck.fixed_idx) for d in ds]
    lines = ['model ' + s for s in specs if s is not None]
    outs = iter(vf.run_model('gates', lines)) if lines else iter(())
    for d, s in zip(ds, specs):
        line = None if s is None else next(outs)
        try:
            ck.check(d, line, npts)
        except CATCH as e:  # noqa  (an implementation call escaped the per-clause handlers)
            if isinstance(e, (KeyboardInterrupt, SystemExit)):
                raise
            import traceback
            ck.bad(d, 'exception', None, 'no exception', f'{type(e).__name__}: {e}',
                   'unexpected exception while exercising the gate', dict(trace=traceback.format_exc()[-1500:]))


def run(ctx: vf.Ctx):
    ctx.uses_translators = set()
    ctx.build(**BUILD)
    warnings.simplefilter('ignore')
    np.seterr(all='ignore')
    from bqskit.ir.circuit import Circuit  # noqa: F401  (import order)
    ctx.rule = ('every name exported by bqskit.ir.gates; per class the constructor grid (radix 2-5, controls 1-3 with '
                'default/int/list/multi-level control levels, powers -3..8, frozen-parameter subsets, embedded level maps, '
                'tags, nested compositions) and a separate malformed-argument stream; per gate >= %d parameter vectors '
                '(0, multiples of pi/2, magnitudes 1e2..1e4, generic). Per case: model==get_unitary/get_grad (1e-12 rel.), '
                'unitarity, dim/radixes, grad vs central differences, get_unitary_and_grad, inverse, calc_params, optimize, '
                'numpy composition of parts, eq/hash/pickle, Qiskit reference. non-trivial = not an IdentityGate; '
                'distinct by (description, parameter vector)' % ctx.n(6, 14))
    ctx.assumptions += [
        'IEEE double evaluation of the printed expressions (harness/exprval.py) is within 1e-12*max(1,|p|) of the implementation',
        'openqudit evaluates the QGL expression it was given (checked only through the sampled correspondence)',
        'finite-difference tolerance 2e-5*max(1,|p|)*(1+|grad|)^3 is sound for the smooth entries of the library',
    ]
    ctx.trusted = ['Coq 8.16.1 kernel + vm_compute (reflective normaliser lib/Expr.v, proved sound in lib/ExprThm.v)',
                   'Coquelicot 3.x, Coq Reals axioms (sig_forall_dec, sig_not_dec, functional_extensionality_dep)',
                   'ExtrOcamlBasic extraction + OCaml 4.13.1 + coq/extract/gates_driver.ml',
                   'harness/exprval.py float evaluator; numpy; Qiskit (reference table only)']
    if not ctx.extract_ok.get('gates'):
        return
    fixed_names = vf.run_model('gates', ['names'])[0].split()
    ck = Checker(ctx, fixed_names)
    base, comp, bad = all_descs(ctx, fixed_names)
    npts = ctx.n(6, 14)
    # corpus first
    cdir = vf.ROOT / 'corpus' / 'C18'
    corpus = []
    if cdir.exists():
        import json
        for f in sorted(cdir.glob('*.json')):
            corpus.append(json.loads(f.read_text())['desc'])
    ctx.count('corpus', len(corpus))
    run_descs(ctx, ck, corpus, npts)
    run_descs(ctx, ck, base, npts)
    run_descs(ctx, ck, comp, npts)
    ctx.count('valid_descs', len(base) + len(comp))
    ctx.count('malformed_descs', len(bad))
    run_descs(ctx, ck, bad, 4)
    check_qiskit(ck)
    check_distinct(ck)
    check_equivalent_args(ck)
    check_frozen_orders(ck)
    check_cached_class(ck)
    # catalogue: every exported name is either checked, or listed with the reason
    exp = exported_classes()
    missing = {}
    for name, cn in exp.items():
        real = ALIASES.get(name, name)
        if name in NOT_GATES:
            continue
        if real not in ck.seen_cls and cn not in ck.seen_cls:
            missing[name] = 'exported but never instantiated by the generator'
    if missing:
        ctx.broken_obligation('catalogue of bqskit.ir.gates is not covered by the generator', str(missing))
    unc = dict(ck.uncovered)
    ctx.cov['exported_names'] = len(exp)
    ctx.cov['not_gates'] = NOT_GATES
    ctx.cov['transcribed_classes'] = sorted(ck.covered)
    ctx.cov['uncovered'] = unc
    ctx.cov['uncovered_count'] = len(unc)
    ctx.cov['theorem_scope'] = ('C18_library_contract covers GateLib.fixed_gates ++ grid_gates; composed gates by the '
                                'generic theorems of gate/ComposedThm.v; other grid points by correspondence + oracle')
    ctx.sample(dict(desc=comp[0], spec=spec(comp[0], ck.fixed_idx)))
    ctx.sample(dict(desc=base[37], spec=spec(base[37], ck.fixed_idx)))


def replay(ctx: vf.Ctx, data):
    warnings.simplefilter('ignore')
    np.seterr(all='ignore')
    from bqskit.ir.circuit import Circuit  # noqa: F401
    if not ctx.extract_ok.get('gates'):
        return
    fixed_names = vf.run_model('gates', ['names'])[0].split()
    ck = Checker(ctx, fixed_names)
    case = data.get('case') or {}
    if case.get('clause') == 'cached_class_identity':
        check_cached_class(ck)
        return
    if 'desc' not in case:
        return
    run_descs(ctx, ck, [case['desc']], 14)
    if case.get('clause') == 'qiskit':
        check_qiskit(ck)
    if case.get('clause') == 'eq_distinct':
        check_distinct(ck)
    if case.get('clause') == 'eq_equivalent_args':
        check_equivalent_args(ck)
    if case.get('clause') == 'hash_insertion_order' or (case.get('desc') or {}).get('cls') == 'FrozenParameterGate':
        check_frozen_orders(ck)
