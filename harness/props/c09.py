"""C09 - placement, layout and routing preserve the program and respect the coupling.

Tie: TRACE REPLAY.  The real passes (GeneralizedSabreLayoutPass /
GeneralizedSabreRoutingPass, Trivial/Greedy/Static placement, SetModelPass,
ApplyPlacement) run unchanged; a recording subclass notes every executed
operation (F.remove), every swap chosen by the heuristic, every backtrack and
every uphill swap, the front set after each step, every append/pop on the
mapped circuit and PassData after each pass.  The extracted Coq model
(coq/map/Sabre.v, coq/map/Placement.v, coq/lib/Perm.v) replays the trace,
checks that each recorded step was *enabled*, and must reproduce front sets,
pi, the mapped circuit and the three mappings.

Property oracle (independent of the model): on the implementation's output
check coupling, injectivity, connected placement, "only swaps added", and the
exact action on embedded basis states (monomial gates, phases as powers of i).
"""
from __future__ import annotations

import asyncio
import itertools
import json
import multiprocessing as mp
import os
import random
import time
import warnings
from pathlib import Path

import vf

BUILD = dict(extracted=['sabre'], translators=set())

ROOT = Path(__file__).resolve().parent.parent.parent


# --------------------------------------------------------------------------
# small helpers
# --------------------------------------------------------------------------
def fmt(x) -> str:
    if isinstance(x, (list, tuple)):
        return '[' + ' '.join(fmt(y) for y in x) + ']'
    if isinstance(x, bool):
        return '1' if x else '0'
    return str(x)


def pv(val: str):
    """parse the driver's value syntax into python lists / ints / strings"""
    toks = val.replace('[', ' [ ').replace(']', ' ] ').split()
    pos = 0

    def item():
        nonlocal pos
        t = toks[pos]
        pos += 1
        if t == '[':
            out = []
            while toks[pos] != ']':
                out.append(item())
            pos += 1
            return out
        try:
            return int(t)
        except ValueError:
            return t
    res = []
    while pos < len(toks):
        res.append(item())
    return res[0] if len(res) == 1 else res


def connected(n, edges, verts=None):
    verts = list(range(n)) if verts is None else list(verts)
    if not verts:
        return False
    vs = set(verts)
    adj = {v: set() for v in verts}
    for a, b in edges:
        if a in vs and b in vs:
            adj[a].add(b)
            adj[b].add(a)
    seen = {verts[0]}
    st = [verts[0]]
    while st:
        x = st.pop()
        for y in adj[x]:
            if y not in seen:
                seen.add(y)
                st.append(y)
    return len(seen) == len(verts)


def all_connected_graphs(n):
    pairs = list(itertools.combinations(range(n), 2))
    for mask in range(1 << len(pairs)):
        es = [p for i, p in enumerate(pairs) if mask >> i & 1]
        if connected(n, es):
            yield es


def random_connected_graph(rng, m, extra_p):
    """random spanning tree + extra edges"""
    order = list(range(m))
    rng.shuffle(order)
    es = set()
    for i in range(1, m):
        j = rng.randrange(i)
        es.add(tuple(sorted((order[i], order[j]))))
    for a in range(m):
        for b in range(a + 1, m):
            if rng.random() < extra_p:
                es.add((a, b))
    return sorted(es)


def prefix_connected_graph(rng, m, n, extra_p):
    """connected graph on m vertices whose first n vertices induce a connected subgraph"""
    es = set(random_connected_graph(rng, n, extra_p)) if n >= 2 else set()
    for v in range(n, m):
        es.add((rng.randrange(v), v))
    for a in range(m):
        for b in range(a + 1, m):
            if rng.random() < extra_p:
                es.add((a, b))
    return sorted(es)


# --------------------------------------------------------------------------
# case description -> bqskit objects   (a case is pure JSON)
# --------------------------------------------------------------------------
# gate tokens; all are monomial with entries in {1, i, -1, -i}
G1 = ['X', 'Y', 'Z', 'S', 'Sdg']
G2 = ['CX', 'CZ', 'CY', 'SWAP', 'ISWAP', 'CS']
G3 = ['CCX', 'MARG']
Q1 = ['SHIFT3']
Q2 = ['CSUM', 'SWAP3', 'CPI']


def gate_of(tok):
    import bqskit.ir.gates as G
    table = {
        'X': G.XGate, 'Y': G.YGate, 'Z': G.ZGate, 'S': G.SGate, 'Sdg': G.SdgGate,
        'CX': G.CXGate, 'CZ': G.CZGate, 'CY': G.CYGate, 'SWAP': G.SwapGate, 'ISWAP': G.ISwapGate,
        'CS': G.CSGate, 'CCX': G.CCXGate, 'MARG': G.MargolusGate,
    }
    if tok in table:
        return table[tok]()
    if tok == 'SHIFT3':
        return G.ShiftGate(3)
    if tok == 'CSUM':
        return G.CSUMGate(3)
    if tok == 'SWAP3':
        return G.SwapGate(3)
    if tok == 'CPI':
        return G.CPIGate()
    raise ValueError(tok)


def build_circuit(n, radix, ops):
    """ops: list of [tok, loc] | ['BAR', loc] | ['BLOCK', loc, [[tok, localloc], ...]]"""
    from bqskit.ir.circuit import Circuit
    from bqskit.ir.gates import BarrierPlaceholder, CircuitGate
    c = Circuit(n, [radix] * n)
    for op in ops:
        tok, loc = op[0], op[1]
        if tok == 'BAR':
            c.append_gate(BarrierPlaceholder(len(loc), [radix] * len(loc)) if radix != 2 else BarrierPlaceholder(len(loc)), loc)
        elif tok == 'BLOCK':
            sub = Circuit(len(loc), [radix] * len(loc))
            for t2, l2 in op[2]:
                sub.append_gate(gate_of(t2), l2)
            c.append_gate(CircuitGate(sub), loc)
        else:
            c.append_gate(gate_of(tok), loc)
    return c


def gen_ops(rng, n, radix, nops, p3=0.15, pbar=0.06, pblock=0.12, p1=0.25):
    ops = []
    g1, g2 = (G1, G2) if radix == 2 else (Q1, Q2)
    for _ in range(nops):
        r = rng.random()
        if r < pbar:
            k = rng.randint(1, n)
            ops.append(['BAR', rng.sample(range(n), k)])
        elif r < pbar + pblock:
            k = rng.choice([1, 2, 2, 3]) if n >= 3 else rng.choice([1, 2])
            k = min(k, n)
            loc = sorted(rng.sample(range(n), k))
            inner = []
            only1 = rng.random() < 0.25 or k == 1
            for _ in range(rng.randint(1, 4)):
                if only1 or rng.random() < 0.3:
                    inner.append([rng.choice(g1), [rng.randrange(k)]])
                else:
                    inner.append([rng.choice(g2), rng.sample(range(k), 2)])
            ops.append(['BLOCK', loc, inner])
        elif r < pbar + pblock + p1:
            ops.append([rng.choice(g1), [rng.randrange(n)]])
        elif r < pbar + pblock + p1 + p3 and n >= 3 and radix == 2:
            ops.append([rng.choice(G3), rng.sample(range(n), 3)])
        else:
            ops.append([rng.choice(g2), rng.sample(range(n), 2)])
    return ops


# --------------------------------------------------------------------------
# exact simulation of monomial circuits on basis states
# --------------------------------------------------------------------------
_MONO_CACHE: dict = {}


def monomial_of(gate):
    """(perm, phase) for a gate whose unitary is monomial with entries in
    {1,i,-1,-i}: U|j> = i^phase[j] |perm[j]>.  None if the gate is not."""
    import numpy as np
    key = id(gate)
    try:
        hkey = (type(gate).__name__, gate.radixes, hash(gate))
    except Exception:
        hkey = None
    if hkey is not None and hkey in _MONO_CACHE:
        return _MONO_CACHE[hkey]
    U = np.array(gate.get_unitary().numpy)
    dim = U.shape[0]
    perm, phase = [], []
    res = None
    for j in range(dim):
        col = U[:, j]
        nz = [r for r in range(dim) if abs(col[r]) > 1e-9]
        if len(nz) != 1:
            break
        v = col[nz[0]]
        for k, w in enumerate((1, 1j, -1, -1j)):
            if abs(v - w) < 1e-9:
                perm.append(nz[0])
                phase.append(k)
                break
        else:
            break
    else:
        res = (perm, phase)
    if hkey is not None:
        _MONO_CACHE[hkey] = res
    return res


def simulate(ops_list, radixes, states):
    """ops_list: [(gate, location)], states: list of digit lists.  Returns
    [(phase mod 4, digits)] or raises ValueError for a non-monomial gate."""
    from bqskit.ir.gates import BarrierPlaceholder
    out = []
    compiled = []
    for gate, loc in ops_list:
        if isinstance(gate, BarrierPlaceholder):
            continue
        m = monomial_of(gate)
        if m is None:
            raise ValueError('non-monomial gate %s' % gate)
        compiled.append((m, list(loc), [radixes[q] for q in loc]))
    for st in states:
        d = list(st)
        ph = 0
        for (perm, phase), loc, rads in compiled:
            j = 0
            for q, r in zip(loc, rads):
                j = j * r + d[q]
            ph = (ph + phase[j]) & 3
            k = perm[j]
            for q, r in zip(reversed(loc), reversed(rads)):
                d[q] = k % r
                k //= r
        out.append((ph, d))
    return out


def circuit_ops(circuit):
    return [(op.gate, tuple(op.location)) for op in circuit]


def gname(g) -> str:
    """comparable token for a gate (router swaps and input swaps are both 'SWAP')"""
    if isinstance(g, str):
        return g
    tn = type(g).__name__
    if tn == 'SwapGate':
        return 'SWAP'
    if tn == 'BarrierPlaceholder':
        return 'BAR%d' % g.num_qudits
    return '%s%s' % (repr(g), list(g.radixes) if any(r != 2 for r in g.radixes) else '')


# --------------------------------------------------------------------------
# recording subclasses
# --------------------------------------------------------------------------
class StepBudget(Exception):
    """the recorded pass took more steps than any terminating run is expected to need"""


STEP_LIMIT = 6000


class PassRec:
    """Everything observed during one forward_pass / backward_pass."""

    def __init__(self, kind, circuit, pi, cg, modify):
        self.kind = kind
        self.modify = modify
        self.pi0 = list(pi)
        self.cg = [sorted(cg._adj[q]) for q in range(cg.num_qudits)]
        self.nq = circuit.num_qudits
        self.points = {}
        self.ops = []
        for i, (cyc, op) in enumerate(circuit.operations_with_cycles()):
            self.points[(cyc, op.location[0])] = i
            self.ops.append(op)
        self.steps = []       # model steps
        self.fs = []          # front set after each step (first entry: initial)
        self.raw = []         # every _apply_swap in order
        self.bt_raw = []      # per Backtrack step: the swaps applied while undoing
        self.events = []      # append / pop on the mapped circuit
        self.pending = None
        self.F = None
        self.in_bt = False
        self.pi_end = None
        self.mapped = None    # per-qudit timelines of mapped_circuit at become()
        self.problems = []

    def idx(self, p):
        return self.points[(p[0], p[1])]

    def snap(self):
        if self.F is not None:
            self.fs.append(sorted(self.idx(p) for p in self.F))

    def new_step(self, st):
        # F after the previous step is final only now
        self.snap()
        self.steps.append(st)
        if len(self.steps) > STEP_LIMIT:
            raise StepBudget('%s pass exceeded %d steps' % (self.kind, STEP_LIMIT))

    def on_swap(self, swap):
        swap = (int(swap[0]), int(swap[1]))
        self.raw.append(swap)
        if self.pending is not None and self.pending[1] == swap:
            kind = self.pending[0]
            self.pending = None
            self.in_bt = False
            self.new_step([kind, swap[0], swap[1]])
        else:
            if self.pending is not None:
                self.problems.append('swap %s applied while %s was pending' % (swap, self.pending))
                self.pending = None
            if not self.in_bt:
                self.in_bt = True
                self.new_step(['B'])
                self.bt_raw.append([])
            self.bt_raw[-1].append(swap)


class RecSet(set):
    rec = None

    def remove(self, x):
        r = self.rec
        if r is not None:
            r.in_bt = False
            i = r.idx(x)
            if r.kind == 'pfwd':
                r.new_step(['PB', i] if type(r.ops[i].gate).__name__ == 'BarrierPlaceholder' else ['P', i, None, None])
            else:
                r.new_step(['E', i])
        set.remove(self, x)


class CircuitProxy:
    """Stands in for the input circuit inside forward_pass / backward_pass."""

    def __init__(self, real, rec, attr):
        object.__setattr__(self, '_real', real)
        object.__setattr__(self, '_rec', rec)
        object.__setattr__(self, '_attr', attr)

    def __getattr__(self, name):
        return getattr(self._real, name)

    def __getitem__(self, k):
        return self._real[k]

    def __len__(self):
        return len(self._real)

    def __iter__(self):
        return iter(self._real)

    def _fset(self, which):
        s = RecSet(getattr(self._real, which))
        s.rec = self._rec
        self._rec.F = s
        return s

    @property
    def front(self):
        return self._fset('front')

    @property
    def rear(self):
        return self._fset('rear')

    def become(self, other, deepcopy=True):
        self._rec.mapped = timelines(other)
        return self._real.become(other, deepcopy)


def timelines(circuit):
    """per-qudit sequence of (gate, location) - the order-insensitive canonical form"""
    tl = [[] for _ in range(circuit.num_qudits)]
    for cyc, op in circuit.operations_with_cycles():
        for q in op.location:
            tl[q].append((op.gate, tuple(op.location)))
    return tl


class patch_circuit:
    """record append / pop on every Circuit other than the input during a pass
    (Circuit.append is what append_gate and append_circuit(as_circuit_gate=True) end in)"""

    def __init__(self, rec, real):
        self.rec, self.real = rec, real

    def __enter__(self):
        from bqskit.ir.circuit import Circuit
        self.C = Circuit
        self.o_append, self.o_pop = Circuit.append, Circuit.pop
        rec, real = self.rec, self.real
        o_append, o_pop = self.o_append, self.o_pop

        def append(slf, op):
            if slf is not real:
                rec.events.append(('append', op.gate, tuple(int(x) for x in op.location)))
            return o_append(slf, op)

        def pop(slf, point=None):
            op = o_pop(slf, point)
            if slf is not real:
                rec.events.append(('pop', op.gate, tuple(op.location)))
            return op
        Circuit.append, Circuit.pop = append, pop
        return self

    def __exit__(self, *a):
        self.C.append, self.C.pop = self.o_append, self.o_pop


def recording(cls, log, adversary=None):
    """subclass of a Sabre pass that records into `log` (list of PassRec).
    adversary(rng-like callable): replaces the heuristic's choice among the
    candidate swaps - the theorems hold for every choice."""

    class R(cls):
        def _begin(self, kind, circuit, pi, cg, modify):
            rec = PassRec(kind, circuit, pi, cg, modify)
            log.append(rec)
            self._rec = rec
            return rec

        def forward_pass(self, circuit, pi, cg, modify_circuit=False):
            rec = self._begin('fwd', circuit, pi, cg, modify_circuit)
            with patch_circuit(rec, circuit):
                super().forward_pass(CircuitProxy(circuit, rec, 'front'), pi, cg, modify_circuit)
            rec.snap()
            rec.pi_end = list(pi)
            self._rec = None

        def backward_pass(self, circuit, pi, cg):
            rec = self._begin('bwd', circuit, pi, cg, False)
            with patch_circuit(rec, circuit):
                super().backward_pass(CircuitProxy(circuit, rec, 'rear'), pi, cg)
            rec.snap()
            rec.pi_end = list(pi)
            self._rec = None

        def _apply_swap(self, swap, pi, decay):
            if getattr(self, '_rec', None) is not None:
                self._rec.on_swap(swap)
            return super()._apply_swap(swap, pi, decay)

        def _get_best_swap(self, circuit, F, E, D, cg, pi, decay):
            if adversary is not None:
                cands = sorted(self._obtain_swaps(circuit, F, pi, cg))
                s = adversary(cands)
                if s is None:
                    s = super()._get_best_swap(circuit, F, E, D, cg, pi, decay)
            else:
                s = super()._get_best_swap(circuit, F, E, D, cg, pi, decay)
            if getattr(self, '_rec', None) is not None:
                self._rec.pending = ('S', (int(s[0]), int(s[1])))
            return s

        def _uphill_swaps(self, logical_qudits, cg, pi, D):
            for s in super()._uphill_swaps(logical_qudits, cg, pi, D):
                if getattr(self, '_rec', None) is not None:
                    self._rec.pending = ('U', (int(s[0]), int(s[1])))
                yield s
    R.__name__ = 'Rec' + cls.__name__
    return R


# --------------------------------------------------------------------------
# one case through the implementation
# --------------------------------------------------------------------------
def is_free(op):
    from bqskit.ir.gates import BarrierPlaceholder, CircuitGate
    if isinstance(op.gate, BarrierPlaceholder):
        return True
    if isinstance(op.gate, CircuitGate):
        return all(g.num_qudits == 1 for g in op.gate._circuit.gate_set)
    return False


def alias_probe(data, where, deep=False):
    """the three bookkeeping lists of PassData (and of a copy) must be pairwise distinct objects,
    and mutating one in place must not change the others.  Returns a list of problems."""
    bad = []
    names = ('placement', 'initial_mapping', 'final_mapping')

    def probe(d, tag):
        lists = [getattr(d, nm) for nm in names]
        for i in range(3):
            for j in range(i + 1, 3):
                if lists[i] is lists[j]:
                    bad.append('%s%s: %s and %s are the same list object' % (where, tag, names[i], names[j]))
    probe(data, '')
    if not deep:
        return sorted(set(bad))
    try:
        cp = data.copy()
    except Exception as e:  # noqa
        return bad + ['%s: data.copy() raised %s' % (where, type(e).__name__)]
    probe(cp, ' (copy)')
    # in-place mutation of one list of the COPY (the real data is left alone)
    for i, nm in enumerate(names):
        before = [list(getattr(cp, x)) for x in names]
        lst = getattr(cp, nm)
        lst.append(-7)
        for j, other in enumerate(names):
            if j != i and list(getattr(cp, other)) != before[j]:
                bad.append('%s (copy): appending to %s in place changed %s' % (where, nm, other))
        lst.pop()
    if [list(getattr(data, x)) for x in names] != [list(getattr(data, x)) for x in names]:
        bad.append('%s: unstable' % where)
    return sorted(set(bad))


def run_impl(case):
    """Run [SetModel, placement, layout, routing, ApplyPlacement] directly.
    Returns a dict of observations (no bqskit objects that cannot be compared)."""
    from bqskit.ir.circuit import Circuit  # noqa
    from bqskit.qis.graph import CouplingGraph
    from bqskit.compiler.machine import MachineModel
    from bqskit.compiler.passdata import PassData
    from bqskit.passes.mapping import (SetModelPass, GreedyPlacementPass, TrivialPlacementPass,
                                       StaticPlacementPass, GeneralizedSabreLayoutPass,
                                       GeneralizedSabreRoutingPass, ApplyPlacement)
    n, radix, m = case['n'], case['radix'], case['m']
    circuit = build_circuit(n, radix, case['ops'])
    original = circuit.copy()
    cgm = CouplingGraph([tuple(e) for e in case['edges']], m)
    model = MachineModel(m, cgm, radixes=[radix] * m)
    # PassData.__init__ evaluates circuit.get_unitary() for <= 8 qudits and falls back to the circuit
    # itself on RuntimeError; the target is irrelevant to the mapping passes, so take the fallback
    # (a 3^8-dimensional unitary would not even fit in memory).
    from bqskit.ir.circuit import Circuit as _C
    _gu = _C.get_unitary

    def _no_unitary(self, *a, **k):
        raise RuntimeError('target not needed')
    _C.get_unitary = _no_unitary
    try:
        data = PassData(circuit)
    finally:
        _C.get_unitary = _gu
    log: list[PassRec] = []
    prm = case['params']
    kw = dict(decay_delta=prm['decay_delta'], decay_reset_interval=prm['decay_reset_interval'],
              decay_reset_on_gate=prm['decay_reset_on_gate'], extended_set_size=prm['extended_set_size'],
              extended_set_weight=prm['extended_set_weight'])
    adversary = None
    if prm.get('adversary'):
        arng = random.Random(prm['adversary'])
        pa = prm.get('adv_p', 1.0)

        def adversary(cands):
            if not cands or arng.random() > pa:
                return None
            return arng.choice(cands)
    obs = dict(stages=[], error=None)
    static_found = {}

    class RecStatic(StaticPlacementPass):
        def find_monomorphic_subgraph(self, physical_graph, logical_graph):
            r = super().find_monomorphic_subgraph(physical_graph, logical_graph)
            if case.get('static_adv'):
                # adversarial search result (the search is an oracle of the model): a random injective list of
                # machine qudits, usually NOT a monomorphism, sometimes of the wrong length - the acceptance
                # test of run() (Placement.static_accepts / C09_static_placement) has to sort it out
                srng = random.Random(case['static_adv'])
                k = logical_graph.num_qudits if srng.random() < 0.85 else max(0, logical_graph.num_qudits - 1)
                r = srng.sample(range(physical_graph.num_qudits), min(k, physical_graph.num_qudits))
            static_found['found'] = [int(x) for x in r]
            static_found['ledges'] = sorted([int(a), int(b)] for a, b in logical_graph)
            return r

    def adj_of_cg(cg_):
        # adjacency in the implementation's own iteration order (GreedyPlacement ties)
        return [[int(x) for x in cg_.get_neighbors_of(q)] for q in range(cg_.num_qudits)]

    class DirectModel:
        """`data.model = model` (compile(..., data={'machine_model': m}) / circuit.perform(p, {...})):
        the model is handed over through PassData, no SetModelPass, the placement is not touched"""

        def __init__(self, mdl):
            self.mdl = mdl

        async def run(self, circuit, data):
            data.model = self.mdl

    def placer_pass(pl):
        return {'T': TrivialPlacementPass, 'G': GreedyPlacementPass, 'S': RecStatic}[pl]()

    def layout_pass():
        return recording(GeneralizedSabreLayoutPass, log, adversary)(max(1, case['layout_passes']), **kw)

    def routing_pass():
        return recording(GeneralizedSabreRoutingPass, log, adversary)(**kw)

    graphs = [case['edges']] + ([case['edges2']] if case.get('edges2') else [])

    def model_of(i):
        cg_ = CouplingGraph([tuple(e) for e in graphs[i]], m)
        return MachineModel(m, cg_, radixes=[radix] * m), adj_of_cg(cg_)

    if case.get('variant') == 'seq':
        toks = case['seq']
    else:
        toks = ['SM0']
        if case['placer'] in 'TGS':
            toks.append('PL')
        if case['layout_passes']:
            toks.append('LAY')
        toks.append('RT')
        if case.get('variant') == 'double':
            toks += ['SM1', 'RT']
        toks.append('AP')
    passes, seen, edges_final = [], {}, case['edges']

    def uname(base):
        seen[base] = seen.get(base, 0) + 1
        return base if seen[base] == 1 else '%s%d' % (base, seen[base])
    for tk in toks:
        if tk in ('SM0', 'SM1'):
            mdl, madj = model_of(int(tk[2]))
            passes.append((uname('setmodel'), SetModelPass(mdl), madj))
            edges_final = graphs[int(tk[2])]
        elif tk in ('DM0', 'DM1'):
            mdl, madj = model_of(int(tk[2]))
            passes.append((uname('directmodel'), DirectModel(mdl), madj))
            edges_final = graphs[int(tk[2])]
        elif tk == 'PL':
            passes.append((uname('placement'), placer_pass(case['placer']), None))
        elif tk == 'LAY':
            passes.append((uname('layout'), layout_pass(), None))
        elif tk == 'RT':
            passes.append((uname('routing'), routing_pass(), None))
        elif tk == 'AP':
            passes.append((uname('apply'), ApplyPlacement(), None))
        else:
            raise ValueError(tk)
    obs['toks'] = toks
    obs['edges_final'] = edges_final
    obs['mach_adj'] = adj_of_cg(cgm)
    obs['alias'] = alias_probe(data, 'PassData(circuit)', deep=True)

    def snap():
        return dict(placement=list(data.placement), imap=list(data.initial_mapping), fmap=list(data.final_mapping))

    async def go():
        mach = None
        for name, p, madj in passes:
            info = dict(before=snap(), nlog=len(log))
            if madj is not None:
                mach = madj
            info['mach'] = mach if madj is None else madj
            if name.startswith('routing') or name.startswith('apply'):
                info['circ_before'] = [op for _, op in circuit.operations_with_cycles()]
                info['nq_before'] = circuit.num_qudits
            try:
                await p.run(circuit, data)
            except StepBudget as e:
                obs['error'] = (name, 'StepBudget', str(e))
                obs['error_info'] = info
                obs['budget'] = str(e)
                return
            except Exception as e:  # noqa
                obs['error'] = (name, type(e).__name__, str(e)[:200])
                obs['error_info'] = info
                return
            info['log'] = log[info['nlog']:]
            if name.startswith('routing') or name.startswith('apply'):
                info['tl_after'] = timelines(circuit)
            if name.startswith('routing'):
                obs['routing_placement'] = list(data.placement)
                obs['routing_edges'] = edges_now[0]
            obs['alias'] += alias_probe(data, name)
            obs['stages'].append((name, snap()))
            obs['infos'].append((name, info))
    obs['infos'] = []
    edges_now = [None]
    # the machine graph in force at each pass: follow the tokens
    cur = None
    force = {}
    for (name, _p, _m), tk in zip(passes, toks):
        if tk[:2] in ('SM', 'DM'):
            cur = graphs[int(tk[2])]
        force[name] = cur
    obs['force'] = force
    asyncio.run(go())
    obs['alias'] += alias_probe(data, 'end of pipeline', deep=True)
    if 'routing_placement' in obs:
        last_rt = [nm for nm, _ in obs['stages'] if nm.startswith('routing')][-1]
        obs['routing_edges'] = force[last_rt]
    obs['log'] = log
    obs['static'] = static_found
    obs['original'] = original
    obs['final'] = circuit
    obs['model_n'] = m
    return obs


# --------------------------------------------------------------------------
# model side
# --------------------------------------------------------------------------
def circ_tokens(ops):
    return [[1 if is_free(op) else 0, list(op.location)] for op in ops]


def pd_tok(pd):
    return fmt([pd['placement'], pd['imap'], pd['fmap']])


def placer_tok(case, obs):
    pl = case['placer']
    if pl == 'S':
        sf = obs['static']
        return '[S %s %s]' % (fmt(sf.get('ledges', [])), fmt(sf.get('found', [])))
    return pl


def ltr_tok(recs):
    pairs = []
    for i in range(0, len(recs) - 1, 2):
        pairs.append([recs[i].steps, recs[i + 1].steps])
    if len(recs) % 2:
        pairs.append([recs[-1].steps, []])
    return fmt(pairs)


def stage_line(case, obs, name, info):
    """the model query for one pass, fed with the implementation's PassData before it"""
    g, pdb = fmt(info['mach']), pd_tok(info['before'])
    if name.startswith('setmodel'):
        return 'sm %s %d %s' % (g, case['n'], pdb)
    if name.startswith('placement'):
        return 'plc %s %s %d %s' % (g, pdb, case['n'], placer_tok(case, obs))
    if name.startswith('layout'):
        recs = info.get('log', log_tail(obs, info))
        c = circ_tokens(recs[0].ops) if recs else circ_tokens([op for _, op in obs['original'].operations_with_cycles()])
        return 'lay %s %s %s %d %s' % (g, pdb, fmt(c), case['n'], ltr_tok(recs))
    if name.startswith('routing'):
        recs = info.get('log', log_tail(obs, info))
        return 'rt %s %s %s %d %s' % (g, pdb, fmt(circ_tokens(info['circ_before'])), info['nq_before'],
                                      fmt(recs[0].steps) if recs else '[]')
    if name.startswith('apply'):
        out = [['G', i, list(op.location)] for i, op in enumerate(info['circ_before'])]
        return 'ap %s %s %s' % (g, pdb, fmt(out))
    if name.startswith('directmodel'):
        return None
    raise ValueError(name)


def log_tail(obs, info):
    return obs['log'][info['nlog']:]


def model_lines(case, obs):
    """the driver queries for this case: one `pass` line per recorded forward/backward pass,
    one line per executed pass (stage) and, for the standard pipeline, one `pipe` line"""
    lines = []
    for rec in obs['log']:
        lines.append('pass %s %s %d %d %d %s %s' % (
            fmt(rec.cg), fmt(circ_tokens(rec.ops)), rec.nq, 1 if rec.kind == 'fwd' else 0,
            1 if rec.modify else 0, fmt(rec.pi0), fmt(rec.steps)))
    stage_infos = list(obs['infos'])
    if obs['error'] is not None:
        stage_infos.append((obs['error'][0], obs['error_info']))
    obs['stage_infos'] = stage_infos
    stage_infos = [(nm, inf) for nm, inf in stage_infos if not nm.startswith('directmodel')]
    obs['stage_infos'] = stage_infos
    for name, info in stage_infos:
        lines.append(stage_line(case, obs, name, info))
    # SabreStrict.replay_strict (the run relation of C09_progress_bounds / C09_guards_do_not_bound_rounds):
    # must accept exactly the recorded passes whose every step is enabled and obeys the loop guards
    for rec in obs['log']:
        lines.append('strict %s %s %d %d %d %s %s' % (
            fmt(rec.cg), fmt(circ_tokens(rec.ops)), rec.nq, 1 if rec.kind == 'fwd' else 0,
            1 if rec.modify else 0, fmt(rec.pi0), fmt(rec.steps)))
    if case.get('variant', 'std') == 'std':
        log = obs['log']
        lay = [r for r in log if not r.modify]
        rout = [r for r in log if r.modify]
        ltr = ltr_tok(lay) if case['layout_passes'] else 'N'
        rtr = fmt(rout[0].steps) if rout else '[]'
        orig_ops = [op for _, op in obs['original'].operations_with_cycles()]
        lines.append('pipe %s %s %d %s %s %s' % (
            fmt(obs['mach_adj']), fmt(circ_tokens(orig_ops)), case['n'], placer_tok(case, obs), ltr, rtr))
    return lines


def out_timelines(out, gates, nq):
    """model `out` -> per-qudit timelines of (gate, location)"""
    tl = [[] for _ in range(nq)]
    for o in out:
        if o[0] == 'G':
            g, loc = gates[o[1]], tuple(o[2])
        else:
            g, loc = 'SWAP', (o[1], o[2])
        for q in loc:
            tl[q].append((g, loc))
    return tl


def canon_tl(tl):
    """timelines with gates replaced by comparable tokens"""
    return [[(gname(g), tuple(loc)) for g, loc in line] for line in tl]


def compare_pass(rec, ans, where):
    """model answer for a `pass` line vs. the recording.  Returns list of
    (what, expected(model), observed(impl))."""
    diffs = []
    if isinstance(ans, str):
        return [('model raised', ans, 'pass completed')]
    status, pi, fs, out, stricts, lead = ans
    if status != 'OK':
        k = status[1]
        diffs.append(('step %d %s not enabled in the model' % (k, rec.steps[k]), 'enabled', status))
        return diffs
    if rec.problems:
        diffs.append(('recorder', 'consistent events', rec.problems))
    if pi != rec.pi_end:
        diffs.append(('pi at the end of the pass', pi, rec.pi_end))
    if fs != rec.fs:
        k = next((i for i, (a, b) in enumerate(zip(fs, rec.fs)) if a != b), min(len(fs), len(rec.fs)))
        diffs.append(('front set after step %d' % k, fs[k] if k < len(fs) else None, rec.fs[k] if k < len(rec.fs) else None))
    if rec.fs and rec.fs[-1] != []:
        diffs.append(('pass ended with a non-empty front set', [], rec.fs[-1]))
    if not all(s == 'T' for s in stricts):
        k = stricts.index('F')
        diffs.append(('control flow guard of step %d %s' % (k, rec.steps[k]), 'T', 'F'))
    # every _apply_swap in order: model = steps S/U plus reversed leading swaps at B
    exp_raw, leadl, bi = [], [], 0
    for st in rec.steps:
        if st[0] == 'E':
            leadl = []
        elif st[0] == 'S':
            exp_raw.append((st[1], st[2]))
            leadl.append((st[1], st[2]))
        elif st[0] == 'U':
            exp_raw.append((st[1], st[2]))
        elif st[0] == 'B':
            exp_raw += list(reversed(leadl))
            leadl = []
    if exp_raw != rec.raw:
        diffs.append(('sequence of _apply_swap calls', exp_raw, rec.raw))
    if rec.modify:
        # replay the implementation's append/pop events into a list
        lst = []
        for ev in rec.events:
            if ev[0] == 'append':
                lst.append((ev[1], ev[2]))
            else:
                for i in range(len(lst) - 1, -1, -1):
                    if lst[i][1] == ev[2] and lst[i][0] == ev[1]:
                        del lst[i]
                        break
                else:
                    diffs.append(('pop of an operation never appended', None, str(ev)))
        impl_seq = [(gname(g), tuple(loc)) for g, loc in lst]
        model_seq = [(gname(rec.ops[o[1]].gate), tuple(o[2])) if o[0] == 'G' else ('SWAP', (o[1], o[2])) for o in out]
        if impl_seq != model_seq:
            diffs.append(('mapped circuit (append/pop event replay)', model_seq, impl_seq))
        if rec.mapped is not None:
            na = canon_tl(out_timelines(out, [op.gate for op in rec.ops], rec.nq))
            nb = canon_tl(rec.mapped)
            if na != nb:
                diffs.append(('mapped circuit per-qudit timelines', na, nb))
    return [(where + ': ' + w, e, o) for w, e, o in diffs]


def compare_stages(case, obs, answers):
    """per-pass model answers vs. the implementation's PassData / circuit after each pass"""
    diffs = []
    ist = dict(obs['stages'])
    for (name, info), ans in zip(obs['stage_infos'], answers):
        failed = obs['error'] is not None and obs['error'][0] == name
        if isinstance(ans, str) and ans != 'ERR':
            diffs.append(('stage %s: model raised' % name, ans, 'n/a'))
            continue
        if failed:
            if ans != 'ERR':
                diffs.append(('stage %s raised %s in the implementation' % (name, obs['error'][1]), 'ERR', ans))
            continue
        if ans == 'ERR':
            diffs.append(('stage %s: model fails, implementation does not' % name, 'ERR', ist[name]))
            continue
        iv = ist[name]
        exp = [iv['placement'], iv['imap'], iv['fmap']]
        if name.startswith('routing') or name.startswith('apply'):
            out, pd = ans
            gates = [op.gate for op in info['circ_before']]
            nq_after = len(info['tl_after'])
            na = canon_tl(out_timelines(out, gates, nq_after))
            nb = canon_tl(info['tl_after'])
            if na != nb:
                diffs.append(('stage %s: circuit per-qudit timelines' % name, na, nb))
        else:
            pd = ans
        if pd != exp:
            diffs.append(('stage %s: PassData (placement, initial_mapping, final_mapping)' % name, pd, exp))
    return diffs


def compare_pipe(case, obs, ans):
    diffs = []
    if isinstance(ans, str):
        return [('pipe: model raised', ans, 'n/a')]
    stages, whole = ans
    mst = {s[0]: s[1] for s in stages}
    ist = dict(obs['stages'])
    err = obs['error']
    order = ['setmodel', 'placement', 'layout', 'routing', 'apply']
    for name in order:
        if name == 'placement' and case['placer'] == 'N':
            continue
        if name == 'layout' and not case['layout_passes']:
            continue
        mv = mst.get(name)
        if err is not None and err[0] == name:
            if mv != 'ERR':
                diffs.append(('pipe: %s raised %s in the implementation' % (name, err[1]), 'ERR', mv))
            break
        if name not in ist:
            break
        if mv == 'ERR' or mv is None:
            diffs.append(('pipe: model fails at %s' % name, mv, ist[name]))
            break
        pd = mv[1] if name in ('routing', 'apply') else mv
        iv = ist[name]
        exp = [iv['placement'], iv['imap'], iv['fmap']]
        if pd != exp:
            diffs.append(('pipe: PassData (placement, initial_mapping, final_mapping) after %s' % name, pd, exp))
    if 'static_search_ok' in mst and mst['static_search_ok'] != 'T' and obs['static'].get('found'):
        diffs.append(('pipe: StaticPlacement search result not injective into the machine', 'T', mst['static_search_ok']))
    if err is None and 'apply' in mst and mst['apply'] != 'ERR':
        if whole == 'ERR' or whole != mst['apply']:
            diffs.append(('pipe: pipeline function differs from its stages', mst['apply'], whole))
        gates = [op.gate for _, op in obs['original'].operations_with_cycles()]
        na = canon_tl(out_timelines(mst['apply'][0], gates, obs['model_n']))
        nb = canon_tl(timelines(obs['final']))
        if na != nb:
            diffs.append(('pipe: final circuit per-qudit timelines', na, nb))
    if 'connectivity' in mst and obs['log']:
        rout = [r for r in obs['log'] if r.modify]
        if rout and mst['connectivity'] != 'ERR' and mst['connectivity'] != rout[0].cg:
            diffs.append(('pipe: data.connectivity', mst['connectivity'], rout[0].cg))
    return diffs


# --------------------------------------------------------------------------
# property oracle on the implementation (independent of the model)
# --------------------------------------------------------------------------
def oracle(case, obs, rng):
    """returns list of (symptom, expected, observed).  Works for every pass sequence: the mappings
    are read against the CURRENT circuit (num_qudits wires), its wire w is physical qudit
    placement[w] (identity after ApplyPlacement)."""
    from bqskit.ir.gates import BarrierPlaceholder
    bad = []
    for a in obs.get('alias', []):
        bad.append(('aliasing', 'placement / initial_mapping / final_mapping are three independent lists', a))
    if obs['error'] is not None:
        return bad
    n, m_mach, radix = case['n'], case['m'], case['radix']
    final = obs['final']
    m = final.num_qudits                       # wires of the current circuit
    last = obs['stages'][-1][1]
    im, fm, plc_now = last['imap'], last['fmap'], last['placement']
    toks = obs['toks']
    names = [nm for nm, _ in obs['stages']]
    # is the circuit expected to respect the coupling?  yes iff a routing ran after the last
    # change of model / placement / layout
    idx_rt = max([i for i, t in enumerate(toks) if t == 'RT'], default=-1)
    idx_chg = max([i for i, t in enumerate(toks) if t[:2] in ('SM', 'DM') or t in ('PL', 'LAY')], default=-1)
    routed = idx_rt > idx_chg
    edges = {tuple(sorted(e)) for e in (obs.get('routing_edges') or obs['edges_final'])}
    # 1. coupling (physical qudit of wire w = placement[w])
    if routed:
        for cyc, op in final.operations_with_cycles():
            if isinstance(op.gate, BarrierPlaceholder) or op.num_qudits == 1 or is_free(op):
                continue
            try:
                loc = [plc_now[q] for q in op.location]
            except IndexError:
                bad.append(('placement', 'placement covers every wire of the circuit', plc_now))
                break
            if op.num_qudits == 2:
                if tuple(sorted(loc)) not in edges:
                    bad.append(('uncoupled', 'edge of the machine', '%s at cycle %d (physical %s)' % (op, cyc, loc)))
            elif not connected(m_mach, edges, loc):
                bad.append(('uncoupled', 'connected induced subgraph', '%s at cycle %d (physical %s)' % (op, cyc, loc)))
    bad += placement_oracle(case, obs)
    # 2. mappings
    for name, mp_ in (('initial_mapping', im), ('final_mapping', fm)):
        if len(mp_) != n or len(set(mp_)) != n or not all(0 <= x < m for x in mp_):
            bad.append(('mapping', '%s injective into range(%d), length %d' % (name, m, n), mp_))
    # 3. placement connected (the placement in force during the last routing)
    if 'routing_placement' in obs:
        plc = obs['routing_placement']
        if len(set(plc)) != len(plc) or not all(0 <= x < m_mach for x in plc) or not connected(m_mach, edges, plc):
            bad.append(('placement', 'connected duplicate-free set of physical qudits', plc))
    # 4. only swaps added
    def counts(c):
        d = {}
        for op in c:
            k = gname(op.gate)
            d[k] = d.get(k, 0) + 1
        return d
    ci, co = counts(obs['original']), counts(final)
    for k in set(ci) | set(co):
        if k == 'SWAP':
            if co.get(k, 0) < ci.get(k, 0):
                bad.append(('gates', 'no input swap removed', (k, ci.get(k, 0), co.get(k, 0))))
        elif ci.get(k, 0) != co.get(k, 0):
            bad.append(('gates', 'same multiset of non-swap gates', (k, ci.get(k, 0), co.get(k, 0))))
    if any(b[0] == 'mapping' for b in bad):
        return bad
    # 5. exact action on embedded basis states
    if radix ** n <= 64:
        states = [list(s) for s in itertools.product(range(radix), repeat=n)]
    else:
        states = [[0] * n, [radix - 1] * n] + [[(1 if i == j else 0) for i in range(n)] for j in range(n)]
        states += [[rng.randrange(radix) for _ in range(n)] for _ in range(40)]
    try:
        ref = simulate(circuit_ops(obs['original']), [radix] * n, states)
        emb = []
        for s in states:
            p = [0] * m
            for l in range(n):
                p[im[l]] = s[l]
            emb.append(p)
        got = simulate(circuit_ops(final), [radix] * m, emb)
    except ValueError as e:
        bad.append(('oracle', 'monomial circuit', str(e)))
        return bad
    for s, (ph, y), (ph2, z) in zip(states, ref, got):
        exp = [0] * m
        for l in range(n):
            exp[fm[l]] = y[l]
        if ph != ph2 or exp != z:
            bad.append(('semantics', dict(input=s, logical_output=y, phase=ph, physical_expected=exp),
                        dict(physical_output=z, phase=ph2, initial_mapping=im, final_mapping=fm)))
            break
    return bad



def placement_oracle(case, obs):
    """what C09_trivial/greedy/static_placement, C09_checked_placement_connected and C09_apply_placement say,
    re-computed independently on the implementation's PassData before / after every placement pass and every
    ApplyPlacement (textbook connectivity by BFS; no model involved)"""
    bad = []
    n = case['n']
    infos = dict(obs['infos'])
    force = obs.get('force', {})
    for name, after in obs['stages']:
        info = infos[name]
        before = info['before']
        if name.startswith('placement'):
            es = force.get(name)
            if es is None:
                continue
            m_mach = case['m']
            edges = {tuple(sorted(e)) for e in es}
            plc, pl = after['placement'], case['placer']
            if after['imap'] != before['imap'] or after['fmap'] != before['fmap']:
                bad.append(('placement', 'a placement pass leaves the mappings alone', (before, after)))
            if pl == 'S' and plc == before['placement']:
                continue                      # search result rejected (or equal): PassData untouched
            ok = len(plc) == n and len(set(plc)) == n and all(0 <= x < m_mach for x in plc)
            if pl in 'GT':
                ok = ok and connected(m_mach, edges, plc)
            if not ok:
                bad.append(('placement', 'placement pass publishes %d distinct machine qudits%s' % (
                    n, ' inducing a connected subgraph' if pl in 'GT' else ''), plc))
                continue
            if pl == 'T' and plc != list(range(n)):
                bad.append(('placement', 'trivial placement = range(n)', plc))
            if pl == 'G':
                deg = [0] * m_mach
                for a, b in edges:
                    deg[a] += 1
                    deg[b] += 1
                if plc != sorted(plc) or deg.index(max(deg)) not in plc:
                    bad.append(('placement', 'greedy placement: ascending and containing the first qudit of maximal degree %d'
                                % deg.index(max(deg)), plc))
            if pl == 'S':
                led = obs.get('static', {}).get('ledges', [])
                miss = [e for e in led if tuple(sorted((plc[e[0]], plc[e[1]]))) not in edges]
                if miss:
                    bad.append(('placement', 'static placement maps every circuit edge onto a machine edge', (plc, miss)))
        elif name.startswith('apply'):
            pl = before['placement']
            try:
                exp = dict(imap=[pl[x] for x in before['imap']], fmap=[pl[x] for x in before['fmap']],
                           placement=list(range(case['m'])))
            except IndexError:
                bad.append(('mapping', 'mappings index the placement', before))
                continue
            if exp != dict(imap=after['imap'], fmap=after['fmap'], placement=after['placement']):
                bad.append(('mapping', 'ApplyPlacement: mappings composed with the placement, placement reset: %s' % exp, after))
            tl = info.get('tl_after')
            cb = info.get('circ_before')
            if tl is not None and cb is not None:
                want = [[] for _ in range(len(tl))]
                try:
                    for op in cb:
                        loc = tuple(pl[q] for q in op.location)
                        for q in loc:
                            want[q].append((gname(op.gate), loc))
                except IndexError:
                    bad.append(('placement', 'placement covers every wire of the circuit', pl))
                    continue
                if canon_tl(want) != canon_tl(tl):
                    bad.append(('placement', 'ApplyPlacement: every operation moved to placement[location]',
                                dict(placement=pl)))
    return bad


# --------------------------------------------------------------------------
# PAM (permutation-aware mapping): exact pre-synthesised triples, recording,
# model queries, oracle
# --------------------------------------------------------------------------
def conn_graphs(k):
    return [[]] if k == 1 else list(all_connected_graphs(k))


def swap_seq(k, edges, goal):
    """BFS over arrangements: swaps along `edges` turning the identity arrangement into `goal`
    (arr[w] = token on wire w)"""
    start, goal = tuple(range(k)), tuple(goal)
    prev = {start: None}
    q = [start]
    while q:
        a = q.pop(0)
        if a == goal:
            break
        for (x, y) in edges:
            b = list(a)
            b[x], b[y] = b[y], b[x]
            b = tuple(b)
            if b not in prev:
                prev[b] = (a, (x, y))
                q.append(b)
    seq, a = [], goal
    while prev[a] is not None:
        a, e = prev[a]
        seq.append(e)
    return list(reversed(seq))


def path_between(k, edges, a, b):
    adj = {i: [] for i in range(k)}
    for x, y in edges:
        adj[x].append(y)
        adj[y].append(x)
    prev = {a: None}
    q = [a]
    while q:
        x = q.pop(0)
        for y in adj[x]:
            if y not in prev:
                prev[y] = x
                q.append(y)
    p = [b]
    while prev[p[-1]] is not None:
        p.append(prev[p[-1]])
    return list(reversed(p))


def build_triple(k, radix, inner, edges, pre, post, pad=0):
    """A circuit on k wires whose two-qudit gates lie on `edges` and whose unitary is EXACTLY
    Po^T . U . Pi  (the contract of EmbedAllPermutationsPass; Pi / Po =
    PermutationMatrix.from_qudit_location(k, radix, pre / post)): wire pre[j] is U's input j,
    U's output j leaves on wire post[j]."""
    from bqskit.ir.circuit import Circuit
    sw = gate_of('SWAP') if radix == 2 else gate_of('SWAP3')
    c = Circuit(k, [radix] * k)
    es = [tuple(e) for e in edges]
    eset = {tuple(sorted(e)) for e in es}
    for e in swap_seq(k, es, pre):
        c.append_gate(sw, e)
    for tok, loc in inner:
        g = gate_of(tok)
        if len(loc) == 2 and tuple(sorted(loc)) not in eset:
            p = path_between(k, es, loc[0], loc[1])
            moves = [(p[i], p[i + 1]) for i in range(len(p) - 2)]
            for e in moves:
                c.append_gate(sw, e)
            c.append_gate(g, (p[-2], loc[1]))
            for e in reversed(moves):
                c.append_gate(sw, e)
        else:
            c.append_gate(g, loc)
    # padding: pairs of CX on an edge (CX.CX = identity) - more multi-qudit gates, same unitary
    if pad and es and radix == 2:
        for _ in range(pad):
            c.append_gate(gate_of('CX'), es[0])
            c.append_gate(gate_of('CX'), es[0])
    inv = [0] * k
    for j, w in enumerate(post):
        inv[w] = j
    for e in swap_seq(k, es, inv):
        c.append_gate(sw, e)
    return c


def make_perm_data(case, circuit, prng):
    """data[ForEachBlockPass.key][-1]: one dict(point, permutation_data) per block"""
    from bqskit.ir.gates import BarrierPlaceholder
    from bqskit.ir.point import CircuitPoint
    from bqskit.qis.graph import CouplingGraph
    radix = case['radix']
    inner_of = {}
    for o in case['ops']:
        if o[0] == 'BLOCK':
            inner_of[json.dumps(o[2])] = o[2]
    datas = []
    for cyc, op in circuit.operations_with_cycles():
        if isinstance(op.gate, BarrierPlaceholder):
            continue
        k = op.num_qudits
        inner = [[tok_of(o.gate), list(o.location)] for o in op.gate._circuit]
        perms = list(itertools.permutations(range(k)))
        ident = tuple(range(k))
        mode = case['mode']
        best = None
        if mode == 'cycle3' and k == 3:
            # hand-built table: a 3-cycle PRE permutation is strictly the cheapest entry (all others padded)
            cyc3 = prng.choice([(1, 2, 0), (2, 0, 1)])
            inv_c = (2, 0, 1) if cyc3 == (1, 2, 0) else (1, 2, 0)
            posts = [ident, prng.choice(perms)]
            pairs = [(a, b) for a in (ident, cyc3, inv_c, prng.choice(perms)) for b in posts]
            pairs = list(dict.fromkeys(pairs))
            best = (cyc3, posts[0])
        elif mode == 'cycle3':
            pairs = [(a, ident) for a in perms]
        elif mode == 'both':
            pairs = [(a, b) for a in perms for b in perms]
            if len(pairs) > 10:
                pairs = [(ident, ident)] + prng.sample(pairs, 9)
        elif mode == 'out':
            pairs = [(ident, b) for b in perms]
        elif mode == 'in':
            pairs = [(a, ident) for a in perms]
        else:
            pairs = [(ident, ident)]
        pd = {}
        for es in conn_graphs(k):
            g = CouplingGraph([tuple(e) for e in es], k)
            pd[g] = {}
            for pre, post in pairs:
                pad = 0 if best is None or (pre, post) == best else 8
                pd[g][(pre, post)] = build_triple(k, radix, inner, es, pre, post, pad)
        datas.append({'point': CircuitPoint(cyc, op.location[0]), 'permutation_data': pd})
    return datas


_TOK_CACHE = {}


def tok_of(g):
    key = (type(g).__name__, g.radixes)
    if key not in _TOK_CACHE:
        for t in G1 + G2 + G3 + Q1 + Q2:
            h = gate_of(t)
            if type(h) is type(g) and h.radixes == g.radixes:
                _TOK_CACHE[key] = t
                break
        else:
            raise ValueError('no token for %s' % g)
    return _TOK_CACHE[key]


def recording_pam(cls, log, adversary=None, score_adv=None):
    """recording subclass of PAMLayoutPass / PAMRoutingPass"""
    R = recording(cls, log, adversary)

    class RP(R):
        def forward_pass(self, circuit, pi, cg, perm_data, modify_circuit=False):
            rec = PassRec('pfwd', circuit, pi, cg, modify_circuit)
            rec.perm_data = perm_data
            log.append(rec)
            self._rec = rec
            with patch_circuit(rec, circuit):
                r = cls.forward_pass(self, CircuitProxy(circuit, rec, 'front'), pi, cg, perm_data, modify_circuit)
            rec.snap()
            rec.pi_end = list(pi)
            self._rec = None
            return r

        def _get_best_perm(self, circuit, perm_data, cg, F, pi, D, E, qudits):
            t = super()._get_best_perm(circuit, perm_data, cg, F, pi, D, E, qudits)
            rec = getattr(self, '_rec', None)
            if rec is not None:
                qs = list(qudits)
                # what was applied to pi, read as the code documents it: t[0] = inverse global pre, t[2] = global post
                ilperm = [qs.index(x) for x in t[0]]
                pre = [ilperm.index(i) for i in range(len(qs))]
                post = [qs.index(x) for x in t[2]]
                # which table entry the returned circuit is (by object identity): the step handed to the model
                # names the TABLE's (pre, post); the model applies pre to pi in the direction of the code
                # (inverse of the table's input permutation), so a flipped direction makes the replay disagree
                key = None
                for g, entries in perm_data.items():
                    for (a, b), cc in entries.items():
                        if cc is t[1]:
                            key = (list(a), list(b))
                if key is None:
                    rec.problems.append('chosen circuit is not an entry of perm_data for block on %s' % qs)
                    key = (pre, post)
                elif key != (pre, post):
                    rec.problems.append('block on %s: table entry (pre, post) = %s but the permutations applied to pi '
                                        'correspond to %s' % (qs, key, (pre, post)))
                for st in reversed(rec.steps):
                    if st[0] == 'P' and st[2] is None and list(rec.ops[st[1]].location) == qs:
                        st[2], st[3] = key
                        break
                else:
                    rec.problems.append('no pending block for chosen triple on %s' % qs)
            return t

        def _score_perm(self, circuit, F, pi, D, perm, E):
            if score_adv is not None:
                return score_adv()
            return super()._score_perm(circuit, F, pi, D, perm, E)
    RP.__name__ = 'RecPam' + cls.__name__
    return RP


def run_pam(case):
    """[SetModel, placement?, (ApplyPlacement)?, <embed exact perm data>, PAMLayout?, PAMRouting, ApplyPlacement]"""
    from bqskit.ir.circuit import Circuit
    from bqskit.qis.graph import CouplingGraph
    from bqskit.compiler.machine import MachineModel
    from bqskit.compiler.passdata import PassData
    from bqskit.passes.control.foreach import ForEachBlockPass
    from bqskit.passes.mapping import (SetModelPass, GreedyPlacementPass, TrivialPlacementPass, ApplyPlacement,
                                       PAMLayoutPass, PAMRoutingPass)
    n, radix, m = case['n'], case['radix'], case['m']
    circuit = build_circuit(n, radix, case['ops'])
    original = circuit.copy()
    cgm = CouplingGraph([tuple(e) for e in case['edges']], m)
    model = MachineModel(m, cgm, radixes=[radix] * m)
    _gu = Circuit.get_unitary

    def _no_unitary(self, *a, **k):
        raise RuntimeError('target not needed')
    Circuit.get_unitary = _no_unitary
    try:
        data = PassData(circuit)
    finally:
        Circuit.get_unitary = _gu
    log: list[PassRec] = []
    prm = case['params']
    kw = dict(decay_delta=prm['decay_delta'], decay_reset_interval=prm['decay_reset_interval'],
              decay_reset_on_gate=prm['decay_reset_on_gate'], extended_set_size=prm['extended_set_size'],
              extended_set_weight=prm['extended_set_weight'])
    adversary = score_adv = None
    if prm.get('adversary'):
        arng = random.Random(prm['adversary'])
        pa = prm.get('adv_p', 1.0)

        def adversary(cands):
            if not cands or arng.random() > pa:
                return None
            return arng.choice(cands)
        if prm.get('adv_perm'):
            def score_adv():
                return arng.random()
    prng = random.Random(case.get('perm_seed', 0))
    madj = [[int(x) for x in cgm.get_neighbors_of(q)] for q in range(m)]
    class DirectModel:
        def __init__(self, mdl):
            self.mdl = mdl

        async def run(self, circuit, data):
            data.model = self.mdl
    passes = [('directmodel', DirectModel(model))] if case.get('direct_model') else [('setmodel', SetModelPass(model))]
    if case.get('direct_model'):
        pass
    elif case['placer'] == 'G':
        passes.append(('placement', GreedyPlacementPass()))
    elif case['placer'] == 'T':
        passes.append(('placement', TrivialPlacementPass()))
    if case['seq'] == 'B':
        passes.append(('apply0', ApplyPlacement()))
    passes.append(('embed', None))
    if case['layout_passes']:
        passes.append(('playout', recording_pam(PAMLayoutPass, log, adversary, score_adv)(case['layout_passes'], case['gcw'], **kw)))
    passes.append(('prouting', recording_pam(PAMRoutingPass, log, adversary, score_adv)(case['gcw'], **kw)))
    passes.append(('apply', ApplyPlacement()))
    obs = dict(stages=[], infos=[], error=None, kind='pam', mach_adj=madj, edges_final=case['edges'])
    obs['alias'] = alias_probe(data, 'PassData(circuit)', deep=True)

    def snap():
        return dict(placement=list(data.placement), imap=list(data.initial_mapping), fmap=list(data.final_mapping))

    async def go():
        for name, p in passes:
            info = dict(before=snap(), nlog=len(log), mach=madj)
            if name in ('prouting', 'apply', 'apply0', 'playout'):
                info['circ_before'] = [op for _, op in circuit.operations_with_cycles()]
                info['points_before'] = [(cyc, op.location[0]) for cyc, op in circuit.operations_with_cycles()]
                info['nq_before'] = circuit.num_qudits
            try:
                if name == 'embed':
                    obs['perm_data'] = make_perm_data(case, circuit, prng)
                    data[ForEachBlockPass.key] = [obs['perm_data']]
                    continue
                await p.run(circuit, data)
            except StepBudget as e:
                obs['error'] = (name, 'StepBudget', str(e))
                obs['error_info'] = info
                obs['budget'] = str(e)
                return
            except Exception as e:  # noqa
                obs['error'] = (name, type(e).__name__, str(e)[:200])
                obs['error_info'] = info
                return
            info['log'] = log[info['nlog']:]
            obs['alias'] += alias_probe(data, name)
            if name in ('prouting', 'apply', 'apply0'):
                info['tl_after'] = timelines(circuit)
            obs['stages'].append((name, snap()))
            obs['infos'].append((name, info))
    asyncio.run(go())
    obs['alias'] += alias_probe(data, 'end of pipeline', deep=True)
    obs['log'] = log
    obs['original'] = original
    obs['final'] = circuit
    obs['model_n'] = m
    return obs


def pam_table(ops, points, perm_datas):
    """per operation: [[edges, pre, post], ...] of the triples available in perm_data"""
    by_point = {(d['point'][0], d['point'][1]): d['permutation_data'] for d in perm_datas}
    tbl, reg = [], {}
    for i, (op, pt) in enumerate(zip(ops, points)):
        row = []
        pd = by_point.get(pt)
        if pd is not None and type(op.gate).__name__ != 'BarrierPlaceholder':
            for g, entries in pd.items():
                es = sorted([min(a, b), max(a, b)] for a, b in g)
                for (pre, post), circ in entries.items():
                    row.append([es, list(pre), list(post)])
                    reg[(i, tuple(map(tuple, es)), tuple(pre), tuple(post))] = circ
        tbl.append(row)
    return tbl, reg


def pam_pass_line(rec, obs):
    pts = [None] * len(rec.ops)
    for p, i in rec.points.items():
        pts[i] = p
    tbl, reg = pam_table(rec.ops, pts, obs['perm_data'])
    rec.reg = reg
    bars = [1 if type(op.gate).__name__ == 'BarrierPlaceholder' else 0 for op in rec.ops]
    # a pass that raised inside _get_best_perm leaves blocks that were removed from F but never
    # given a triple: replay only the completed prefix
    cut = next((i for i, s in enumerate(rec.steps) if s[0] == 'P' and s[2] is None), None)
    rec.incomplete = cut is not None or rec.pi_end is None
    steps = [list(s) for s in (rec.steps if cut is None else rec.steps[:cut])]
    return 'ppass %s %s %s %s %d %d %s %s' % (fmt(rec.cg), fmt(circ_tokens(rec.ops)), fmt(bars), fmt(tbl), rec.nq,
                                             1 if rec.modify else 0, fmt(rec.pi0), fmt(steps)), (bars, tbl, steps)


def pam_model_lines(case, obs):
    lines = []
    for rec in obs['log']:
        if rec.kind == 'pfwd':
            line, rec.pam_args = pam_pass_line(rec, obs)
            lines.append(line)
        else:
            lines.append('pass %s %s %d %d %d %s %s' % (
                fmt(rec.cg), fmt(circ_tokens(rec.ops)), rec.nq, 0, 0, fmt(rec.pi0), fmt(rec.steps)))
    stage_infos = list(obs['infos'])
    if obs['error'] is not None and obs['error'][0] != 'embed':
        stage_infos.append((obs['error'][0], obs['error_info']))
    stage_infos = [(nm, inf) for nm, inf in stage_infos if nm != 'directmodel']
    obs['stage_infos'] = stage_infos
    for name, info in stage_infos:
        g, pdb = fmt(info['mach']), pd_tok(info['before'])
        if name == 'setmodel':
            lines.append('sm %s %d %s' % (g, case['n'], pdb))
        elif name == 'placement':
            lines.append('plc %s %s %d %s' % (g, pdb, case['n'], case['placer']))
        elif name in ('apply', 'apply0'):
            out = [['G', i, list(op.location)] for i, op in enumerate(info['circ_before'])]
            lines.append('ap %s %s %s' % (g, pdb, fmt(out)))
        elif name in ('playout', 'prouting'):
            recs = info.get('log', obs['log'][info['nlog']:])
            ops = info['circ_before']
            tbl, _ = pam_table(ops, info['points_before'], obs['perm_data'])
            bars = [1 if type(op.gate).__name__ == 'BarrierPlaceholder' else 0 for op in ops]

            def psteps(r):
                cut = next((i for i, s in enumerate(r.steps) if s[0] == 'P' and s[2] is None), None)
                return [list(s) for s in (r.steps if cut is None else r.steps[:cut])]
            if name == 'playout':
                pairs = []
                for i in range(0, len(recs) - 1, 2):
                    pairs.append([psteps(recs[i]), recs[i + 1].steps])
                if len(recs) % 2:
                    pairs.append([psteps(recs[-1]), []])
                lines.append('play %s %s %s %s %s %d %s' % (g, pdb, fmt(circ_tokens(ops)), fmt(bars), fmt(tbl),
                                                           info['nq_before'], fmt(pairs)))
            else:
                lines.append('prt %s %s %s %s %s %d %s' % (g, pdb, fmt(circ_tokens(ops)), fmt(bars), fmt(tbl),
                                                          info['nq_before'], fmt(psteps(recs[0]) if recs else [])))
    pl = pam_pipe_line(case, obs)
    if pl is not None:
        obs['ppipe_idx'] = len(lines)
        lines.append(pl)
    return lines


def pam_pipe_line(case, obs):
    """the whole standard PAM workflow [SetModel, placement?, PAMLayout?, PAMRouting, ApplyPlacement] as ONE
    call of the function of C09_pam_mappings / C09_pam_mappings_same_unitary (PamPipe.pam_pipeline)"""
    if obs['error'] is not None or case.get('direct_model') or case['seq'] != 'A':
        return None
    infos = dict(obs['infos'])
    rt = infos['prouting']
    ops = rt['circ_before']
    if 'playout' in infos and [gname(o.gate) for o in infos['playout']['circ_before']] != [gname(o.gate) for o in ops]:
        return None          # cannot happen: the layout pass does not touch the circuit (checked by the stage run)
    tbl, reg = pam_table(ops, rt['points_before'], obs['perm_data'])
    bars = [1 if type(op.gate).__name__ == 'BarrierPlaceholder' else 0 for op in ops]
    if 'playout' in infos:
        recs = infos['playout']['log']
        pairs = [[[list(x) for x in recs[i].steps], recs[i + 1].steps] for i in range(0, len(recs) - 1, 2)]
        if len(recs) % 2:
            return None
        ltr = fmt(pairs)
    else:
        ltr = 'N'
    rrecs = rt['log']
    if len(rrecs) != 1:
        return None
    obs['ppipe_reg'] = reg
    obs['ppipe_ops'] = ops
    return 'ppipe %s %s %s %s %d %s %s %s' % (fmt(obs['mach_adj']), fmt(circ_tokens(ops)), fmt(bars), fmt(tbl), case['n'],
                                              case['placer'], ltr, fmt([list(x) for x in rrecs[0].steps]))


def compare_ppipe(case, obs, ans):
    if isinstance(ans, str):
        return [('pam pipeline: PamPipe.pam_pipeline fails, the implementation completed', dict(obs['stages'])['apply'], ans)]
    diffs = []
    out, pd = ans
    iv = dict(obs['stages'])['apply']
    exp = [iv['placement'], iv['imap'], iv['fmap']]
    if pd != exp:
        diffs.append(('pam pipeline: PassData (placement, initial_mapping, final_mapping) after ApplyPlacement', pd, exp))
    info = dict(obs['infos'])['apply']
    na = canon_tl(pout_timelines(out, obs['ppipe_ops'], obs['ppipe_reg'], len(info['tl_after'])))
    if na != canon_tl(info['tl_after']):
        diffs.append(('pam pipeline: final circuit per-qudit timelines', na, canon_tl(info['tl_after'])))
    # the second clause of C09_pam_mappings_same_unitary evaluated on the implementation's own numbers:
    # final_mapping = initial_mapping pushed through the wire maps of the final circuit
    walked = pwalk_py(iv['imap'], out)
    if walked != iv['fmap']:
        diffs.append(('pam pipeline: final_mapping = initial_mapping pushed through the final circuit', walked, iv['fmap']))
    return diffs


def pwalk_py(sigma, pout):
    """independent re-computation of PamSem.pwalk on python lists"""
    sigma = list(sigma)
    for o in pout:
        if o[0] == 'G':
            L, pre, post = o[2], o[3], o[4]
            ipre = [pre.index(j) for j in range(len(pre))]
            for r in (ipre, post):
                mv = {L[j]: L[r[j]] for j in range(len(L))}
                sigma = [mv.get(x, x) for x in sigma]
        elif o[0] == 'S':
            a, b = o[1], o[2]
            sigma = [b if x == a else a if x == b else x for x in sigma]
    return sigma


def pout_timelines(pout, rec_or_ops, reg, nq):
    """model PAM out -> per-qudit timelines with comparable gate tokens"""
    from bqskit.ir.gates import CircuitGate
    ops = rec_or_ops
    tl = [[] for _ in range(nq)]
    for o in pout:
        if o[0] == 'G':
            key = (o[1], tuple(tuple(e) for e in o[5]), tuple(o[3]), tuple(o[4]))
            circ = reg.get(key)
            g = gname(CircuitGate(circ)) if circ is not None else 'UNKNOWN-TRIPLE%s' % (key,)
            loc = tuple(o[2])
        elif o[0] == 'B':
            g, loc = gname(ops[o[1]].gate), tuple(o[2])
        else:
            g, loc = 'SWAP', (o[1], o[2])
        for q in loc:
            tl[q].append((g, loc))
    return tl


def compare_ppass(rec, ans, where):
    diffs = []
    if isinstance(ans, str):
        return [(where + ': model raised', ans, 'pass completed')]
    status, pi, fs, out, stricts = ans
    if status != 'OK':
        k = status[1]
        return [(where + ': step %d %s not enabled in the model' % (k, rec.steps[k]), 'enabled', status)]
    if rec.problems:
        diffs.append(('recorder', 'consistent events', rec.problems))
    if getattr(rec, 'incomplete', False):
        # the implementation raised inside this pass: only the enabledness of the prefix is compared
        return [(where + ': ' + w, e, o) for w, e, o in diffs]
    if pi != rec.pi_end:
        diffs.append(('pi at the end of the pass', pi, rec.pi_end))
    if fs != rec.fs:
        k = next((i for i, (a, b) in enumerate(zip(fs, rec.fs)) if a != b), min(len(fs), len(rec.fs)))
        diffs.append(('front set after step %d' % k, fs[k] if k < len(fs) else None, rec.fs[k] if k < len(rec.fs) else None))
    if rec.fs and rec.fs[-1] != []:
        diffs.append(('pass ended with a non-empty front set', [], rec.fs[-1]))
    if not all(x == 'T' for x in stricts):
        k = stricts.index('F')
        diffs.append(('control flow guard of step %d %s' % (k, rec.steps[k]), 'T', 'F'))
    if rec.modify and rec.mapped is not None:
        na = canon_tl(pout_timelines(out, rec.ops, rec.reg, rec.nq))
        nb = canon_tl(rec.mapped)
        if na != nb:
            diffs.append(('mapped circuit per-qudit timelines', na, nb))
    return [(where + ': ' + w, e, o) for w, e, o in diffs]


def compare_pam_stages(case, obs, answers):
    diffs = []
    ist = dict(obs['stages'])
    for (name, info), ans in zip(obs['stage_infos'], answers):
        failed = obs['error'] is not None and obs['error'][0] == name
        if isinstance(ans, str) and ans != 'ERR':
            diffs.append(('stage %s: model raised' % name, ans, 'n/a'))
            continue
        if failed:
            if ans != 'ERR':
                diffs.append(('stage %s raised %s in the implementation' % (name, obs['error'][1]), 'ERR', ans))
            continue
        if ans == 'ERR':
            diffs.append(('stage %s: model fails, implementation does not' % name, 'ERR', ist[name]))
            continue
        iv = ist[name]
        exp = [iv['placement'], iv['imap'], iv['fmap']]
        if name in ('apply', 'apply0'):
            out, pd = ans
            gates = [op.gate for op in info['circ_before']]
            na = canon_tl(out_timelines(out, gates, len(info['tl_after'])))
            if na != canon_tl(info['tl_after']):
                diffs.append(('stage %s: circuit per-qudit timelines' % name, na, canon_tl(info['tl_after'])))
        elif name == 'prouting':
            out, pd = ans
            _, reg = pam_table(info['circ_before'], info['points_before'], obs['perm_data'])
            na = canon_tl(pout_timelines(out, info['circ_before'], reg, len(info['tl_after'])))
            if na != canon_tl(info['tl_after']):
                diffs.append(('stage %s: circuit per-qudit timelines' % name, na, canon_tl(info['tl_after'])))
        else:
            pd = ans
        if pd != exp:
            diffs.append(('stage %s: PassData (placement, initial_mapping, final_mapping)' % name, pd, exp))
    return diffs


def flatten_blocks(circuit):
    """operations with CircuitGate blocks unfolded (for the coupling and semantic oracle)"""
    from bqskit.ir.gates import BarrierPlaceholder, CircuitGate
    flat = []
    for cyc, op in circuit.operations_with_cycles():
        if isinstance(op.gate, BarrierPlaceholder):
            continue
        if isinstance(op.gate, CircuitGate):
            for o in op.gate._circuit:
                flat.append((o.gate, tuple(op.location[q] for q in o.location)))
        else:
            flat.append((op.gate, tuple(op.location)))
    return flat


def pam_oracle(case, obs, rng):
    """property oracle for the PAM pipelines, independent of the model: blocks are unfolded; the
    inner two-qudit gates must lie on machine edges, mappings injective, exact action on basis states"""
    bad = []
    for a in obs.get('alias', []):
        bad.append(('aliasing', 'placement / initial_mapping / final_mapping are three independent lists', a))
    if obs['error'] is not None:
        return bad
    n, m, radix = case['n'], case['m'], case['radix']
    edges = {tuple(sorted(e)) for e in case['edges']}
    st = dict(obs['stages'])
    im, fm = st['apply']['imap'], st['apply']['fmap']
    flat = flatten_blocks(obs['final'])
    for g, loc in flat:
        if len(loc) == 2 and tuple(sorted(loc)) not in edges:
            bad.append(('uncoupled', 'edge of the machine', (str(g), loc)))
        elif len(loc) >= 3 and not connected(m, edges, loc):
            bad.append(('uncoupled', 'connected induced subgraph', (str(g), loc)))
    for name, mp_ in (('initial_mapping', im), ('final_mapping', fm)):
        if len(mp_) < n or len(set(mp_)) != len(mp_) or not all(0 <= x < m for x in mp_):
            bad.append(('mapping', '%s injective into range(%d)' % (name, m), mp_))
    plc = st['prouting']['placement']
    if len(set(plc)) != len(plc) or not all(0 <= x < m for x in plc) or not connected(m, edges, plc):
        bad.append(('placement', 'connected duplicate-free set of physical qudits', plc))
    # only swaps or permuted versions of the input's own blocks: number of blocks / barriers preserved
    def kinds(c):
        d = {}
        for op in c:
            k = 'BAR' if type(op.gate).__name__ == 'BarrierPlaceholder' else ('SWAP' if type(op.gate).__name__ == 'SwapGate' else 'BLOCK%d' % op.num_qudits)
            d[k] = d.get(k, 0) + 1
        return d
    ki, ko = kinds(obs['original']), kinds(obs['final'])
    for k in set(ki) | set(ko):
        if k != 'SWAP' and ki.get(k, 0) != ko.get(k, 0):
            bad.append(('gates', 'same number of %s' % k, (ki.get(k, 0), ko.get(k, 0))))
    if any(b[0] != 'aliasing' for b in bad):
        return bad
    if radix ** n <= 64:
        states = [list(x) for x in itertools.product(range(radix), repeat=n)]
    else:
        states = [[0] * n, [radix - 1] * n] + [[(1 if i == j else 0) for i in range(n)] for j in range(n)]
        states += [[rng.randrange(radix) for _ in range(n)] for _ in range(40)]
    try:
        ref = simulate(flatten_blocks(obs['original']), [radix] * n, states)
        emb = []
        for x in states:
            p = [0] * m
            for l in range(n):
                p[im[l]] = x[l]
            emb.append(p)
        got = simulate(flat, [radix] * m, emb)
    except ValueError as e:
        return [('oracle', 'monomial circuit', str(e))]
    for x, (ph, y), (ph2, z) in zip(states, ref, got):
        exp = [0] * m
        for l in range(n):
            exp[fm[l]] = y[l]
        if ph != ph2 or exp != z:
            bad.append(('semantics', dict(input=x, logical_output=y, phase=ph, physical_expected=exp),
                        dict(physical_output=z, phase=ph2, initial_mapping=im, final_mapping=fm)))
            break
    return bad


def gen_pam_case(rng):
    m = rng.randint(3, 7)
    n = rng.randint(2, min(6, m))
    edges = prefix_connected_graph(rng, m, n, rng.choice([0, 0.1, 0.3]))
    blocks = []
    for _ in range(rng.randint(1, 8)):
        if rng.random() < 0.08:
            blocks.append(['BAR', sorted(rng.sample(range(n), rng.randint(1, n)))])
            continue
        k = min(n, rng.choice([1, 2, 2, 3, 3]))
        loc = sorted(rng.sample(range(n), k))
        inner = []
        only1 = k == 1 or rng.random() < 0.04        # multi-qudit blocks of single-qudit gates: rare
        for j in range(rng.randint(1, 4)):
            if only1 or (j > 0 and rng.random() < 0.3):
                inner.append([rng.choice(G1), [rng.randrange(k)]])
            elif k == 3 and rng.random() < 0.2:
                inner.append(['CCX', rng.sample(range(3), 3)])
            else:
                inner.append([rng.choice(G2), rng.sample(range(k), 2)])
        blocks.append(['BLOCK', loc, inner])
    prm = rand_params(rng)
    prm['adv_perm'] = rng.random() < 0.5
    return dict(kind='pam', n=n, m=m, radix=2, edges=[list(e) for e in edges], ops=blocks,
                mode=rng.choice(['out', 'in', 'both', 'none']), seq=rng.choice(['A', 'B']),
                placer=rng.choice(['N', 'G', 'T']), layout_passes=rng.choice([0, 1, 2]),
                gcw=rng.choice([0.0, 0.1, 0.3, 2.0]), params=prm, perm_seed=rng.randrange(1 << 20), malformed=None,
                direct_model=rng.random() < 0.3)


def finish_pam(case, obs, lines, outs):
    res = dict(diffs=[], oracle=[], stats={}, error=obs['error'])
    if len(outs) != len(lines):
        res['diffs'].append(('driver', '%d answers' % len(lines), '%d answers' % len(outs)))
        return res

    def parse(a):
        return pv(a) if not a.startswith('EXN') and a != 'BADCMD' else a
    nlog = len(obs['log'])
    for i, rec in enumerate(obs['log']):
        if rec.kind == 'pfwd':
            res['diffs'] += compare_ppass(rec, parse(outs[i]), 'pam fwd pass #%d' % i)
        else:
            res['diffs'] += compare_pass(rec, parse(outs[i]), 'bwd pass #%d' % i)
    res['diffs'] += compare_pam_stages(case, obs, [parse(a) for a in outs[nlog:]])
    if obs.get('ppipe_idx') is not None:
        res['diffs'] += compare_ppipe(case, obs, parse(outs[obs['ppipe_idx']]))
        res['stats']['ppipe'] = 1
    res['oracle'] = pam_oracle(case, obs, random.Random(json.dumps(case, sort_keys=True)))
    st = res['stats']
    st['pam'] = 1
    st['steps'] = sum(len(r.steps) for r in obs['log'])
    for r in obs['log']:
        for x in r.steps:
            st[x[0]] = st.get(x[0], 0) + 1
            if x[0] == 'P' and x[2] is not None and (x[2] != sorted(x[2]) or x[3] != sorted(x[3])):
                st['P_nonid'] = st.get('P_nonid', 0) + 1
            if x[0] == 'P' and x[2] in ([1, 2, 0], [2, 0, 1]):
                st['P_pre_3cycle'] = st.get('P_pre_3cycle', 0) + 1
    st['passes'] = len(obs['log'])
    st['swaps_emitted'] = sum(1 for r in obs['log'] if r.modify for x in r.steps if x[0] in 'SU')
    if obs['error'] is None:
        stg = dict(obs['stages'])
        st['placement_nonid'] = stg['prouting']['placement'] != list(range(len(stg['prouting']['placement'])))
        st['fmap_ne_imap'] = stg['apply']['imap'] != stg['apply']['fmap']
    js = lambda x: json.loads(json.dumps(x, default=str))  # noqa
    res['diffs'] = [(w, js(e), js(o)) for w, e, o in res['diffs']]
    res['oracle'] = [(w, js(e), js(o)) for w, e, o in res['oracle']]
    return res


# --------------------------------------------------------------------------
# case generation
# --------------------------------------------------------------------------
def rand_params(rng):
    return dict(
        decay_delta=rng.choice([0.0, 0.001, 0.01, 0.3]),
        decay_reset_interval=rng.choice([1, 2, 5, 9]),
        decay_reset_on_gate=rng.random() < 0.6,
        extended_set_size=rng.choice([0, 1, 3, 20]),
        extended_set_weight=rng.choice([0.0, 0.5, 2.0]),
        adversary=(rng.randrange(1, 1 << 30) if rng.random() < 0.35 else 0),
        adv_p=rng.choice([0.3, 0.7, 1.0]),
    )


def make_case(rng, n, m, edges, radix=2, nops=None, placer=None, layout=None, malformed=None):
    nops = rng.randint(1, 14) if nops is None else nops
    case = dict(
        n=n, m=m, radix=radix, edges=[list(e) for e in edges],
        ops=gen_ops(rng, n, radix, nops),
        placer=placer if placer is not None else rng.choice(['G', 'G', 'T', 'S', 'N']),
        layout_passes=layout if layout is not None else rng.choice([0, 1, 1, 2, 3]),
        params=rand_params(rng),
        malformed=malformed,
    )
    return case


def gen_cases(ctx):
    rng = ctx.rng
    cases = []
    # exhaustive: every connected graph on <= 4 (quick) / 5 (thorough) vertices as the machine
    top = ctx.n(4, 5)
    for m in range(2, top + 1):
        for es in all_connected_graphs(m):
            reps = 1 if m < top or ctx.quick() else 1
            for _ in range(reps):
                n = rng.randint(2, m)
                cases.append(make_case(rng, n, m, es, nops=rng.randint(2, 10)))
            # the full-width circuit on this graph
            if m >= 3:
                cases.append(make_case(rng, m, m, es, nops=rng.randint(3, 12)))
    # random machines up to 10 qudits, circuits 2..8 qudits, machine often larger
    for _ in range(ctx.n(220, 4000)):
        m = rng.randint(3, 10)
        n = rng.randint(2, min(8, m))
        es = random_connected_graph(rng, m, rng.choice([0.0, 0.0, 0.1, 0.3]))
        radix = 3 if rng.random() < 0.12 else 2
        cases.append(make_case(rng, n, m, es, radix=radix, nops=rng.randint(1, 22)))
    # sparse graphs + adversarial choices: drives backtracking and uphill swaps
    for _ in range(ctx.n(60, 700)):
        m = rng.randint(4, 8)
        n = rng.randint(3, m)
        es = random_connected_graph(rng, m, 0.0)
        c = make_case(rng, n, m, es, nops=rng.randint(4, 16), layout=rng.choice([0, 1]))
        c['params']['adversary'] = rng.randrange(1, 1 << 30)
        c['params']['adv_p'] = 1.0
        cases.append(c)
    # double routing on two different machine graphs: final_mapping composed with a non-identity mapping
    for _ in range(ctx.n(50, 600)):
        m = rng.randint(3, 8)
        n = rng.randint(2, m)
        es = prefix_connected_graph(rng, m, n, rng.choice([0.0, 0.1]))
        c = make_case(rng, n, m, es, nops=rng.randint(3, 14), placer=rng.choice(['N', 'T', 'G']))
        c['variant'] = 'double'
        c['edges2'] = [list(e) for e in prefix_connected_graph(rng, m, n, rng.choice([0.0, 0.1]))]
        cases.append(c)
    # free pass sequences: model handed over through PassData (no SetModelPass / placement pass), layout twice,
    # layout-only, routing-only, re-routing after the model changed
    seqs = [['DM0', 'LAY', 'RT', 'AP'], ['DM0', 'LAY', 'RT', 'AP'], ['DM0', 'RT', 'AP'], ['DM0', 'LAY'], ['DM0', 'RT'],
            ['SM0', 'LAY'], ['SM0', 'RT'], ['SM0', 'PL', 'LAY', 'LAY', 'RT', 'AP'], ['DM0', 'LAY', 'LAY', 'RT', 'AP'],
            ['SM0', 'PL', 'LAY', 'RT', 'DM1', 'RT', 'AP'], ['DM0', 'LAY', 'RT', 'DM1', 'RT', 'AP'],
            ['DM0', 'LAY', 'RT', 'SM1', 'LAY', 'RT', 'AP'], ['DM0', 'LAY', 'RT', 'AP', 'LAY', 'RT', 'AP']]
    for _ in range(ctx.n(80, 900)):
        full = rng.random() < 0.6
        m = rng.randint(3, 7)
        n = m if full else rng.randint(2, m)
        es = prefix_connected_graph(rng, m, n, rng.choice([0.0, 0.0, 0.15]))
        c = make_case(rng, n, m, es, nops=rng.randint(3, 14), placer=rng.choice(['G', 'T']), layout=rng.choice([1, 1, 2]))
        c['variant'] = 'seq'
        c['seq'] = rng.choice(seqs)
        c['edges2'] = [list(e) for e in prefix_connected_graph(rng, m, n, rng.choice([0.0, 0.15]))]
        cases.append(c)
    # placement passes and ApplyPlacement alone, on larger random connected machines (the theorems
    # C09_trivial/greedy/static_placement, C09_checked_placement_connected, C09_apply_placement)
    for _ in range(ctx.n(60, 800)):
        m = rng.randint(4, 14)
        n = rng.randint(2, min(m, 8))
        es = random_connected_graph(rng, m, rng.choice([0.0, 0.05, 0.15, 0.4])) if rng.random() < 0.6 \
            else prefix_connected_graph(rng, m, n, rng.choice([0.0, 0.1]))
        c = make_case(rng, n, m, es, nops=rng.randint(2, 8), placer=rng.choice(['G', 'G', 'T', 'S', 'S']), layout=0)
        c['variant'] = 'seq'
        c['seq'] = rng.choice([['SM0', 'PL', 'AP'], ['SM0', 'PL', 'AP'], ['SM0', 'PL']])
        c['edges2'] = [list(e) for e in es]
        c['stream'] = 'placement'
        if c['placer'] == 'S' and rng.random() < 0.7:
            c['static_adv'] = rng.randrange(1, 1 << 30)
        cases.append(c)
    # permutation-aware mapping (PAM) with exact pre-synthesised triples
    for _ in range(ctx.n(90, 1500)):
        cases.append(gen_pam_case(rng))
    # directed: 3-qudit blocks whose cheapest table entry has a 3-cycle as PRE permutation (not an involution:
    # the direction in which _get_best_perm applies it to pi matters), gate count weight dominating
    for _ in range(ctx.n(40, 500)):
        c = gen_pam_case(rng)
        m = rng.randint(3, 6)
        n = rng.randint(3, m)
        c.update(n=n, m=m, edges=[list(e) for e in prefix_connected_graph(rng, m, n, rng.choice([0, 0.2, 0.6]))],
                 mode='cycle3', gcw=rng.choice([20.0, 50.0]), layout_passes=rng.choice([0, 1]))
        c['params']['adv_perm'] = False
        blocks = []
        for _b in range(rng.randint(1, 4)):
            loc = sorted(rng.sample(range(n), 3))
            inner = [[rng.choice(G2), rng.sample(range(3), 2)] for _g in range(rng.randint(1, 3))]
            if rng.random() < 0.3:
                inner.append([rng.choice(G1), [rng.randrange(3)]])
            blocks.append(['BLOCK', loc, inner])
        c['ops'] = blocks
        cases.append(c)
    # malformed stream: disconnected machine, machine too small
    for _ in range(ctx.n(45, 500)):
        kind = rng.choice(['disconnected', 'small', 'trivial_disconnected'])
        if kind == 'small':
            n = rng.randint(3, 6)
            m = rng.randint(2, n - 1)
            es = random_connected_graph(rng, m, 0.2)
            cases.append(make_case(rng, n, m, es, malformed=kind))
        elif kind == 'disconnected':
            m = rng.randint(4, 8)
            n = rng.randint(2, m)
            a = rng.randint(1, m - 1)
            es = [e for e in random_connected_graph(rng, m, 0.1) if (e[0] < a) == (e[1] < a)]
            cases.append(make_case(rng, n, m, es, malformed=kind))
        else:
            m = rng.randint(4, 8)
            n = rng.randint(2, m - 1)
            es = [e for e in random_connected_graph(rng, m, 0.0)]
            cases.append(make_case(rng, n, m, es, placer=rng.choice(['T', 'N']), malformed=kind))
    return cases


# --------------------------------------------------------------------------
# evaluate one case (runs in a worker process)
# --------------------------------------------------------------------------
def finish(case, obs, lines, outs):
    res = dict(diffs=[], oracle=[], stats={}, error=obs['error'])
    if len(outs) != len(lines):
        res['diffs'].append(('driver', '%d answers' % len(lines), '%d answers' % len(outs)))
        return res
    def parse(a):
        return pv(a) if not a.startswith('EXN') and a != 'BADCMD' else a
    nlog = len(obs['log'])
    for i, rec in enumerate(obs['log']):
        res['diffs'] += compare_pass(rec, parse(outs[i]), '%s pass #%d' % (rec.kind, i))
    nst = len(obs['stage_infos'])
    res['diffs'] += compare_stages(case, obs, [parse(a) for a in outs[nlog:nlog + nst]])
    for i, rec in enumerate(obs['log']):
        pa, sa = parse(outs[i]), outs[nlog + nst + i]
        if isinstance(pa, str):
            continue
        exp = 'T' if (pa[0] == 'OK' and all(x == 'T' for x in pa[4])) else 'F'
        if sa != exp:
            res['diffs'].append(('%s pass #%d: replay_strict accepts the trace' % (rec.kind, i), exp, sa))
        elif sa == 'T':
            res['stats']['strict_runs'] = res['stats'].get('strict_runs', 0) + 1
    if case.get('variant', 'std') == 'std':
        res['diffs'] += compare_pipe(case, obs, parse(outs[-1]))
    orng = random.Random(json.dumps(case, sort_keys=True))
    res['oracle'] = oracle(case, obs, orng)
    st = res['stats']
    st['steps'] = sum(len(r.steps) for r in obs['log'])
    for r in obs['log']:
        for s in r.steps:
            st[s[0]] = st.get(s[0], 0) + 1
    st['passes'] = len(obs['log'])
    st['swaps_emitted'] = sum(1 for r in obs['log'] if r.modify for s in r.steps if s[0] in 'SU')
    if obs['error'] is None:
        stg = dict(obs['stages'])
        lastpd = obs['stages'][-1][1]
        rp = obs.get('routing_placement', lastpd['placement'])
        st['placement_nonid'] = rp != list(range(len(rp)))
        st['double'] = 'routing2' in stg
        st['fmap_ne_imap'] = lastpd['imap'] != lastpd['fmap']
        st['seq_variant'] = case.get('variant') == 'seq'
    st['placement_stream'] = 1 if case.get('stream') == 'placement' else 0
    st['static_adversarial'] = 1 if case.get('static_adv') else 0
    if case.get('static_adv') and obs['error'] is None:
        stg0 = dict(obs['stages'])
        inf0 = dict(obs['infos'])
        if 'placement' in stg0:
            st['static_adv_rejected'] = 1 if stg0['placement']['placement'] == inf0['placement']['before']['placement'] else 0
    js = lambda x: json.loads(json.dumps(x, default=str))  # noqa
    res['diffs'] = [(w, js(e), js(o)) for w, e, o in res['diffs']]
    res['oracle'] = [(w, js(e), js(o)) for w, e, o in res['oracle']]
    return res


def evaluate_chunk(cases):
    """implementation runs for all cases, ONE model process for the whole chunk"""
    warnings.simplefilter('ignore')
    prepared, all_lines = [], []
    for case in cases:
        try:
            pam = case.get('kind') == 'pam'
            obs = run_pam(case) if pam else run_impl(case)
            if obs.get('budget'):
                prepared.append((case, 'budget', obs['budget']))
                continue
            lines = pam_model_lines(case, obs) if pam else model_lines(case, obs)
        except Exception:  # noqa
            import traceback
            prepared.append((case, None, traceback.format_exc()[-1500:]))
            continue
        prepared.append((case, obs, lines))
        all_lines += lines
    outs = vf.run_model('sabre', all_lines) if all_lines else []
    res, pos = [], 0
    for case, obs, lines in prepared:
        if obs == 'budget':
            res.append(dict(diffs=[], stats={}, error=None, oracle=[
                ('nontermination', 'every recorded pass empties its front set within %d steps' % STEP_LIMIT, lines)]))
            continue
        if obs is None:
            res.append(dict(diffs=[('harness raised', 'no exception', lines)], oracle=[], stats={}, error=None))
            continue
        mine = outs[pos:pos + len(lines)]
        pos += len(lines)
        try:
            res.append(finish_pam(case, obs, lines, mine) if case.get('kind') == 'pam' else finish(case, obs, lines, mine))
        except Exception:  # noqa
            import traceback
            res.append(dict(diffs=[('harness raised', 'no exception', traceback.format_exc()[-1500:])], oracle=[], stats={}, error=None))
    return res


def evaluate(case):
    return evaluate_chunk([case])[0]


def _worker(chunk):
    return evaluate_chunk(chunk)


def evaluate_all(cases, procs=8):
    """single process up to 1500 cases (the box is shared; forking costs more than it saves),
    a small fork pool above that.  bqskit is imported before forking."""
    if len(cases) <= 1500 or procs <= 1:
        res = []
        for i in range(0, len(cases), 25):
            res += evaluate_chunk(cases[i:i + 25])
            if sum(1 for r in res if r['oracle'] and r['oracle'][0][0] == 'nontermination') >= 3:
                # three runs that never finish are a failing input each; do not burn the budget on more
                res += [dict(diffs=[], oracle=[], stats={}, error=None, skipped=True) for _ in cases[len(res):]]
                break
        return res
    chunks = [cases[i:i + 50] for i in range(0, len(cases), 50)]
    with mp.get_context('fork').Pool(procs) as pool:
        res = pool.map(_worker, chunks)
    return [r for ch in res for r in ch]


# --------------------------------------------------------------------------
# shrinking
# --------------------------------------------------------------------------
def still_fails(case, sig_kind):
    try:
        r = evaluate(case)
    except Exception:
        return False
    if sig_kind == 'oracle':
        return bool(r['oracle'])
    return bool(r['diffs']) or bool(r['oracle'])


def shrink(case, sig_kind, budget=60):
    cur = json.loads(json.dumps(case))
    changed = True
    while changed and budget > 0:
        changed = False
        for i in range(len(cur['ops']) - 1, -1, -1):
            if budget <= 0:
                break
            cand = json.loads(json.dumps(cur))
            del cand['ops'][i]
            if not cand['ops']:
                continue
            budget -= 1
            if still_fails(cand, sig_kind):
                cur = cand
                changed = True
        if cur['layout_passes'] > 0 and budget > 0:
            cand = json.loads(json.dumps(cur))
            cand['layout_passes'] = 0
            budget -= 1
            if still_fails(cand, sig_kind):
                cur = cand
                changed = True
    return cur


# --------------------------------------------------------------------------
# reporting
# --------------------------------------------------------------------------
def report(ctx, case, res, do_shrink=True):
    """turn the result of one case into violations.  Returns True if something was reported."""
    hit = False
    if res['oracle']:
        sym = res['oracle'][0][0]
        c2 = shrink(case, 'oracle') if do_shrink else case
        r2 = evaluate(c2) if c2 is not case else res
        o = (r2['oracle'] or res['oracle'])[0]
        ctx.violation(dict(call='mapping pipeline', symptom=o[0]), c2, o[1], o[2],
                      'output of the mapping pass sequence violates the property: ' + o[0])
        for o2 in res['oracle'][1:]:
            if o2[0] != o[0]:
                ctx.violation(dict(call='mapping pipeline', symptom=o2[0]), case, o2[1], o2[2],
                              'output of the mapping pass sequence violates the property: ' + o2[0])
        hit = True
    if res['diffs']:
        d = res['diffs'][0]
        what = d[0]
        key = what.split(':')[-1].strip().split(' ')[0]
        if not res['oracle']:
            c2 = shrink(case, 'any') if do_shrink else case
            r2 = evaluate(c2) if c2 is not case else res
            d = (r2['diffs'] or res['diffs'])[0]
            if r2['oracle']:
                o = r2['oracle'][0]
                ctx.violation(dict(call='mapping pipeline', symptom=o[0]), c2, o[1], o[2],
                              'output violates the property: ' + o[0])
            else:
                ctx.violation(dict(call='sabre-model', kind='model-mismatch', what=key), c2, d[1], d[2],
                              'Coq model and implementation disagree: ' + d[0], kind='correspondence',
                              corr='coq/map/Sabre.v, coq/map/Placement.v vs bqskit/passes/mapping')
        hit = True
    return hit


def case_key(case):
    return vf.canon(case)


def run(ctx: vf.Ctx):
    ctx.uses_translators = set()
    ctx.build(**BUILD)
    warnings.simplefilter('ignore')
    from bqskit.ir.circuit import Circuit  # noqa: F401
    ctx.rule = (
        'machines: every connected labelled graph on 2..%d vertices (exhaustive) + random connected graphs on 3..10 '
        'vertices (spanning tree + extra edges), machine often larger than the circuit; circuits of 2..8 qudits, '
        '1..22 operations drawn from monomial 1/2/3-qudit gates (X Y Z S Sdg CX CZ CY SWAP ISWAP CS CCX Margolus; '
        'qutrit Shift/CSUM/SWAP3/CPI), barriers and CircuitGate blocks (incl. single-qudit-only blocks); placement '
        'in {none, trivial, greedy, static}; 0..3 layout passes; random decay / extended-set parameters; in ~35%% of '
        'cases (and all of a sparse-graph stream) the swap choice is replaced by a seeded adversary so that '
        'backtracking and uphill swaps occur; a stream that routes twice on two different graphs (final_mapping composed '
        'with a non-identity mapping); a PAM stream (PAMLayoutPass / PAMRoutingPass, sequences with and without a first '
        'ApplyPlacement; the standard-shaped ones also replayed as ONE call of PamPipe.pam_pipeline) on circuits of 1-3 qudit blocks and barriers with EXACT pre-synthesised triples built for every '
        'connected local graph and (pre, post) permutation pair of the chosen mode, perm scores randomised in half of them; '
        'a placement-only stream ([SetModel, Trivial/Greedy/Static placement, ApplyPlacement?] on random connected machines of 4..14 qudits); '
        '~8%% malformed (disconnected machine, machine too small). '
        'non-trivial = at least one swap emitted or placement != identity; distinct by canonical JSON of the case'
        % ctx.n(4, 5))
    ctx.assumptions += [
        'partial correctness only: termination of the SABRE loop depends on the float heuristic and is not proved '
        '(every recorded run terminated); proved instead: at most |c| Exec steps, at most 5|cg|+1 consecutive swaps under the '
        'loop guards, and that the guards admit arbitrarily many fruitless Swap*-Backtrack rounds (C09_guards_do_not_bound_rounds)',
        'the heuristic (scores, decay, extended set, set iteration order) is an oracle: theorems hold for every enabled choice',
        'semantic clause of the theorems is stated for an arbitrary monoid semantics with commuting independent gates and '
        'swap naturality; the matrix instance is exercised by the exact basis-state oracle only',
        'StaticPlacementPass search result is an oracle (checked injective on every run)',
        'PAM: the unitary of a pre-synthesised triple is an oracle (contract circ = Po^T.U.Pi taken as the meaning of a block; '
        'the harness constructs exact triples and checks them against that contract); block locations ascending',
    ]
    ctx.trusted = ['Coq 8.16.1 kernel', 'ExtrOcamlBasic extraction, OCaml 4.13.1, coq/extract/sabre_driver.ml',
                   'harness/props/c09.py recorder (RecSet / CircuitProxy / method overrides) and exact monomial simulator',
                   'coq/map/Graph.v get_subgraph / is_fully_connected as the model of CouplingGraph (tied by C20)']

    # corpus first
    corpus = []
    cdir = ROOT / 'corpus' / 'C09'
    if cdir.exists():
        for f in sorted(cdir.glob('*.json')):
            corpus.append(json.loads(f.read_text())['case'])
    cases = corpus + gen_cases(ctx)
    t_h = time.time()
    results = evaluate_all(cases)
    agg = {}
    failing = []
    for case, res in zip(cases, results):
        if res.get('skipped'):
            ctx.count('skipped_after_nontermination')
            continue
        st = res['stats']
        nontrivial = bool(st.get('swaps_emitted')) or bool(st.get('placement_nonid'))
        ctx.case(case_key(case), nontrivial=nontrivial)
        ctx.count('placer=' + case['placer'])
        ctx.count('layout_passes=%d' % case['layout_passes'])
        ctx.count('n=%d' % case['n'])
        ctx.count('m=%d' % case['m'])
        if case.get('malformed'):
            ctx.count('malformed:' + case['malformed'])
        if case['params'].get('adversary'):
            ctx.count('adversarial_choice')
        if case['radix'] == 3:
            ctx.count('qutrit')
        if case.get('variant') == 'double':
            ctx.count('double_routing')
        if case.get('variant') == 'seq':
            ctx.count('seq:' + '-'.join(case['seq']))
        if case.get('kind') == 'pam':
            ctx.count('pam:seq=%s:mode=%s' % (case['seq'], case['mode']))
        if res['error'] is not None:
            ctx.count('impl_raised:' + res['error'][0] + ':' + res['error'][1])
        for k, v in st.items():
            if isinstance(v, bool):
                agg[k] = agg.get(k, 0) + (1 if v else 0)
            else:
                agg[k] = agg.get(k, 0) + v
        if res['diffs'] or res['oracle']:
            failing.append((case, res))
        elif nontrivial and st.get('B'):
            ctx.sample(dict(n=case['n'], m=case['m'], edges=case['edges'], ops=case['ops'][:6], steps=st.get('steps'),
                            backtracks=st.get('B')), limit=3)
    ctx.cov['model_steps_replayed'] = dict(Exec=agg.get('E', 0), Swap=agg.get('S', 0), Backtrack=agg.get('B', 0), Uphill=agg.get('U', 0),
                                           PamExec=agg.get('P', 0), PamExec_nonidentity_perm=agg.get('P_nonid', 0), PamExec_pre_3cycle=agg.get('P_pre_3cycle', 0),
                                           PamBarrier=agg.get('PB', 0))
    ctx.cov['pam_cases'] = agg.get('pam', 0)
    ctx.cov['passes_accepted_by_replay_strict'] = agg.get('strict_runs', 0)
    ctx.cov['pam_pipelines_replayed'] = agg.get('ppipe', 0)
    ctx.cov['placement_only_cases'] = agg.get('placement_stream', 0)
    ctx.cov['static_adversarial_search_results'] = dict(cases=agg.get('static_adversarial', 0), rejected=agg.get('static_adv_rejected', 0))
    ctx.cov['harness_seconds'] = round(time.time() - t_h, 1)
    ctx.cov['passes_replayed'] = agg.get('passes', 0)
    ctx.cov['cases_with_nonidentity_placement'] = agg.get('placement_nonid', 0)
    ctx.cov['cases_with_final_ne_initial_mapping'] = agg.get('fmap_ne_imap', 0)
    ctx.cov['functions_with_theorems'] = ['apply_swap', 'apply_perm', 'compose', 'do_step/replay (Exec, Swap, Backtrack, Uphill)',
                                          'routing_pass', 'layout_pass', 'set_model', 'trivial/greedy/static placement (injectivity)',
                                          'apply_placement', 'pipeline', 'do_pstep/preplay (PAM)', 'perm_exec',
                                          'pam_routing_pass', 'pam_layout_pass', 'pam_apply_placement', 'pam_pipeline',
                                          'trivial_placement / greedy_placement / greedy_loop (connected by construction) / '
                                          'static_placement (own specifications)', 'replay_strict (bounds; unbounded rounds)']
    ctx.cov['correspondence_only'] = ['greedy_loop tie-breaking order', 'front/rear against Circuit.front/rear']
    ctx.cov['uncovered'] = ['EmbedAllPermutationsPass / SubtopologySelectionPass (numerical synthesis; the harness builds exact perm data instead)',
                            'termination of the SABRE / PAM main loop']
    if not ctx.samples and cases:
        c = cases[len(corpus)]
        ctx.sample(dict(n=c['n'], m=c['m'], edges=c['edges'], ops=c['ops'][:6]))
    # report (shrink the first few failing cases; count the rest)
    if failing:
        ctx.broken_obligation('correspondence/oracle: %d of %d cases fail' % (len(failing), len(cases)),
                              json.dumps([f[1]['diffs'][:1] + f[1]['oracle'][:1] for f in failing[:3]], default=str)[:2500])
        seen = set()
        for case, res in failing:
            kind = ('o:' + res['oracle'][0][0]) if res['oracle'] else ('d:' + res['diffs'][0][0].split(':')[-1].strip().split(' ')[0])
            report(ctx, case, res, do_shrink=kind not in seen and len(seen) < 4)
            seen.add(kind)
        # a found failing input supersedes "no-failing-input-found"
        if ctx.violations:
            ctx.broken = [b for b in ctx.broken if not b['what'].startswith('correspondence/oracle')]
        elif ctx.known_hits and not ctx.violations:
            ctx.broken = [b for b in ctx.broken if not b['what'].startswith('correspondence/oracle')]


def replay(ctx, data):
    warnings.simplefilter('ignore')
    case = data['case']
    res = evaluate(case)
    ctx.case(case_key(case))
    if res['diffs'] or res['oracle']:
        report(ctx, case, res, do_shrink=False)
