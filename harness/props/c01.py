"""C01 - compile() preserves circuit semantics under the reported qudit mappings.

Proof side: workflow trees regenerated from the live build_workflow objects, one reflective theorem per
configuration (coq/gen/WorkflowThms*.v) closed through the verified checker (coq/wf/Check.v); statements in
coq/props/C01.v (relative to the classified leaf contracts of coq/wf/Contracts.v).
When a generated theorem fails, the checker's counter-branch is turned into a concrete input class and the REAL
compile() is run on it.  On every run a supporting real-compile() search checks the full property numerically:
output unitary on the embedded subspace (ancillas |0>) against the input under (initial_mapping, final_mapping),
up to global phase, within a budget derived from synthesis_epsilon; measurement placeholders on final_mapping[q].
"""
from __future__ import annotations

import random
import sys
import time
import warnings
from pathlib import Path

import vf

sys.path.insert(0, str(Path(__file__).resolve().parent.parent))
sys.path.insert(0, str(Path(__file__).resolve().parent.parent / 'gen'))
import wfcommon as W  # noqa: E402

BUILD = dict(extracted=[], translators={'gen_workflows'})
model_spec = W.model_spec


def quick_jobs(rng: random.Random) -> list[dict]:
    """6 small seeded circuits x levels 1-2 on line / star models: a 3-qudit gate, a barrier, a measurement,
    a pre-blocked CircuitGate, a machine wider than the circuit, a ZX gate set."""
    shapes = [
        ('route3', W.rand_circuit(rng, 3, 6), model_spec(3, 'line', 'default')),
        ('ccx', W.rand_circuit(rng, 3, 5, three=True), model_spec(4, 'star', 'default')),
        ('barmeas', W.rand_circuit(rng, 4, 6, barrier=True, measure=True), model_spec(4, 'star', 'default')),
        ('block', W.rand_circuit(rng, 3, 5, block=True, measure=True), model_spec(3, 'line', 'default')),
        ('wide', W.rand_circuit(rng, 2, 4, measure=True), model_spec(4, 'line', 'default')),
        ('zx', W.rand_circuit(rng, 3, 5), model_spec(3, 'line', 'zx')),
    ]
    J = []
    for lvl in (1, 2):
        for tag, cs, ms in shapes:
            J.append(W.job('circuit', cs, ms, lvl, seed=rng.randrange(1000), tag=tag))
    return J


def thorough_jobs(rng: random.Random, count: int) -> list[dict]:
    J = []
    shapes = ['line', 'ring', 'star', 'grid', 'tree', 'rand', 'all']
    for i in range(count):
        n = rng.choice([1, 2, 3, 3, 4, 4, 5])
        extra = rng.choice([0, 0, 1, 2])
        ms = model_spec(n + extra, rng.choice(shapes), rng.choice(['default', 'default', 'zx', 'czu3', 'czzx']), rng)
        cs = W.rand_circuit(rng, n, rng.randint(3, 8), three=rng.random() < 0.35, barrier=rng.random() < 0.3,
                            measure=rng.random() < 0.4, block=rng.random() < 0.3)
        for lvl in (1, 2, 3, 4):
            J.append(W.job('circuit', cs, ms, lvl, seed=rng.randrange(1000) if rng.random() < 0.5 else None,
                           err=1e-3 if rng.random() < 0.2 else None, tag=f'rand{i}'))
    return J


def judge(ctx: vf.Ctx, js: dict, r: dict, source: str) -> bool:
    kind, lvl = js['kind'], js['level']
    ms = js['model']
    gsname = ms.get('gs', 'default')
    key = dict(kind=kind, level=lvl, model=gsname, shape=ms.get('shape'), n=ms['n'], tag=js.get('tag'),
               circ=js.get('circuit'), iseed=js.get('iseed'), seed=js.get('seed'))
    if r.get('skipped'):
        return False
    if r.get('timeout') or r.get('worker_failed'):
        ctx.count('compile_timeout' if r.get('timeout') else 'compile_worker_failed')
        return False
    ops = js.get('circuit', {}).get('ops', [])
    ctx.case(key, nontrivial=len(ops) > 0 or kind != 'circuit')
    ctx.count(f'compile_{kind}_L{lvl}')
    for feat in ('ccx', 'barrier', 'measure', 'block'):
        if any(o[0] == feat for o in ops):
            ctx.count('input_with_' + feat)
    if kind == 'circuit' and ms['n'] > js['circuit']['n']:
        ctx.count('input_machine_wider')
    if not r.get('ok'):
        ctx.count('compile_raised')
        ctx.cov.setdefault('compile_exceptions', [])
        if len(ctx.cov['compile_exceptions']) < 5:
            ctx.cov['compile_exceptions'].append(dict(tag=js.get('tag'), exc=r.get('exc')))
        return False
    o = r.get('c01')
    if o is None:
        return False
    base = dict(workflow={'circuit': 'circuit', 'unitary': 'synthesis'}.get(kind, kind), level=lvl, model=gsname)
    found = False

    def viol(sym, expected, observed, what):
        nonlocal found
        if ctx.violation(dict(base, symptom=sym), dict(job=js, source=source), expected, observed, what):
            found = True
    if not o['mapping_wf']:
        viol('mapping', 'injective mappings into the output qudits', dict(pi=o['pi'], pf=o['pf'], out_n=r['out_n']),
             'reported initial/final mapping is not an injection into the output circuit')
    else:
        if not o['sem_ok']:
            viol('semantics', f'cost <= {o["tol"]:.3g}', dict(cost=o['cost'], leak=o['leak'], pi=o['pi'], pf=o['pf']),
                 'output does not implement the input under (initial_mapping, final_mapping)')
        if not o['meas_ok']:
            viol('measurement', 'one placeholder on final_mapping[q] with the same classical bits', o['meas'],
                 'measurement placeholders are not restored on the physical qudits holding the measured logical qudits')
    if o.get('blocks_left'):
        viol('blocks_left', 'no CircuitGate', 'CircuitGate in output', 'output still contains CircuitGate blocks')
    ctx.cov['max_cost'] = max(ctx.cov.get('max_cost', 0.0), o.get('cost') or 0.0)
    if len(ctx.samples) < 4:
        ctx.sample(dict(tag=js.get('tag'), level=lvl, model=gsname, shape=ms.get('shape'), machine_qudits=ms['n'],
                        input=ops, out_ops=len(r['out']), pi=r['pi'], pf=r['pf'], cost=o.get('cost'), tol=o.get('tol'),
                        meas=o.get('meas')))
    return found


def run(ctx: vf.Ctx):
    warnings.simplefilter('ignore')
    ctx.uses_translators = BUILD['translators']
    ctx.build(**BUILD)
    import gen_workflows as G
    ctx.cov['workflow_configurations'] = len(G.configs())
    ctx.rule = ('proof: one reflective theorem per build_workflow configuration (input kind x level x error_threshold x seed x '
                'model class x width; list in coq/gen/Workflows.v). cases: real compile() runs in an isolated child; per run '
                'the output unitary restricted to the embedded logical subspace (ancillas |0>) is compared with the input '
                'under the reported initial/final mappings in the cost 1-|tr|/N (tolerance K^2*synthesis_epsilon, K = bound '
                'on block rewrites), and the measurement placeholder must sit on final_mapping[q] with its classical bits. '
                'Inputs: seeded random circuits with 3-qudit gates, barriers, measurements, pre-blocked CircuitGates, machines '
                'wider than the circuit, line/star/ring/grid/tree/random graphs, CNOT+U3 / ZX / CZ gate sets. non-trivial = '
                'circuit with at least one operation; distinct by canonical case text')
    ctx.assumptions += [
        'leaf contracts of coq/wf/Contracts.v: the theorems are relative to them (AssumedAndTested: numerical leaves)',
        'tolerance: per accepted block rewrite 1-|tr|/N < success threshold; the angle arccos(|tr|/N) is subadditive',
        'qubit circuits; input width <= 5 so that unitaries can be compared exactly',
    ]
    ctx.trusted = ['Coq 8.16.1 kernel + vm_compute', 'harness/gen/gen_workflows.py (walks the live Workflow objects, fail-closed)',
                   'harness/wfcommon.py oracle (numpy unitary of input / output)', 'python harness']
    t_c = time.time()
    if ctx.broken:
        W.theorem_failure_search(ctx, 'c01', 420 if ctx.quick() else 1200, judge, thorough_jobs)
    jobs = W.corpus_jobs('C01') + (quick_jobs(ctx.rng) if ctx.quick() else thorough_jobs(ctx.rng, 100))
    ctx.cov['corpus_jobs'] = sum(1 for j in jobs if str(j.get('tag', '')).startswith('corpus:'))
    budget = max(60.0, 185.0 - (time.time() - t_c)) if ctx.quick() else 1500
    res = W.run_jobs(jobs, budget)
    for js, r in zip(jobs, res):
        judge(ctx, js, r, 'supporting search')
    ctx.cov['compile_jobs'] = len(jobs)
    ctx.cov['compile_runner'] = getattr(W.run_jobs, 'last_info', None)
    ctx.cov['compile_jobs_finished'] = sum(1 for r in res if r.get('ok'))
    ctx.cov['compile_seconds'] = [r.get('secs') for r in res if r.get('ok')]


def replay(ctx: vf.Ctx, data: dict):
    warnings.simplefilter('ignore')
    case = data.get('case') or {}
    if isinstance(case, dict) and 'job' in case:
        js = case['job']
        res = W.run_jobs([js], 600)
        judge(ctx, js, res[0], 'replay')
        return
    run(ctx)
